"""C08 - Loading what was dumped returns the system (LAMMPS data file, LAMMPS dump file, generic table, POSCAR).

One clause per text format plus the rejection clause.  Every round-trip case
  1. builds a System from an independent numpy snapshot x (cell, relative coordinates, types, properties),
  2. lets atomman write it (to a string, a path or a text stream),
  3. loads the text back and compares with x (never with the written text: no parser of mine is involved),
  4. perturbs the text in ways the format allows (atom lines shuffled where ids are present, trailing comments,
     blank lines, a title) and feeds it as string / path / open binary stream: the result must be *identical*
     to the one loaded from the pristine string.
Tolerances are half a unit of the last printed digit (in file units, converted with the unit the writer used),
propagated through the arithmetic the reader has to do (hi-lo, image-flag shifts, unscaling).

Round 3 (after the seeded regressions C08-b2, C08-b3 were missed): every oracle is split into oracle_X(case) = build a
fresh object + judge_X(am, system, snapshot, ...), so that the same judge serves
  * the `history` clause: ONE System object written repeatedly in all four formats (data file with safecopy on and off)
    with box / positions / pbc changed through the public setters in between, each dump + load judged against the
    state of the object at that moment (see the comment above HIST_STYLES);
  * the alternative descriptions of the columns that the 'table' and 'atom_dump' docstrings offer: prop_info dicts
    written by hand or the separate prop_name / table_name / shape / unit / dtype lists, with whole lists left out and
    None entries in unit ("no conversion") and dtype ("infer"), on the writer's and on the loader's side independently
    (gens_c08.describe).

Round 4 (after the seeded regression C08-d1 was missed: the table writer remembered the conversion factor of a unit string
from the first time it was written in the process, so a dump after unitconvert.reset_units() used a stale factor): the
process-global WORKING-UNIT CONFIGURATION is a dimension of every round-trip clause and of the history clause.  About half of
the cases carry a unit plan {'pre', 'W', 'R'} (gens_c08.unit_plans): the snapshot numbers are angstrom / ps / amu / eV / e
numbers and the system is that physical system expressed in the working units (factors: products of numericalunits
attributes); the judged dump runs after reset_units(W) (named length / mass / time / energy / charge units, an integer seed,
'SI'), in two thirds of the plans after the SAME dump + load was run and judged under `pre` (the default or another
configuration) in the same process, and where the file itself fixes the unit of every dimensional column (data file and dump
file with a LAMMPS unit style other than lj; dump file / table whose dimensional columns all have an explicit unit or are
box-relative) the loads run under a third configuration R and must return the physical system in R's units.  The history
clause runs whole histories under W (after the first dump of the history on a fresh object under `pre`) and has a 'units'
step that changes the configuration in the middle and re-expresses the object in the new units through box_set(scale=True) +
atoms_prop(value=) or by re-building it.  All tolerances are relative to the working-unit magnitudes (printed precision in
file units times the size of the file unit under the configuration in force at load time); the default working units are
restored in a finally block of every oracle (the cases of one shard share a process).

Round 5 (generator classes that caught seeded regressions in other properties, carried over; all judged by the same judge_*
functions):
  A result ledger: every System a load returned and every prop_info list a dump returned is entered in a _Ledger with a
    bit-for-bit record taken at return time and compared with it again after all later calls of the case (the second load, the
    re-dump, the dump + load of ANOTHER system, the run under the other working-unit configuration, the later steps of a
    history); results of different calls must not share memory with each other or with the arrays of the dumped system;
  B caller-side mutation: every container handed IN (the system's arrays, prop_info dicts, the prop_name / table_name / shape /
    unit / dtype lists, symbols, pbc, the Box of load('table')) must be bit-identical after the call; post-ops drawn per case:
    'sin' the caller overwrites the dumped system's arrays in place, re-defines its box through the setter and scribbles over
    the containers it passed, 'sout' it does the same to the loaded System and the returned prop_info, 'redump' a fresh
    identical system is dumped again with fresh arguments (same text, same prop_info), 'other' another system (other natoms,
    other numbers) goes through the same dump + load in between; the second load always uses freshly built arguments;
  C storage and input dtypes: per-atom arrays stored as float32 / float16 (values rounded to the storage dtype first: exactly
    representable by construction) / big-endian / int8 .. uint16 up to the dtype limits / bool, Fortran-ordered, strided,
    read-only, or handed over as lists / tuples (gens_c08.stored); loader-side dtype entries 'float32', 'int16', numpy dtype
    objects, Python types (gens_c08.dtype_token) whose result must have that dtype;
  D working-unit configuration: the unit plans of round 4;
  E near-threshold values: tilt / box length = +-10**[-12,-3] (judged against the cell a Box holds after its documented 1e-9
    clean-up, the rung itself avoided), atoms 10**[-12,-3] off a face / the centre, property values almost integer / almost 0;
  F many decades: the values of one property column spanning 1e-8 .. 1e8 and rows of relative coordinates spanning 1 .. 1e-8,
    every element judged against its own magnitude (exponent formats: tolerance relative to the element);
  G exactly structured cells: lower-triangular cells whose tilts are exact halves / negatives / cancel (xy + xz == 0) / a whole
    box length, for table and POSCAR also signed permutations of the axes, upper-triangular cells with reversed vectors,
    cyclically relabelled cells, cells centred on the origin;
  H clause `combos` (enumerated): every ordered pair of atom styles as a sequence in one process (hybrid a b, a, b, atomic with
    the ledger across), every ordered subset of the pos / spos / upos / supos columns with every unit treatment, every
    writer route x loader route x pos unit of the table format, every coordstyle x scale x symbols x format of POSCAR.
"""
import copy
import functools
import io
import itertools
import os
import tempfile

import numpy as np
from hypothesis import strategies as st

from ..core import Clause, Violation, require
from .. import gens
from .. import gens_c08 as G

RULE = ("systems: LAMMPS-compatible cells (orthogonal/triclinic, any origin; rotated cells too for table/POSCAR), 1-12 "
        "atoms at relative coordinates in [-2,3] incl. exact 0, 1/2, 1, all 8 pbc, 1-4 types with gaps, symbols "
        "absent/present/partial, per-style properties, velocities, free extras of rank 0-3 (table/dump file: also "
        "shapes with unit dimensions (1,), (1,1), (1,1,1), (1,3), (3,1), (2,1), (1,2,1)); all 18 atom styles + "
        "hybrid pairs, 8 unit styles, 4 float formats, pos/spos/upos/supos columns, POSCAR direct/Cartesian with scale "
        "1, 0.5, 3.7, a.  Non-trivial: (data/dump) tilted or shifted cell AND an atom outside the cell AND (style != "
        "atomic or units != metal or scaled/unwrapped columns) AND a carried non-position property of rank >= 1; "
        "(table) a rank >= 1 property AND (unit conversion or scaled or header/comments/ids); (poscar) tilted, rotated "
        "or shifted cell AND (>= 2 types or a gap) AND (scale != 1 or Cartesian); (reject) a mutilated file that "
        "still contains all other sections, perturbed or given as path/stream.  table / dump file: in about a third "
        "of the cases the columns are described explicitly on either side (lists with left-out lists and None entries, "
        "hand-written prop_info dicts, the returned prop_info), units per column None / LAMMPS-standard / other / scaled.  "
        "history: 2-5 steps on one object drawn from data/dump/table/POSCAR dumps (safecopy True in a quarter of the data "
        "dumps), box_set(vects | avect,bvect,cvect, scale on/off) or box.vects=, positions assigned three ways, pbc, reads of "
        "derived quantities; non-trivial: >= 2 dumps and a dump that needs box-relative coordinates after an in-place "
        "wrap or a modification.  Working units: about half of the round-trip and history cases run under a unit plan - "
        "the physical system (angstrom/ps/amu/eV/e numbers) expressed in the working units set by reset_units(named units | "
        "integer seed | 'SI'), the judged dump + load preceded in two thirds of them by the same dump + load under the "
        "default or another configuration in the same process, the loads under yet another configuration where the file "
        "fixes the unit of every dimensional column; histories with a change of configuration in the middle.  Round 5 classes "
        "(drawn last, about 15-25 % of the cases each): almost orthogonal cells (tilt / length = +-10**[-12,-3]), exactly "
        "structured cells (half / negative / cancelling tilts; table and POSCAR: signed axis permutations, upper-triangular, "
        "cyclically relabelled, centred cells), atoms 10**[-12,-3] off a face, property columns over 16 decades and almost "
        "integer / almost zero values, rows of coordinates over 8 decades, per-atom arrays stored as float32 / float16 / "
        "big-endian / int8..uint16 at the dtype limits / bool, Fortran-ordered, strided, read-only, lists; loader dtype entries "
        "float32, int16, dtype objects, Python types; post-ops of the caller (arguments, written system, loaded System and "
        "returned prop_info overwritten in place, re-dump, another system in between) with a ledger of everything returned; "
        "clause combos enumerates style sequences, position-column subsets, table routes and POSCAR options")
ASSUMPTIONS = ["numpy/pandas number parsing and printf formatting are correct",
               "atomman.unitconvert (judged by C09) and the lammps.style unit table are used only to scale the "
               "tolerance of fixed-point formats (half a printed digit in file units), never for expected values",
               "under a unit plan the expected numbers are the snapshot times my own factors built from numericalunits "
               "attributes (nu.angstrom, nu.ps, nu.amu, nu.eV, nu.e ...): numericalunits and the way unitconvert.reset_units "
               "applies a configuration are trusted (C09 judges them); named choices always contain a length unit and never "
               "all of length+mass+time+energy",
               "numbers that a file carries in working units (POSCAR, table columns without unit, `units lj`) are written with "
               "the exponent format of the same digit count when one angstrom is outside [0.05, 20] working units: a fixed-"
               "point format cannot represent a 1e-10 cell, which is the caller's choice of format, not a round-trip failure",
               "loads under another configuration than the dump are only judged where every dimensional column has a unit in "
               "the file; a column written with unit None holds working-unit numbers by the docstrings and is kept out",
               "styles with a density column are not generated under `units electron` (LAMMPS defines no density "
               "unit there)",
               "the 0.001 margin by which System.wrap extends non-periodic boundaries is not asserted: along an "
               "extended direction only 'same direction, contains the old cell and every atom' is required",
               "history clause: where atomman itself recomputed coordinates of the object (in-place wrap, box_set(scale="
               "True), scaled assignment) the object's raw box/pos arrays are checked against my model to 1e-9 (relative, "
               "times the cell condition) and then adopted as the snapshot for the following steps",
               "an atom_id column counts as 'ids present' only when the description given to the loader names it 'id'",
               "on a tree where a listed finding blocks a whole clause (pandas readers, POSCAR writer) the non-vacuity "
               "guards of that clause are switched off (probe in _tree_state); the oracles never consult the probe",
               "a System keeps the Box object it is given (documented at System.__init__, safecopy): the Box handed to "
               "load('table', box=) is not edited by the caller afterwards; every other argument container may be",
               "float32 positions: System.wrap stores the wrapped coordinates in the caller's float32 array, so a data file of "
               "such a system is judged to float32 resolution of the wrapped coordinate (the precision the caller chose); "
               "read-only positions are not combined with the in-place wrap of dump('atom_data', safecopy=False)",
               "atype and pos exist in every Atoms object with types of their own: a loader dtype entry for them is only "
               "checked through the rounding it causes, for every other property the loaded dtype must be the given one",
               "a cell handed to Box with a component up to 1e-9 of its largest one holds zero there (documented clean-up): "
               "almost orthogonal cells are judged against the cleaned cell, ratios within 10 % of 1e-9 are not generated"]
LEVEL_TEXT = ("generated systems written by atomman and read back in all four text formats (all atom styles incl. "
              "hybrid pairs, 8 unit styles, 4 float formats, scaled/unwrapped dump columns, POSCAR direct/Cartesian with "
              "scale factors), compared with an independent snapshot to the printed precision; shuffled atom lines, "
              "comments, blank lines and string/path/stream input must give the identical system; mutilated data "
              "files must raise FileFormatError; table/dump-file columns also described through explicit lists (left-out "
              "lists, None entries) and hand-written prop_info; histories of 2-5 dumps/modifications on one object "
              "(safecopy on and off) with every dump judged the same way; half of the cases under other process-global working "
              "units (reset_units named / seeded / SI) after an earlier dump + load under the default or another "
              "configuration, loads under a different configuration where the file fixes the units; near-threshold and exactly "
              "structured cells, values over many decades, narrow / byte-swapped / strided / read-only storage and explicit loader "
              "dtypes, caller-side overwriting of everything handed in and out with a bit-for-bit ledger of every returned "
              "System and prop_info; enumerated style sequences, position-column subsets, table routes and POSCAR options")
TECHNIQUE = ("round trip against an independent numpy snapshot with printed-precision tolerances; metamorphic "
             "text perturbation (line order, comments, blank lines, input source); negative cases by section deletion; "
             "model-based object histories; working-unit configurations as process history (same oracles after reset_units, "
             "dump and load under different configurations); result ledger and argument-identity checks around caller-side "
             "mutation; enumerated option combinations")
WALL = {'quick': 60, 'thorough': 540}

EPS = 2.3e-16
K_PANDAS = 'C08:pandas:delim_whitespace'
K_POSCAR = 'C08:poscar:dump-raises'
K_STREAM = 'C08:stream:multi-pass-not-rewound'
K_FLAGS = 'C08:atom_data:imageflags-line-order'
K_SCALED = 'C08:prop_info:scaled-unit-lost'
K_VOLUME = 'C08:atom_data:volume-unit-missing'
K_LJ_ANG = 'C08:atom_data:lj-ang-units'
K_LJ_TORQUE = 'C08:atom_dump:lj-torque-none'
K_UPOS = 'C08:atom_dump:upos-scaled-with-pos'
K_STORAGE = 'C08:dump:unit-conversion-in-the-storage-dtype'
K_BIGENDIAN = 'C08:dump:non-native-byte-order-columns:pandas-raises'
K_POSCAR_F4 = 'C08:poscar:cartesian-box_scale-division-in-the-storage-dtype'


# ----------------------------------------------------------------------------- tree state (guards only)

@functools.lru_cache(maxsize=None)
def _tree_state():
    """('pandas' blocked?, 'poscar' blocked?) of the tree under test; used only to switch the non-vacuity
    guards off for clauses that are entirely behind a listed known finding (the oracles do not use it)"""
    try:
        import atomman as am
    except Exception:
        return (False, False)
    pandas_blocked = poscar_blocked = False
    try:
        am.load('table', '1 2\n', box=am.Box(), prop_name=['a', 'b'])
    except TypeError as e:
        pandas_blocked = 'delim_whitespace' in str(e)
    except Exception:
        pass
    try:
        am.System(atoms=am.Atoms(atype=[1], pos=[[0.0, 0.0, 0.0]])).dump('poscar')
    except ValueError as e:
        poscar_blocked = 'truth value' in str(e)
    except Exception:
        pass
    return (pandas_blocked, poscar_blocked)


class _Guards(dict):
    """min_share guards that apply only when the clause is not wholly excluded by a listed known finding"""
    def __init__(self, d, blocked_index):
        super().__init__(d)
        self._bi = blocked_index

    def items(self):
        if _tree_state()[self._bi]:
            return {}.items()
        return super().items()


# ----------------------------------------------------------------------------- precision

def _prec(fmt):
    """'%.13f' -> ('f', 13) ; '%.5e' -> ('e', 5)"""
    return fmt[-1], int(fmt[2:-1])


def tol_for(fmt, U, mag):
    """absolute tolerance (working units) of a value of magnitude `mag` printed with `fmt` in a unit of size U"""
    kind, n = _prec(fmt)
    mag = np.abs(np.asarray(mag, dtype=float))
    if kind == 'f':
        return 0.5 * 10.0 ** (-n) * abs(U) * 1.01 + 32 * EPS * mag
    return (0.5 * 10.0 ** (-n) * 1.01 + 32 * EPS) * mag


_UCACHE = {}


def unit_scale(am, units, q):
    """size of the file unit of quantity q in working units, from the table the writer itself uses (tolerance only)"""
    if q is None or units == 'lj':
        return 1.0
    import numericalunits as nu
    key = (units, q, nu.m, nu.kg, nu.s, nu.C)           # the working units are process-global and change between cases
    if key not in _UCACHE:
        if len(_UCACHE) > 4000:
            _UCACHE.clear()
        import atomman.unitconvert as uc
        d = am.lammps.style.unit(units)
        if q == 'volume':
            v = float(uc.set_in_units(1.0, d['length'])) ** 3
        elif q == 'torque':
            v = float(uc.set_in_units(1.0, d['force'])) * float(uc.set_in_units(1.0, d['length']))
        else:
            v = float(uc.set_in_units(1.0, d[q]))
        _UCACHE[key] = abs(v)
    return _UCACHE[key]


# ----------------------------------------------------------------------------- working-unit configurations (round 4)

def _wfmt(fmt):
    """float format for numbers that a file carries in WORKING units (POSCAR, table columns without unit, `units lj`): the
    fixed-point formats presume angstrom-scale numbers (see gens_c08.FORMATS); when one angstrom is not within [0.05, 20]
    working units the exponent format with the same number of digits is used instead (a cell of 5e-10 printed with 8
    decimals is a singular cell: outside what the chosen format can represent, not a round-trip failure)"""
    if fmt[-1] != 'f':
        return fmt
    import numericalunits as nu
    return fmt if 0.05 <= nu.angstrom <= 20.0 else fmt[:-1] + 'e'


class _Ux:
    """the working-unit plan of one judged dump + load: `switch` is called by the judge between the dump and the loads"""
    def __init__(self, uc, R):
        self.uc, self.R, self.crossed = uc, R, False

    def switch(self, S, eligible, xunits):
        """loads under another configuration than the dump: only when the file names the unit of every dimensional column
        (`eligible`); xunits: {name: unit string} of the declared-dimensionless float properties that the file carries in an
        explicit unit (their number changes by size_R(unit) / size_W(unit)).  Returns the snapshot to compare with."""
        if self.R is None or not eligible or 'raw' not in S:
            return S
        sizes = {k: G.own_unit_size(u) for k, u in xunits.items()}
        if any(v is None for v in sizes.values()):
            return S
        f0 = G.unit_factors()
        _apply(self.uc, self.R)
        self.crossed = True
        ratio = {k: G.own_unit_size(u) / sizes[k] for k, u in xunits.items()}
        if S.get('restored'):
            # the system holds numbers rounded to a storage dtype (round 5): the same physical system in R's units
            return G.rescaled(S, f0, G.unit_factors(), ratio)
        S2 = G.physical(S['raw'], ratio)
        if S.get('store'):
            S2['store'] = S['store']
        return S2


def _cfg_text(cfg):
    if cfg['kind'] == 'named':
        return 'reset_units(%s)' % ', '.join('%s=%r' % kv for kv in cfg['units'].items())
    return 'reset_units(seed=%r)' % ('SI' if cfg['kind'] == 'SI' else cfg['seed'])


def _unit_labels(plan, crossed):
    import numericalunits as nu
    A = nu.angstrom
    labs = {'units', 'units_' + plan['W']['kind'],
            'units_A_same' if A == 1.0 else 'units_A_gt1' if A > 1.0 else 'units_A_ge1e-3' if A >= 1e-3 else 'units_A_lt1e-3'}
    if plan['pre'] is not None:
        labs.add('units_pre')
        labs.add('units_pre_default' if plan['pre'] == G.DEFAULT_CFG else 'units_pre_other')
    if crossed:
        labs.add('units_cross')
    return labs


_TRAIL = []          # the last other-than-default configurations this process has been put under (diagnostics only)


def _apply(uc, cfg):
    G.apply_units(uc, cfg)
    if cfg != G.DEFAULT_CFG and cfg not in _TRAIL[-2:]:
        _TRAIL.append(cfg)
        del _TRAIL[:-2]


def _trail_note(own=()):
    """a failure may need what EARLIER cases did to the process (e.g. a conversion factor remembered from another
    configuration): say so, since the replay of this case alone starts in a fresh process"""
    other = [c for c in _TRAIL if c not in own]
    if not other:
        return ''
    return ' [earlier cases of this process ran dumps + loads under %s: if the replay of this case alone holds, the failure ' \
           'needs that history]' % ' and '.join(_cfg_text(c) for c in other)


def _with_units(case, run):
    """run(am, case, ux) under the unit plan of the case: the same judged dump + load first under plan['pre'] (same process,
    same oracles), then the dump under plan['W'] and the loads under plan['R']; the default working units are ALWAYS
    restored (the cases of one shard share a process)"""
    import atomman as am
    import atomman.unitconvert as uc
    plan = case.get('units')
    led = _Ledger()
    if plan is None:
        try:
            labels = set(run(am, case, None, led))
            led.verify(labels)
            return labels
        except Violation as v:
            raise Violation(v.detail + _trail_note(), key=v.key) from None
    own = [plan[k] for k in ('pre', 'W', 'R') if plan[k] is not None]
    try:
        if plan['pre'] is not None:
            _apply(uc, plan['pre'])
            try:
                run(am, case, _Ux(uc, None), led)
            except Violation as v:
                raise Violation('%s [under %s]%s' % (v.detail, _cfg_text(plan['pre']), _trail_note(own)), key=v.key) from None
            led.rounds += 1
        _apply(uc, plan['W'])
        ux = _Ux(uc, plan['R'])
        try:
            labels = set(run(am, case, ux, led))
            led.verify(labels, ' (the dumps + loads under the other working-unit configuration included)' if led.rounds else '')
        except Violation as v:
            raise Violation('%s [dump under %s%s%s]%s' % (
                v.detail, _cfg_text(plan['W']), ', loads under ' + _cfg_text(plan['R']) if ux.crossed else '',
                ', after the same dump + load under %s in the same process' % _cfg_text(plan['pre']) if plan['pre'] is not None else '',
                _trail_note(own)), key=v.key) from None
        if ux.crossed:
            _apply(uc, plan['W'])
        labels |= _unit_labels(plan, ux.crossed)
        return labels
    finally:
        G.restore_units(uc)


# ----------------------------------------------------------------------------- sources and targets

class _Tmp:
    """temporary files of one oracle call"""
    def __init__(self):
        self.paths, self.handles = [], []

    def path(self, content=None):
        fd, p = tempfile.mkstemp(prefix='c08-', suffix='.txt')
        with os.fdopen(fd, 'w', encoding='utf-8', newline='') as f:
            if content is not None:
                f.write(content)
        self.paths.append(p)
        return p

    def source(self, kind, text):
        if kind == 'str':
            return text
        if kind == 'path':
            return self.path(text)
        if kind == 'bytesio':
            return io.BytesIO(text.encode('utf-8'))
        if kind == 'file':
            h = open(self.path(text), 'rb')
            self.handles.append(h)
            return h
        raise ValueError(kind)

    def close(self):
        for h in self.handles:
            try:
                h.close()
            except Exception:
                pass
        for p in self.paths:
            try:
                os.remove(p)
            except OSError:
                pass


def _dump(system, style, target, tmp, **kw):
    """writes through the drawn target; returns (text, other return values as a list)"""
    try:
        return _dump_(system, style, target, tmp, **kw)
    except ValueError as e:
        if 'Big-endian buffer not supported' in str(e):
            be = [k for k in system.atoms_prop() if not np.asarray(system.atoms.view[k]).dtype.isnative]
            if be:
                raise Violation("dump(%r) raises ValueError: %s - the system stores %r in non-native byte order and the DataFrame "
                                "built by System.atoms_df hands those arrays to pandas as they are" % (style, e, be), key=K_BIGENDIAN) from None
        raise


def _dump_(system, style, target, tmp, **kw):
    if target == 'str':
        r = system.dump(style, **kw)
        if isinstance(r, tuple):
            return r[0], list(r[1:])
        return r, []
    if target == 'path':
        p = tmp.path()
        r = system.dump(style, f=p, **kw)
        with open(p, encoding='utf-8', newline='') as f:
            text = f.read()
    else:
        h = io.StringIO()
        r = system.dump(style, f=h, **kw)
        text = h.getvalue()
    if r is None:
        return text, []
    return text, list(r) if isinstance(r, tuple) else [r]


def _is_pandas(e):
    return isinstance(e, TypeError) and 'delim_whitespace' in str(e)


def _load(am, style, src, **kw):
    try:
        return am.load(style, src, **kw)
    except TypeError as e:
        if _is_pandas(e):
            raise Violation("load(%r) raises TypeError: %s" % (style, str(e)[:160]), key=K_PANDAS) from None
        raise


def scaled_roundoff(S):
    """norm-wise bound (n,1) on the rounding error of relative coordinates computed from Cartesian ones, and (n,1)
    bound on the rounding error of the Cartesian coordinates computed back from them"""
    V, o, s, pos = S['V'], S['o'], S['s'], S['pos']
    ninv = np.abs(np.linalg.inv(V)).max()
    r_s = 64 * EPS * (np.abs(pos) + np.abs(o)).sum(axis=1, keepdims=True) * ninv * 3
    r_x = 64 * EPS * ((np.abs(s) @ np.abs(V)).sum(axis=1, keepdims=True) + np.abs(o).sum())
    return r_s, r_x


def _stream_eof(e):
    """the signature of a second parsing pass starting at the end of an already consumed stream"""
    return (isinstance(e, ValueError) and 'First dimension of value must be 1 or natoms' in str(e)) or \
        type(e).__name__ == 'EmptyDataError'


SOURCES = st.sampled_from(['str', 'path', 'bytesio', 'file', 'str', 'path'])
TARGETS = st.sampled_from(['str', 'str', 'path', 'stream'])
_keys12 = st.lists(st.integers(0, 999), min_size=12, max_size=12)
_bool = st.booleans()
_PERMS = {k: st.permutations(list(range(k))) for k in range(0, 20)}


def _perm(keys, n):
    return [int(i) for i in np.argsort(np.array(keys[:n]), kind='stable')]


# ----------------------------------------------------------------------------- comparisons

def _relbounds(S):
    s = S['s']
    return s.min(axis=0), s.max(axis=0)


def cmp_values(name, got, exp, tol, what):
    got = np.asarray(got)
    require(got.shape == exp.shape, lambda: '%s: property %r has shape %r, expected %r' % (what, name, got.shape, exp.shape))
    if exp.dtype.kind == 'i':
        if got.dtype.kind == 'b':
            got = got.astype('int64')               # a property stored as bool is written True / False and read back as bool
        require(got.dtype.kind in 'iu' or np.all(got == np.round(got)),
                lambda: '%s: integer property %r came back as %r' % (what, name, got.dtype))
        bad = got != exp
        require(not bad.any(), lambda: '%s: integer property %r differs: got %r expected %r' % (what, name, got.tolist(), exp.tolist()))
        return
    require(got.dtype.kind in 'fiu', lambda: '%s: numeric property %r came back with dtype %r' % (what, name, got.dtype))
    got = got.astype(float)
    err = np.abs(got - exp)
    tol = np.broadcast_to(np.asarray(tol, dtype=float), exp.shape)
    bad = ~(err <= tol)
    require(not bad.any(), lambda: '%s: property %r differs by %.3g (tol %.3g) at %r: got %r expected %r' % (
        what, name, err[bad].max(), tol[bad].min(), np.argwhere(bad)[0].tolist(), got[bad][:3].tolist(), exp[bad][:3].tolist()))


def same_system(a, b, what, skip=()):
    """identical result: same numbers, not merely close"""
    require(a.natoms == b.natoms, lambda: '%s: natoms %d vs %d' % (what, a.natoms, b.natoms))
    require(np.array_equal(a.box.vects, b.box.vects) and np.array_equal(a.box.origin, b.box.origin),
            lambda: '%s: cell differs:\n%r %r\n%r %r' % (what, a.box.vects, a.box.origin, b.box.vects, b.box.origin))
    require(list(a.pbc) == list(b.pbc), lambda: '%s: pbc %r vs %r' % (what, a.pbc, b.pbc))
    require(tuple(a.symbols) == tuple(b.symbols), lambda: '%s: symbols %r vs %r' % (what, a.symbols, b.symbols))
    pa, pb = list(a.atoms_prop()), list(b.atoms_prop())
    require(sorted(pa) == sorted(pb), lambda: '%s: property lists differ: %r vs %r' % (what, pa, pb))
    for k in pa:
        if k in skip:
            continue
        va, vb = np.asarray(a.atoms.view[k]), np.asarray(b.atoms.view[k])
        require(va.shape == vb.shape and va.dtype == vb.dtype and np.array_equal(va, vb),
                lambda: '%s: property %r differs:\n%r\nvs\n%r' % (what, k, va.tolist(), vb.tolist()))


def shape_labels(S, written, loaded_with_prop_info=True):
    """'unit_dim_shape': a written free property whose per-atom shape has a dimension of length 1 is read back through
    the writer's prop_info; 'one_column_shape': such a property with exactly one component ((1,), (1,1), (1,1,1)),
    i.e. a single table column whose shape is known only from prop_info"""
    labs = set()
    if not loaded_with_prop_info:
        return labs
    for k in written:
        if k in S['props']:
            shape = S['meta'][k]['shape']
            if len(shape) >= 1 and 1 in shape:
                labs.add('unit_dim_shape')
                if int(np.prod(shape)) == 1:
                    labs.add('one_column_shape')
    return labs


def cell_labels(S, sysd):
    labs = G.cell_labels(sysd['cell']) | G.x_labels(sysd) | G.store_labels(S)
    smin, smax = _relbounds(S)
    if (smin < 0).any() or (smax >= 1).any():
        labs.add('outside')
    if len(set(sysd['atype'])) < sysd['ntypes']:
        labs.add('type_gap')
    if len(set(sysd['atype'])) >= 2:
        labs.add('multitype')
    labs.add('symbols_' + ('none' if sysd['symbols'] is None else 'partial' if None in sysd['symbols'] else 'all'))
    if any(len(p['shape']) >= 2 for p in sysd['props']):
        labs.add('rank2plus')
    return labs


def check_symbols_passthrough(loaded, S, what):
    if S['symbols'] is not None:
        exp = tuple(S['symbols'])
        got = tuple(loaded.symbols)
        require(got[:len(exp)] == exp and all(g is None for g in got[len(exp):]),
                lambda: '%s: symbols %r, passed %r' % (what, got, exp))


# ============================================================================= ledger and caller-side mutation (round 5)

def _fingerprint(L):
    """bit-for-bit record of a System: cell, pbc, symbols and every per-atom array (dtype, shape, content)"""
    props = {}
    for k in L.atoms_prop():
        v = np.asarray(L.atoms.view[k])
        props[k] = (v.dtype.str, v.shape, v.tobytes())
    return {'natoms': int(L.natoms), 'vects': np.array(L.box.vects), 'origin': np.array(L.box.origin),
            'pbc': [bool(b) for b in L.pbc], 'symbols': tuple(L.symbols), 'props': props}


def _fp_diff(a, b, skip=(), cell=True):
    """None when two fingerprints are equal, else what differs"""
    if a['natoms'] != b['natoms']:
        return 'natoms %d vs %d' % (a['natoms'], b['natoms'])
    if cell and not (np.array_equal(a['vects'], b['vects']) and np.array_equal(a['origin'], b['origin'])):
        return 'cell %r %r vs %r %r' % (a['vects'].tolist(), a['origin'].tolist(), b['vects'].tolist(), b['origin'].tolist())
    if a['pbc'] != b['pbc'] or a['symbols'] != b['symbols']:
        return 'pbc / symbols %r %r vs %r %r' % (a['pbc'], a['symbols'], b['pbc'], b['symbols'])
    if sorted(a['props']) != sorted(b['props']):
        return 'property lists %r vs %r' % (sorted(a['props']), sorted(b['props']))
    for k, (dt, shp, raw) in a['props'].items():
        if k in skip:
            continue
        if (dt, shp, raw) != b['props'][k]:
            va = np.frombuffer(raw, dtype=dt).reshape(shp)
            vb = np.frombuffer(b['props'][k][2], dtype=b['props'][k][0]).reshape(b['props'][k][1])
            return 'property %r: %s %r vs %s %r' % (k, dt, va.tolist(), b['props'][k][0], vb.tolist())
    return None


def _sys_arrays(L):
    return [(k, np.asarray(L.atoms.view[k])) for k in L.atoms_prop()]


def _same_tree(a, b):
    """deep equality of argument containers (dicts, lists, tuples, arrays, scalars): same types, same content"""
    if isinstance(a, np.ndarray) or isinstance(b, np.ndarray):
        return isinstance(a, np.ndarray) and isinstance(b, np.ndarray) and a.dtype == b.dtype and a.shape == b.shape and \
            np.array_equal(a, b)
    if type(a) is not type(b):
        return False
    if isinstance(a, dict):
        return list(a) == list(b) and all(_same_tree(a[k], b[k]) for k in a)
    if isinstance(a, (list, tuple)):
        return len(a) == len(b) and all(_same_tree(x, y) for x, y in zip(a, b))
    return a == b


class _Args:
    """keyword arguments of one atomman call with a pristine deep copy: `fresh()` builds new containers for the next call,
    `check()` requires that the call left the ones it was given as they were"""
    SKIP = ('box', 'f')

    def __init__(self, kw):
        self.kw = kw
        self.pristine = {k: copy.deepcopy(v) for k, v in kw.items() if k not in self.SKIP}

    def check(self, what):
        for k, v in self.pristine.items():
            require(_same_tree(self.kw[k], v), lambda: '%s changed the %s argument it was given: %r -> %r' % (what, k, v, self.kw[k]))

    def fresh(self):
        kw = dict(self.kw)
        kw.update({k: copy.deepcopy(v) for k, v in self.pristine.items()})
        return kw

    def scribble(self):
        """the caller re-uses the containers it passed for something else"""
        for k in self.pristine:
            _scribble(self.kw[k])


def _scribble(v):
    if isinstance(v, dict):
        for k in list(v):
            if isinstance(v[k], (dict, list)):
                _scribble(v[k])
            else:
                v[k] = 'scaled' if k == 'unit' and v[k] != 'scaled' else None
        v['overwritten'] = True
    elif isinstance(v, list):
        for q in v:
            _scribble(q)
        v.reverse()
        v.append('overwritten')
    elif isinstance(v, np.ndarray) and v.flags.writeable:
        v[...] = 0


def _scribble_system(L, factor=3.0):
    """the caller overwrites every per-atom array of L in place and re-defines its box through the setter"""
    for k, v in _sys_arrays(L):
        if v.flags.writeable:
            if v.dtype.kind == 'f':
                v *= -factor
                v += 1
            elif v.dtype.kind in 'iu':
                v[...] = v[::-1].copy() // 2
            elif v.dtype.kind == 'b':
                v[...] = ~v
    L.box_set(vects=np.array(L.box.vects)[::-1] * np.array([[1.0], [-2.0], [0.5]]), origin=np.array(L.box.origin) + 1.0)
    L.pbc = [not b for b in L.pbc]


class _Ledger:
    """every System a load handed out and every prop_info list a dump handed out, with a record taken at return time (which the
    judges have compared with the snapshot then): what the caller holds must stay that result whatever is computed afterwards,
    and results of different calls must not share memory with each other or with the dumped system"""

    def __init__(self):
        self.systems, self.infos, self.inputs, self.rounds = [], [], [], 0

    def add_system(self, L, where):
        self.systems.append((L, _fingerprint(L), where, self.rounds))
        return L

    def add_info(self, pi, where):
        if pi is not None:
            self.infos.append((pi, copy.deepcopy(pi), where))
        return pi

    def add_input(self, system, where):
        self.inputs.append((system, _fingerprint(system), where))

    def forget(self, obj):
        """the caller has overwritten obj itself: it is no longer a result to be kept"""
        self.systems = [e for e in self.systems if e[0] is not obj]
        self.infos = [e for e in self.infos if e[0] is not obj]
        self.inputs = [e for e in self.inputs if e[0] is not obj]

    def verify(self, labels=None, after=''):
        for L, fp, where, _ in self.systems:
            d = _fp_diff(fp, _fingerprint(L))
            require(d is None, lambda: 'the System returned by %s changed after later calls%s (at return time vs now): %s' % (where, after, d))
        for pi, snap, where in self.infos:
            require(_same_tree(pi, snap), lambda: 'the prop_info returned by %s changed after later calls%s: %r -> %r' % (where, after, snap, pi))
        for system, fp, where in self.inputs:
            d = _fp_diff(fp, _fingerprint(system))
            require(d is None, lambda: 'the system written by %s changed after later calls%s: %s' % (where, after, d))
        arrs = [((j, where), k, v) for j, (L, _, where, _) in enumerate(self.systems) for k, v in _sys_arrays(L)]
        ins = [(where, k, v) for system, _, where in self.inputs for k, v in _sys_arrays(system)]
        for i, (w1, k1, v1) in enumerate(arrs):
            for w2, k2, v2 in arrs[i + 1:]:
                if w1[0] == w2[0]:
                    continue
                require(not (np.may_share_memory(v1, v2) and np.shares_memory(v1, v2)),
                        lambda: 'property %r of the System returned by %s shares memory with property %r of the one returned by %s' % (k1, w1, k2, w2))
            for w2, k2, v2 in ins:
                require(not (np.may_share_memory(v1, v2) and np.shares_memory(v1, v2)),
                        lambda: 'property %r of the System returned by %s shares memory with property %r of the system that was written (%s)' % (k1, w1, k2, w2))
        for i, (p1, _, w1) in enumerate(self.infos):
            for p2, _, w2 in self.infos[i + 1:]:
                require(p1 is not p2 and not any(a is b for a in p1 for b in p2),
                        lambda: 'the prop_info lists returned by %s and by %s are / share the same objects' % (w1, w2))
        if labels is not None and len(self.systems) >= 2:
            labels.add('ledger')
            if len({e[1]['natoms'] for e in self.systems}) >= 2:
                labels.add('ledger_other_natoms')
            if len({e[3] for e in self.systems}) >= 2:
                labels.add('ledger_across_rounds')


def _fp_array(fp, k):
    dt, shp, raw = fp['props'][k]
    return np.frombuffer(raw, dtype=dt).reshape(shp)


def same_as_record(fp, L, what, skip=()):
    """identical result: the System L is bit for bit what the record fp (taken from another load) says"""
    d = _fp_diff(fp, _fingerprint(L), skip)
    require(d is None, lambda: '%s: differs from the System loaded from the pristine text: %s' % (what, d))


def _after_dump(dargs, before, system, what, wrapped=False):
    """the call left its argument containers as they were, and the system too (wrapped: the documented in-place wrap of
    dump('atom_data', safecopy=False) may move positions and cell, nothing else)"""
    dargs.check(what)
    d = _fp_diff(before, _fingerprint(system), ('pos',) if wrapped else (), not wrapped)
    require(d is None, lambda: '%s changed the system it wrote (before vs after): %s' % (what, d))


def _post_ops(x, led, system, L0, prop_info, dargs, largs, redump, other):
    """what the caller does between the judged load and the second load (x['post'], drawn per case); returns the record of L0
    taken before anything was touched and the labels of what was done"""
    fp0 = _fingerprint(L0)
    labs = set()
    post = x['post'] if x is not None else ()
    if 'other' in post:
        other()
        labs.add('post_other')
    if 'sin' in post:
        led.forget(system)
        for v in list(dargs.kw.values()) + list(largs.kw.values()):
            led.forget(v)
        _scribble_system(system)
        dargs.scribble()
        largs.scribble()
        labs.add('post_in')
    if 'sout' in post:
        led.forget(L0)
        _scribble_system(L0, 7.0)
        if prop_info is not None:
            led.forget(prop_info)
            _scribble(prop_info)
        labs.add('post_out')
    if 'redump' in post and redump is not None:
        redump()
        labs.add('post_redump')
    return fp0, labs


def _storage_overflow(S, converted, text, what):
    """the listed finding in its blunt form: a float16 / float32 stored column divided by the unit in its storage dtype left
    the range of that dtype, the file holds inf / nan / an empty field (which shifts every later column)"""
    narrow = _narrow_unit_props(S, converted)
    if narrow and (' \n' in text or '  ' in text or text.endswith(' ') or any(t in ('inf', '-inf', 'nan') for t in text.split())):
        raise Violation('%s: the file holds inf / nan / empty fields for the float16 / float32 stored column(s) %r written through a '
                        'unit conversion (unitconvert.get_in_units divides in the storage dtype)' % (what, narrow), key=K_STORAGE)


class _Known:
    """comparisons that may fail for a LISTED finding only (a float32 / float16 stored column written through a unit
    conversion): collected, the rest of the judge goes on, raised with the key at the end"""
    def __init__(self, S, converted):
        self.narrow = _narrow_unit_props(S, converted)
        self.S = S
        self.found = []

    def cmp(self, name, got, exp, tol, what):
        if name not in self.narrow:
            return cmp_values(name, got, exp, tol, what)
        try:
            cmp_values(name, got, exp, tol, what)
        except Violation as v:
            if v.key is not None:
                raise
            self.found.append(Violation('%s [the system stores %r as %s and the column is written through a unit conversion: '
                                        'unitconvert.get_in_units divides in the storage dtype]' % (v.detail, name, self.S['store'][name][0]),
                                        key=K_STORAGE))

    def defer(self, name, v):
        """a Violation v that hangs on the float32 / float16 stored column `name` (else it is raised as it is)"""
        if name not in self.narrow or v.key is not None:
            raise v
        self.found.append(Violation('%s [the system stores %r as %s and the column is written through a unit conversion: '
                                    'unitconvert.get_in_units divides in the storage dtype]' % (v.detail, name, self.S['store'][name][0]),
                                    key=K_STORAGE))

    def raise_if_found(self):
        if self.found:
            raise self.found[0]


def _other_snapshot(S):
    """another system for the 'other' post-op: the atoms of S in reverse order without the first one (one atom: the same atom
    elsewhere), float properties rescaled, integer properties shifted; consistent with every option drawn for S"""
    n = len(S['s'])
    idx = np.arange(n)[::-1][:max(1, n - 1)]
    S2 = dict(S)
    S2.pop('raw', None)
    s = S['s'][idx] * 0.75 + 0.125
    S2['s'], S2['pos'], S2['atype'] = s, s @ S['V'] + S['o'], S['atype'][idx]
    props = {}
    for k, v in S['props'].items():
        v = v[idx]
        if k == 'atom_id':
            props[k] = v
        elif v.dtype.kind == 'f':
            props[k] = v * 0.5
        else:
            props[k] = v
    S2['props'] = props
    if S2.get('store'):
        S2['store'] = {k: [dt if dt[-2:] not in ('f4', 'f2') else 'f8', 'copy' if lay == 'readonly' else lay] for k, (dt, lay) in S2['store'].items()}
    return S2


def _narrow_unit_props(S, converted):
    """names among `converted` (properties written with a unit conversion) that the system stores as float32 / float16"""
    st_ = S.get('store') or {}
    return [k for k in converted if k in st_ and st_[k][0][-2:] in ('f4', 'f2')]


# ============================================================================= data file

@st.composite
def data_cases(draw):
    style = draw(G.atom_styles())
    units = draw(st.sampled_from(G.UNIT_STYLES))
    if not G.style_allowed(style, units):
        units = 'metal'
    fmt = draw(st.sampled_from(G.FORMATS[units]))
    cols, vcols = G.style_props(style)
    vel = draw(st.integers(0, 2)) > 0
    want = list(cols)
    if vel:
        want += [('velocity', (3,), 'f', 'velocity')] + list(vcols)
    sysd = draw(G.systems_for(True, tuple(want), (0, 1), False))
    case = {'sys': sysd,
            'opt': {'style': style, 'units': units, 'fmt': fmt, 'safecopy': draw(_bool), 'target': draw(TARGETS),
                    'give_style': draw(_bool)},
            'pert': {'keys': draw(_keys12), 'keys2': draw(_keys12), 'shuffle': draw(_bool), 'comments': draw(_bool),
                     'blank': draw(_bool), 'title': draw(_bool), 'source': draw(SOURCES)},
            'units': draw(G.S_PLAN)}
    return _with_x(case, draw(G.S_X), True)


def _with_x(case, x, lammps, posdec_ok=False):
    """the round-5 classes are drawn LAST (the draws of the earlier rounds keep their places) and put into the case"""
    case['sys'] = G.apply_x(case['sys'], x, lammps, posdec_ok)
    case['x'] = _xo(x)
    return case


def _xo(x):
    """the part of the drawn classes that the oracle interprets (the rest is already in the system dict)"""
    return {'store': x['store'], 'dt': x['dt'], 'post': x['post']}


X_PLAIN = _xo(G.X_NONE)


def _section_rows(lines, keyword, n):
    for i, l in enumerate(lines):
        t = l.split('#')[0].split()
        if len(t) == 1 and t[0] == keyword:
            j = i + 1
            while j < len(lines) and not lines[j].strip():
                j += 1
            return i, j, j + n
    return None


def perturb_data(text, n, pert):
    """the same file with atom lines reordered, trailing comments, extra blank header lines, a title"""
    lines = text.split('\n')
    a = _section_rows(lines, 'Atoms', n)
    v = _section_rows(lines, 'Velocities', n)
    iA, a0, a1 = a
    if pert['shuffle']:
        rows = lines[a0:a1]
        lines[a0:a1] = [rows[k] for k in _perm(pert['keys'], n)]
        if v is not None:
            rows = lines[v[1]:v[2]]
            lines[v[1]:v[2]] = [rows[k] for k in _perm(pert['keys2'], n)]
    if pert['comments']:
        for k in range(a0, a1):
            lines[k] = lines[k] + ' # atom %d of Al' % k
    head = lines[:iA]
    newhead = []
    for k, l in enumerate(head):
        if k == 0:
            newhead.append('LAMMPS data file, round trip' if pert['title'] else l)
            if pert['comments']:
                newhead.append('# written for the round trip check')
            continue
        if l.strip() and pert['comments']:
            l = l + '  # c%d' % k
        newhead.append(l)
        if pert['blank'] and l.strip():
            newhead.append('')
            if k % 2:
                newhead.append('   ')
    out = newhead + lines[iA:]
    if pert['blank']:
        out = out + ['', '']
    return '\n'.join(out)


def data_tolerances(S, fmt, Ulen):
    """per-component tolerances for cell and positions of a data file (see module docstring)"""
    V, o, s = S['V'], S['o'], S['s']
    K = np.maximum(1.0, np.abs(s).max(axis=0)) + 1.0
    B = np.abs(o) + (K[:, None] * np.abs(V)).sum(axis=0)          # magnitude bound of anything printed, per component
    d = tol_for(fmt, Ulen, B)
    pbc = np.array(S['pbc'])
    # Box zeroes components up to 1e-9 of the LARGEST one (documented): the wrap stretches non-periodic directions over the
    # atoms, so the largest component of the written cell can be that much larger than the one of the snapshot
    stretch = max([1.0] + [max(1.0, s[:, i].max()) - min(0.0, s[:, i].min()) + 0.002 for i in range(3) if not pbc[i]])
    floor = 2e-9 * np.abs(V).max() * stretch
    F = np.where(pbc, np.abs(np.floor(s)).max(axis=0) + 1.0, 0.0)
    return dict(d=d, tV=2 * d + floor, to=d + floor, tpos=d * (1 + 2 * F.sum()) + floor * (1 + F.sum()), stretch=stretch)


def check_wrapped_cell(loaded, S, T, what):
    """cell after the documented wrap: periodic directions and directions that already contain every atom are
    unchanged; other non-periodic directions are stretched along themselves so that they contain all atoms"""
    V, o, s = S['V'], S['o'], S['s']
    Vl, ol = np.asarray(loaded.box.vects, dtype=float), np.asarray(loaded.box.origin, dtype=float)
    invV = np.linalg.inv(V)
    cond = np.linalg.cond(V)
    m = (ol - o) @ invV
    tm = 2 * (np.abs(invV) * (T['to'] + T['tV'])[:, None]).sum(axis=0) + 1e-12 * cond
    smin, smax = _relbounds(S)
    band = 1e-9 * cond
    labs = set()
    for i in range(3):
        # is there a factor k with |Vl_i - k V_i| <= tV in every component?  (interval intersection)
        klo, khi = -np.inf, np.inf
        for c in range(3):
            t = T['tV'][c] * 1.01
            if abs(V[i, c]) <= t:
                # a component below the printed precision stays one: at most stretched with its vector (non-periodic direction)
                require(abs(Vl[i, c]) <= t * 2 + abs(V[i, c]) * max(2.0, T.get('stretch', 1.0) + 1.0),
                        lambda: '%s: box vector %d changed direction: %r -> %r' % (what, i, V[i], Vl[i]))
                continue
            a, b = (Vl[i, c] - t * 2) / V[i, c], (Vl[i, c] + t * 2) / V[i, c]
            klo, khi = max(klo, min(a, b)), min(khi, max(a, b))
        require(klo <= khi, lambda: '%s: box vector %d changed direction: %r -> %r (no common factor within the printed precision)'
                % (what, i, V[i], Vl[i]))
        # tighter interval for the unchanged case (factor 1 must fit the plain tolerance)
        inside = smin[i] > band and smax[i] < 1 - band
        if S['pbc'][i] or inside:
            err = np.abs(Vl[i] - V[i])
            require((err <= T['tV']).all() and abs(m[i]) <= tm[i],
                    lambda: '%s: box vector %d (%s) not reproduced: %r -> %r (tol %r), origin moved by %.3g of it (tol %.3g)'
                    % (what, i, 'periodic' if S['pbc'][i] else 'contains all atoms', V[i], Vl[i], T['tV'], m[i], tm[i]))
        else:
            labs.add('extended')
            lo, hi = min(0.0, smin[i]), max(1.0, smax[i])
            require(khi >= 1 - 1e-9 and m[i] <= lo + tm[i] and m[i] + khi >= hi - tm[i],
                    lambda: '%s: non-periodic direction %d spans [%.9g, %.9g] of the old vector, atoms/old cell span [%.9g, %.9g]'
                    % (what, i, m[i], m[i] + khi, lo, hi))
    return labs


def oracle_data(case):
    return _with_units(case, _run_data)


def _run_data(am, case, ux, led=None):
    sysd = case['sys']
    x = case.get('x') or X_PLAIN
    S = G.snapshot(sysd)
    if ux is not None:
        S = G.physical(S)
    # read-only positions and an in-place wrap (safecopy=False) contradict each other: the caller's mistake, not generated
    S = G.stored(S, x['store'], readonly=bool(case['opt']['safecopy']))
    tmp = _Tmp()
    try:
        return judge_data(am, G.make_system(am, S), S, case['opt'], case['pert'], tmp, cell_labels(S, sysd), ux, led, x)
    finally:
        tmp.close()


def judge_data(am, system, S, opt, pert, tmp, labels, ux=None, led=None, x=None):
    """one dump('atom_data') of `system` (whose state is the snapshot S) + load, judged against S"""
    n = len(S['s'])
    led = led if led is not None else _Ledger()
    style, units, fmt = opt['style'], opt['units'], opt['fmt']
    if units == 'lj':
        fmt = _wfmt(fmt)
    labels.update({'style_' + style.split()[0], 'units_' + units, 'fmt_' + fmt[-1], 'src_' + pert['source']})
    cols, vcols = G.style_props(style)
    carried = list(cols)
    if 'velocity' in S['props']:
        carried += [('velocity', (3,), 'f', 'velocity')] + list(vcols)
        labels.add('velocities')
    subs = style.split()[1:] if style.startswith('hybrid') else [style]
    if True:
        dargs = _Args(dict(atom_style=style, units=units, float_format=fmt, safecopy=opt['safecopy']))
        before = _fingerprint(system)
        try:
            text, rest = _dump(system, 'atom_data', opt['target'], tmp, **dargs.kw)
        except KeyError as e:
            if e.args == ('volume',) and any(x_ in G.VOLUME_STYLES for x_ in subs):
                raise Violation("dump('atom_data', atom_style=%r) raises KeyError('volume'): lammps.style.unit() has no "
                                "volume entry" % style, key=K_VOLUME) from None
            if e.args == ('None',) and units == 'lj' and 'velocity' in S['props'] and any(x_ in ('sphere', 'ellipsoid') for x_ in subs):
                raise Violation("dump('atom_data', atom_style=%r, units='lj') with velocities raises KeyError('None'): the lj "
                                "'ang-mom'/'ang-vel' units are the strings 'None*None*None' and '1/None'" % style, key=K_LJ_ANG) from None
            raise
        whatd = "dump('atom_data', atom_style=%r, units=%r, float_format=%r, safecopy=%r)" % (style, units, fmt, opt['safecopy'])
        _after_dump(dargs, before, system, whatd, wrapped=not opt['safecopy'])
        if opt['safecopy']:
            led.add_input(system, whatd)
        if units != 'lj':
            _storage_overflow(S, ['pos'] + [c[0] for c in carried if c[3] is not None], text, whatd)
        S0 = S
        if ux is not None:
            # a data file names no unit, but `units` fixes the unit of every dimensional column (lj: none at all)
            S = ux.switch(S, units != 'lj', {})
        kw = dict(pbc=list(S['pbc']), units=units)
        if S['symbols'] is not None:
            kw['symbols'] = list(S['symbols'])
        if opt['give_style']:
            kw['atom_style'] = style
        largs = _Args(kw)
        L0 = _load(am, 'atom_data', text, **kw)
        what = "load('atom_data') of dump(atom_style=%r, units=%r, float_format=%r)" % (style, units, fmt)
        largs.check(what)
        led.add_system(L0, what)
        require(L0.natoms == n, lambda: '%s: natoms %d, expected %d' % (what, L0.natoms, n))
        def U(q):
            # hybrid styles have been seen to write their columns in metal units whatever `units` is (C07's finding):
            # the printed precision of such a file is that of the coarser of the two units
            u = unit_scale(am, units, q)
            return max(u, unit_scale(am, 'metal', q)) if style.startswith('hybrid') and units != 'lj' else u
        Ulen = U('length')
        T = data_tolerances(S, fmt, Ulen)
        if (S.get('store') or {}).get('pos', ('f8',))[0] == 'f4':
            # positions kept as float32: the wrap (System.wrap, documented to act on the system / its copy) stores the wrapped
            # coordinates in that array, i.e. rounds them to float32 - the precision the caller chose for the positions
            K = np.maximum(1.0, np.abs(S['s']).max(axis=0)) + 1.0
            T['tpos'] = T['tpos'] + 2.0 ** -23 * (np.abs(S['o']) + (K[:, None] * np.abs(S['V'])).sum(axis=0))
            labels.add('wrap_in_float32')
        known = _Known(S, ['pos'] + [c[0] for c in carried if c[3] is not None] if units != 'lj' else [])
        try:
            labels |= check_wrapped_cell(L0, S, T, what)
        except Violation as v:
            known.defer('pos', v)               # float32 positions: the written coordinates decide the extension of the cell
        require(list(L0.pbc) == list(S['pbc']), lambda: '%s: pbc %r, passed %r' % (what, L0.pbc, S['pbc']))
        check_symbols_passthrough(L0, S, what)
        have = L0.atoms_prop()
        for name in ['atype', 'pos'] + [c[0] for c in carried]:
            require(name in have, lambda: '%s: property %r missing (have %r)' % (what, name, have))
        cmp_values('atype', L0.atoms.atype, S['atype'], 0, what)
        known.cmp('pos', L0.atoms.pos, S['pos'], T['tpos'], what + ' [image flags re-applied]')
        for name, shape, dt, q in carried:
            exp = S['props'][name]
            known.cmp(name, L0.atoms.view[name], exp, tol_for(fmt, U(q), exp), what)
        # ---- what the caller does in between (round 5): another system through the same calls, the arguments and the system
        # that was written overwritten in place, the loaded System overwritten, the same system written again
        def other():
            S2 = _other_snapshot(S)
            judge_data(am, G.make_system(am, S2), S2, opt, pert, tmp, set(), None, led, None)

        def redump():
            t2, _ = _dump(G.make_system(am, S0), 'atom_data', opt['target'], tmp, **dargs.fresh())
            require(t2 == text, lambda: '%s of an identical fresh system a second time gives another text:\n%s\nfirst:\n%s' % (whatd, t2, text))
        fp0, plabs = _post_ops(x, led, system, L0, None, dargs, largs, None if ux is not None and ux.crossed else redump, other)
        labels |= plabs
        kw = largs.fresh()
        # ---- perturbed text, other source: identical result
        s = S['s']
        # image-flag columns present?  (decided from the column count of the first atom line against the style table)
        lines = text.split('\n')
        iA, a0, a1 = _section_rows(lines, 'Atoms', n)
        ncols = 5 + sum(int(np.prod(c[1])) if c[1] else 1 for c in cols)
        ntok = len(lines[a0].split())
        require(ntok in (ncols, ncols + 3), lambda: '%s: atom lines have %d columns, style has %d (+3)' % (what, ntok, ncols))
        flagged = ntok == ncols + 3
        perm_moves = pert['shuffle'] and _perm(pert['keys'], n) != list(range(n))
        text2 = perturb_data(text, n, pert)
        src = tmp.source(pert['source'], text2)
        stream = pert['source'] in ('bytesio', 'file')
        what2 = what + ' after %s, given as %s' % (
            '+'.join(k for k in ('shuffle', 'comments', 'blank', 'title') if pert[k]) or 'no change', pert['source'])
        try:
            L1 = _load(am, 'atom_data', src, **kw)
        except Violation:
            raise
        except Exception as e:
            if stream and _stream_eof(e):
                raise Violation('%s raises %s: %s' % (what2, type(e).__name__, str(e)[:200]), key=K_STREAM) from None
            raise
        led.add_system(L1, what2)
        same_as_record(fp0, L1, what2, skip=('pos',))
        p0, p1 = _fp_array(fp0, 'pos'), np.asarray(L1.atoms.pos)
        if not (p0.dtype == p1.dtype and np.array_equal(p0, p1)):
            key = None
            if flagged and perm_moves:
                # diagnosis of the listed finding: the difference is a whole lattice translation per atom
                m = (p1 - p0) @ np.linalg.inv(fp0['vects'])
                if np.abs(m - np.round(m)).max() <= 1e-6 * max(1.0, np.abs(m).max()):
                    key = K_FLAGS
            raise Violation('%s: positions differ from those of the pristine text:\n%r\nvs\n%r' % (what2, p1.tolist(), p0.tolist()), key=key)
        known.raise_if_found()
        if perm_moves:
            labels.add('shuffled')
            if flagged:
                labels.add('shuffled_flags')
        if flagged:
            labels.add('imageflags')
        if pert['comments'] or pert['blank']:
            labels.add('comments_blank')
        if stream:
            labels.add('stream')
        if style.startswith('hybrid'):
            labels.add('hybrid')
        rank1 = any(len(c[1]) >= 1 for c in carried)
        if rank1:
            labels.add('rank1_carried')
        if (labels & {'tilted', 'origin'}) and 'outside' in labels and (style != 'atomic' or units != 'metal') and rank1:
            labels.add('nt')
        return labels


# ============================================================================= column descriptions

# explicit units offered for a quantity in the unit lists ('std' = the unit the LAMMPS unit style has for it)
UNIT_FAMILY = {'length': ('nm', 'angstrom', 'pm'), 'velocity': ('m/s', 'angstrom/ps'), 'force': ('eV/angstrom', 'nN'),
               'charge': ('e',), 'mass': ('amu', 'g/mol'), 'torque': ('eV', 'kcal/mol'), 'dipole': ('e*angstrom',),
               None: ('GPa', 'eV', 'mJ/m^2')}
_COLROUTES = G.column_routes(tuple(range(20)))
_u6 = st.integers(0, 5)


def _unit_token(draw, name, meta, std_ok):
    """unit entry of one property of the explicit lists: None ('no conversion'), 'std', a unit string or 'scaled'"""
    if name in ('spos', 'supos'):
        return 'scaled'
    k = draw(_u6)
    if name in ('pos', 'upos'):
        opts = [None, 'std', 'nm', 'angstrom', 'scaled' if name == 'pos' else 'pm', None]
        u = opts[k]
    elif meta is None or meta['dtype'] != 'f':
        return None
    else:
        fam = UNIT_FAMILY.get(meta['q'], UNIT_FAMILY[None])
        u = [None, None, 'std' if meta['q'] is not None else None, fam[0], fam[-1], None][k]
    if u == 'std' and not std_ok:
        u = None
    return u


def build_truth(am, S, names, unit_tokens, dtype_flags, lammps_units=None, dt_bytes=None):
    """truth entries (see gens_c08.describe) of the columns `names`; 'std' resolved to the unit string of the LAMMPS unit
    style (only ever passed on to both the writer and the loader, and used to scale the tolerance)"""
    truth = []
    for i, nm in enumerate(names):
        if nm in POSVARS:
            shape, dt = (3,), 'f'
        elif nm in ('atom_id', 'atype'):
            shape, dt = (), 'i'
        else:
            shape, dt = tuple(S['meta'][nm]['shape']), S['meta'][nm]['dtype']
        u = unit_tokens[i]
        if u == 'std':
            q = 'length' if nm in POSVARS else S['meta'][nm]['q']
            u = None if lammps_units is None else am.lammps.style.unit(lammps_units)[q]
        entry = {'name': nm, 'shape': shape, 'unit': u,
                 'dtype': ('int64' if dt == 'i' else 'float64') if dtype_flags[i % len(dtype_flags)] else None}
        if dt_bytes is not None:
            # round 5: the data type "explicitly given" in the other documented ways (narrow dtypes, dtype objects, types)
            vals = S['atype'] if nm == 'atype' else S['pos'] if nm in POSVARS else S['props'][nm] if nm in S['props'] else np.arange(1, len(S['s']) + 1)
            tok = G.dtype_token(dt_bytes[i % len(dt_bytes)], dt, float(np.min(vals)), float(np.max(vals)))
            if tok is not None and not (dt == 'f' and np.dtype(tok[1]).itemsize < 8 and not _f32_ok(vals)):
                entry['dtype'], entry['np'] = tok
        truth.append(entry)
    return truth


def _f32_ok(vals):
    """float32 can hold these numbers (in whatever unit they end up: 8 decades of head room on both sides)"""
    a = np.abs(np.asarray(vals, dtype=float))
    a = a[a > 0]
    return a.size == 0 or (a.min() > 1e-30 and a.max() < 1e30)


def unit_size(u):
    """size of an explicitly given unit in working units (tolerance scaling only)"""
    if u is None or u == 'scaled':
        return 1.0
    import atomman.unitconvert as uc
    return abs(float(uc.set_in_units(1.0, u)))


# ============================================================================= dump file

POSVARS = ('pos', 'spos', 'upos', 'supos')
_POSV = st.lists(st.sampled_from(POSVARS), min_size=1, max_size=2, unique=True)
_i4 = st.integers(0, 4)


def _dump_opt(draw, sysd, units):
    """options of one dump('atom_dump') + load: which columns, how they are described on either side"""
    names = [p['name'] for p in sysd['props'] if p['name'] != 'atom_id']
    mode = draw(st.sampled_from(['all', 'all', 'list', 'list', 'list']))
    prop_name = cols = None
    if mode == 'list':
        explicit = draw(_i4) >= 1
        meta = {p['name']: p for p in sysd['props']}
        pv = draw(_POSV)
        # with explicitly described columns the quantities that have a LAMMPS unit are always among them
        body = pv + [nm for nm in names if draw(_bool) or (explicit and meta[nm]['q'] is not None)]
        order = draw(_PERMS[len(body)])
        prop_name = (['atom_id'] if draw(st.integers(0, 3)) else []) + ['atype'] + [body[i] for i in order]
        if explicit:
            cols = draw(_COLROUTES)
            cols['units'] = [_unit_token(draw, nm, meta.get(nm), True) for nm in prop_name]
    return prop_name, cols


@st.composite
def dump_cases(draw):
    units = draw(st.sampled_from(G.UNIT_STYLES))
    fmt = draw(st.sampled_from(G.FORMATS[units]))
    k0 = draw(st.integers(0, len(G.DUMP_STD) - 1))
    nstd = draw(st.sampled_from([0, 1, 2, 3, 1, 2]))
    want = [G.DUMP_STD[(k0 + 3 * i) % len(G.DUMP_STD)] for i in range(nstd)]
    want = [w for i, w in enumerate(want) if w not in want[:i]]
    sysd = draw(G.systems_for(True, tuple(want), (0, 2), True, True))
    prop_name, cols = _dump_opt(draw, sysd, units)
    case = {'sys': sysd,
            'opt': {'units': units, 'fmt': fmt, 'target': draw(TARGETS), 'prop_name': prop_name,
                    'use_prop_info': draw(_bool), 'cols': cols},
            'pert': {'keys': draw(_keys12), 'shuffle': draw(_bool), 'source': draw(SOURCES)},
            'units': draw(G.S_PLAN)}
    return _with_x(case, draw(G.S_X), True, True)


def perturb_dump(text, n, pert):
    lines = text.split('\n')
    i0 = [i for i, l in enumerate(lines) if l.startswith('ITEM: ATOMS')][0] + 1
    rows = lines[i0:i0 + n]
    lines[i0:i0 + n] = [rows[k] for k in _perm(pert['keys'], n)]
    return '\n'.join(lines)


def oracle_dump(case):
    return _with_units(case, _run_dump)


def _run_dump(am, case, ux, led=None):
    sysd = case['sys']
    x = case.get('x') or X_PLAIN
    S = G.snapshot(sysd)
    if ux is not None:
        S = G.physical(S)
    S = G.stored(S, x['store'])
    tmp = _Tmp()
    try:
        return judge_dump(am, G.make_system(am, S), S, case['opt'], case['pert'], tmp, cell_labels(S, sysd), ux, led, x)
    finally:
        tmp.close()


def _rtol(r, exp):
    """tolerance of a value that the loader was told to round to float32 / float16 (r: relative rounding error of that
    dtype): relative in the normal range, the spacing of the subnormals below it, nothing asserted beyond the largest number"""
    if not r:
        return 0.0
    fi = np.finfo(np.float32 if r < 1e-6 else np.float16)
    a = np.abs(np.asarray(exp, dtype=float))
    return np.where(a > float(fi.max) * 0.99, np.inf, r * a + float(fi.smallest_subnormal))


def _told_dtypes(kw):
    """{property name: dtype} that the keyword arguments of a load state explicitly (lists route or prop_info dicts)"""
    out = {}
    if kw.get('prop_info') is not None:
        for d in kw['prop_info']:
            if d.get('dtype') is not None:
                out[d['prop_name']] = np.dtype(d['dtype'])
    elif kw.get('dtype') is not None and kw.get('prop_name') is not None:
        for nm, d in zip(kw['prop_name'], kw['dtype']):
            if d is not None:
                out[nm] = np.dtype(d)
    return out


def _check_told_dtype(L, name, told, key, what):
    """the data type "explicitly given" for a column is the data type of the loaded property (atype and pos exist in every
    Atoms object with types of their own: values are assigned into them, only the rounding shows); returns the extra
    tolerance factor (relative) of a result rounded to float32"""
    d = told.get(key)
    if d is None:
        return 0.0
    got = np.asarray(L.atoms.view[name]).dtype
    require(got == d or name in ('pos', 'atype'),
            lambda: '%s: property %r was loaded with the explicitly given dtype %r but has dtype %r' % (what, name, d, got))
    return 2.0 ** -24 * 1.0001 if d.kind == 'f' and d.itemsize == 4 else 2.0 ** -11 * 1.0001 if d.kind == 'f' and d.itemsize == 2 else 0.0


def _cross_eligible(S, truth):
    """(does the description `truth` name a unit for every dimensional float column?, {name: unit} of the declared-
    dimensionless float properties written in an explicit unit)"""
    ok, xunits = True, {}
    for e in truth:
        nm, u = e['name'], e['unit']
        if nm in POSVARS:
            ok = ok and u is not None
        elif nm in S['props'] and S['meta'][nm]['dtype'] == 'f':
            if S['meta'][nm]['q'] is not None:
                ok = ok and u is not None and u != 'scaled'
            elif u is not None and u != 'scaled':
                xunits[nm] = u
    return ok, xunits


def judge_dump(am, system, S, opt, pert, tmp, labels, ux=None, led=None, x=None):
    """one dump('atom_dump') of `system` (whose state is the snapshot S) + load, judged against S"""
    n = len(S['s'])
    led = led if led is not None else _Ledger()
    units, fmt = opt['units'], opt['fmt']
    if units == 'lj':
        fmt = _wfmt(fmt)
    labels.update({'units_' + units, 'fmt_' + fmt[-1], 'src_' + pert['source']})
    prop_name = opt['prop_name']
    cols = opt.get('cols') if prop_name is not None else None
    if True:
        kwd = dict(lammps_units=units, float_format=fmt, return_prop_info=True)
        truth = None
        if cols is not None:
            # the columns described explicitly: separate lists (whole lists left out, None entries) or prop_info dicts
            truth = build_truth(am, S, prop_name, cols['units'], cols['dtypes'], units, x['dt'] if x is not None else None)
            dkw, dl, id_named = G.describe('atom_dump', 'dump', cols['dvia'], truth, cols['dmask'], cols['dflav'])
            kwd.update(dkw)
            labels.add('dump_via_' + cols['dvia'])
            labels |= {'dump_' + x for x in dl}
        elif prop_name is not None:
            kwd['prop_name'] = list(prop_name)
        dargs = _Args(kwd)
        before = _fingerprint(system)
        try:
            text, rest = _dump(system, 'atom_dump', opt['target'], tmp, **kwd)
        except TypeError as e:
            if units == 'lj' and "unsupported operand type(s) for +: 'NoneType' and 'str'" in str(e):
                raise Violation("dump('atom_dump', lammps_units='lj') raises TypeError: %s (torque unit built from None)" % e, key=K_LJ_TORQUE) from None
            raise
        whatd = "dump('atom_dump', %s)" % ', '.join('%s=%r' % kv for kv in sorted(dargs.pristine.items()))
        _after_dump(dargs, before, system, whatd)
        led.add_input(system, whatd)
        prop_info = led.add_info(rest[0], whatd)
        pi0 = copy.deepcopy(prop_info)
        S0 = S
        _storage_overflow(S, [('pos' if pi['prop_name'] in POSVARS else pi['prop_name']) for pi in prop_info
                              if pi['unit'] is not None and pi['unit'] != 'scaled'], text, whatd)
        if ux is not None:
            # without explicit descriptions every standard quantity is carried in the unit of `lammps_units` (lj: none)
            ok, xunits = _cross_eligible(S, truth) if truth is not None else (True, {})
            S = ux.switch(S, ok and units != 'lj', xunits)
        written = list(prop_name) if prop_name is not None else (['atom_id', 'atype', 'pos'] + [k for k in S['props'] if k != 'atom_id'])
        nonstd_rank = any(len(S['meta'][k]['shape']) >= 1 and S['meta'][k]['q'] is None
                          for k in written if k in S['props'])
        kw = dict(lammps_units=units)
        if S['symbols'] is not None:
            kw['symbols'] = list(S['symbols'])
        if truth is not None:
            lvia = cols['lvia']
            use_pi = True               # every route of this branch tells the loader shapes and units
            if lvia == 'returned':
                kw['prop_info'] = prop_info
                how = ', prop_info=<returned>'
            else:
                lkw, ll, id_named = G.describe('atom_dump', 'load', lvia, truth, cols['lmask'], cols['lflav'])
                kw.update(lkw)
                labels |= {'load_' + x for x in ll}
                how = ', ' + ', '.join('%s=%r' % kv for kv in sorted(lkw.items()))
            labels.add('load_via_' + lvia)
            labels.add('explicit_columns')
            if lvia != 'returned' and any(e['unit'] is None and e['name'] in S['props'] and S['meta'][e['name']]['dtype'] == 'f'
                                          and S['meta'][e['name']]['q'] is not None
                                          and unit_scale(am, units, S['meta'][e['name']]['q']) != 1.0 for e in truth):
                labels.add('none_unit_std_prop')     # a None unit for a quantity whose LAMMPS unit is not the working unit
            if any(e['dtype'] is not None for e in truth):
                labels.add('explicit_dtype')
            what = "load('atom_dump'%s) of dump(lammps_units=%r, float_format=%r, %s)" % (
                how, units, fmt, ', '.join('%s=%r' % kv for kv in sorted(kwd.items()) if kv[0] in (
                    'prop_name', 'table_name', 'shape', 'unit', 'dtype', 'prop_info')))
        else:
            use_pi = bool(opt['use_prop_info'] or nonstd_rank)
            if use_pi:
                kw['prop_info'] = prop_info
            what = "load('atom_dump'%s) of dump(lammps_units=%r, float_format=%r, prop_name=%r)" % (
                ', prop_info=<returned>' if use_pi else '', units, fmt, prop_name)
        if 'prop_info' in kw and (truth is None or cols['lvia'] == 'returned'):
            labels.add('with_prop_info')
        largs = _Args(kw)
        L0 = _load(am, 'atom_dump', text, **kw)
        largs.check(what)
        led.add_system(L0, what)
        told = _told_dtypes(kw)
        require(L0.natoms == n, lambda: '%s: natoms %d, expected %d' % (what, L0.natoms, n))
        # ---- cell and pbc
        V, o, s = S['V'], S['o'], S['s']
        Ulen = unit_scale(am, units, 'length')
        B = np.abs(o) + np.abs(V).sum(axis=0) * 2
        d = tol_for(fmt, Ulen, B)
        floor = 2e-9 * np.abs(V).max()
        tV, to = 4 * d + floor, 3 * d + floor
        Vl, ol = np.asarray(L0.box.vects, dtype=float), np.asarray(L0.box.origin, dtype=float)
        require((np.abs(Vl - V) <= tV[None, :]).all(), lambda: '%s: box vectors\n%r\nexpected\n%r (tol %r)' % (what, Vl, V, tV))
        require((np.abs(ol - o) <= to).all(), lambda: '%s: origin %r expected %r (tol %r)' % (what, ol, o, to))
        require([bool(b) for b in L0.pbc] == list(S['pbc']), lambda: '%s: pbc %r, written %r' % (what, list(L0.pbc), S['pbc']))
        check_symbols_passthrough(L0, S, what)
        # ---- order: ids present (an 'id' column) -> sorted by id
        has_id = 'atom_id' in written
        id_known = has_id and (truth is None or id_named)
        if id_known and 'atom_id' in S['props']:
            order = np.argsort(S['props']['atom_id'], kind='stable')
            labels.add('own_ids')
        else:
            order = np.arange(n)
        ids = S['props']['atom_id'][order] if 'atom_id' in S['props'] else np.arange(1, n + 1)
        have = L0.atoms_prop()
        if has_id:
            require('atom_id' in have, lambda: '%s: atom_id missing (have %r)' % (what, have))
            cmp_values('atom_id', L0.atoms.view['atom_id'], ids, 0, what)
            _check_told_dtype(L0, 'atom_id', told, 'atom_id', what)
        cmp_values('atype', L0.atoms.atype, S['atype'][order], 0, what)
        # ---- positions
        posvars = [k for k in written if k in POSVARS]
        firstpos = posvars[0]
        labels.add('first_' + firstpos)
        tunit = {e['name']: e['unit'] for e in truth} if truth is not None else {}
        # columns written through a unit conversion (for the listed finding on float32 / float16 stored columns)
        if truth is not None:
            conv = [('pos' if e['name'] in POSVARS else e['name']) for e in truth if e['unit'] is not None and e['unit'] != 'scaled']
        else:
            conv = (['pos'] + [k for k in written if k in S['props'] and S['meta'][k]['q'] is not None]) if units != 'lj' else []
        known = _Known(S, conv)
        # the reader keeps ONE of the position columns as pos: its dtype is checked when there is only one
        r32 = 0.0
        if len(posvars) == 1:
            r32 = _check_told_dtype(L0, 'pos', told, posvars[0], what)
        elif any(k in told and told[k].kind == 'f' and told[k].itemsize < 8 for k in posvars):
            r32 = 2.0 ** -11 * 1.0001
        if told:
            labels.add('told_dtype')
            if any(d.itemsize < 8 for d in told.values()):
                labels.add('told_narrow_dtype')
        # the reader may take the positions from any of the position columns present: widest of their tolerances
        tpos = np.zeros_like(S['pos'])
        scaled_cols = False
        for k in posvars:
            if truth is not None:
                if tunit[k] == 'scaled':
                    scaled_cols = True
                else:
                    tpos = np.maximum(tpos, tol_for(fmt, unit_size(tunit[k]), S['pos']))
            elif k in ('pos', 'upos'):
                tpos = np.maximum(tpos, tol_for(fmt, Ulen, S['pos']))
            else:
                scaled_cols = True
        if scaled_cols:
            r_s, r_x = scaled_roundoff(S)
            ds = tol_for(fmt, 1.0, s) + r_s
            # relative coordinates are unscaled with the cell read from the file (loaded box: V +- tV, o +- to)
            tpos = np.maximum(tpos, ds @ np.abs(V) + np.abs(s) @ np.broadcast_to(tV, (3, 3)) + to + r_x)
            labels.add('scaled_cols')
        tpos = tpos + _rtol(r32, S['pos'])
        try:
            cmp_values('pos', L0.atoms.pos, S['pos'][order], tpos[order], what)
        except Violation as v:
            lost = [pi['prop_name'] for pi in prop_info if pi['prop_name'] in ('spos', 'supos') and pi['unit'] is None]
            if use_pi and scaled_cols and lost and 'prop_info' in kw and kw['prop_info'] is prop_info:
                raise Violation(v.detail + ' [returned prop_info has unit None for the scaled columns %r]' % lost, key=K_SCALED) from None
            if truth is not None and tunit.get('pos') == 'scaled' and tunit.get('upos', 'scaled') != 'scaled':
                # listed finding: the writer fills the xu yu zu columns from the pos columns AFTER those were scaled
                raise Violation(v.detail + " [pos written with unit 'scaled' next to upos columns, which then hold "
                                "box-relative values although their unit says Cartesian]", key=K_UPOS) from None
            known.defer('pos', v)
        # ---- other properties
        for k in written:
            if k in POSVARS or k in ('atom_id', 'atype'):
                continue
            meta = S['meta'][k]
            exp = S['props'][k][order]
            if use_pi or (len(meta['shape']) == 0) or meta['q'] is not None:
                require(k in have, lambda: '%s: property %r missing (have %r)' % (what, k, have))
                U = unit_size(tunit[k]) if truth is not None else unit_scale(am, units, meta['q'])
                r = _check_told_dtype(L0, k, told, k, what)
                known.cmp(k, L0.atoms.view[k], exp, tol_for(fmt, U, exp) + _rtol(r, exp), what)
        # ---- what the caller does in between (round 5)
        def other():
            S2 = _other_snapshot(S)
            judge_dump(am, G.make_system(am, S2), S2, opt, pert, tmp, set(), None, led, None if x is None else dict(x, post=[]))

        def redump():
            t2, r2 = _dump(G.make_system(am, S0), 'atom_dump', opt['target'], tmp, **dargs.fresh())
            require(t2 == text, lambda: '%s of an identical fresh system a second time gives another text:\n%s\nfirst:\n%s' % (whatd, t2, text))
            require(_same_tree(r2[0], pi0), lambda: '%s a second time returns another prop_info: %r, first %r' % (whatd, r2[0], pi0))
            led.add_info(r2[0], whatd + ' (second time)')
        own_pi = kw.get('prop_info') is prop_info
        fp0, plabs = _post_ops(x, led, system, L0, prop_info, dargs, largs, None if ux is not None and ux.crossed else redump, other)
        labels |= plabs
        kw = largs.fresh()
        if own_pi:
            kw['prop_info'] = copy.deepcopy(pi0)
        # ---- perturbed / other source
        perm_moves = id_known and pert['shuffle'] and _perm(pert['keys'], n) != list(range(n))
        text2 = perturb_dump(text, n, pert) if perm_moves else text
        stream = pert['source'] in ('bytesio', 'file')
        src = tmp.source(pert['source'], text2)
        what2 = what + ' after %s, given as %s' % ('shuffle' if perm_moves else 'no change', pert['source'])
        try:
            L1 = _load(am, 'atom_dump', src, **kw)
        except Violation:
            raise
        except Exception as e:
            if stream and _stream_eof(e):
                raise Violation('%s raises %s: %s' % (what2, type(e).__name__, str(e)[:200]), key=K_STREAM) from None
            raise
        led.add_system(L1, what2)
        same_as_record(fp0, L1, what2)
        known.raise_if_found()
        if perm_moves:
            labels.add('shuffled')
        if stream:
            labels.add('stream')
        rank1 = any(len(S['meta'][k]['shape']) >= 1 for k in written if k in S['props'])
        if rank1:
            labels.add('rank1_carried')
        labels |= shape_labels(S, written, use_pi)
        if (labels & {'tilted', 'origin'}) and 'outside' in labels and (units != 'metal' or firstpos != 'pos') and rank1:
            labels.add('nt')
        return labels


# ============================================================================= table

TABLE_UNITS = {'length': ('nm', 'angstrom', 'pm'), 'velocity': ('m/s', 'angstrom/ps'), 'force': ('eV/angstrom', 'nN'),
               None: ('GPa', 'eV', 'mJ/m^2')}


def _table_opt(draw, sysd):
    """options of one dump('table') + load: which columns in which units, how they are described on either side"""
    names = ['atype', 'pos'] + [p['name'] for p in sysd['props']]
    mode = draw(st.sampled_from(['all', 'list', 'list']))
    entries = cols = None
    if mode == 'list':
        chosen = [nm for nm in names if nm in ('pos', 'atom_id') or draw(st.integers(0, 3))]
        order = draw(_PERMS[len(chosen)])
        entries = []
        for i in order:
            nm = chosen[i]
            unit = None
            meta = next((p for p in sysd['props'] if p['name'] == nm), None)
            if nm == 'pos':
                unit = draw(st.sampled_from([None, 'scaled', 'scaled', 'nm', 'angstrom']))
            elif meta is not None and meta['dtype'] == 'f' and draw(_bool):
                fam = TABLE_UNITS.get(meta['q'], TABLE_UNITS[None])
                unit = fam[draw(st.integers(0, len(fam) - 1))]
            entries.append({'name': nm, 'unit': unit, 'as_id': nm == 'atom_id'})
        if draw(_i4) >= 1:
            cols = draw(_COLROUTES)
    return entries, cols


@st.composite
def table_cases(draw):
    want = []
    if draw(_bool):
        want.append(('velocity', (3,), 'f', 'velocity'))
    sysd = draw(G.systems_for(False, tuple(want), (1, 3), True, True))
    entries, cols = _table_opt(draw, sysd)
    case = {'sys': sysd,
            'opt': {'entries': entries, 'fmt': draw(st.sampled_from(['%.13f', '%.8f', '%.5e', '%.16e'])),
                    'header': draw(_bool), 'target': draw(TARGETS), 'cols': cols},
            'pert': {'keys': draw(_keys12), 'shuffle': draw(_bool), 'comments': draw(_bool), 'blank': draw(_bool),
                     'source': draw(SOURCES)},
            'units': draw(G.S_PLAN)}
    return _with_x(case, draw(G.S_X), False, True)


def perturb_table(text, n, pert, header, can_shuffle):
    lines = text.split('\n')
    i0 = 1 if header else 0
    rows = lines[i0:i0 + n]
    if can_shuffle and pert['shuffle']:
        rows = [rows[k] for k in _perm(pert['keys'], n)]
    out = lines[:i0]
    for k, r in enumerate(rows):
        if pert['comments']:
            r = r + ' # row %d' % k
        out.append(r)
        if pert['blank'] and k % 2 == 0:
            out.append('')
    return '\n'.join(out + lines[i0 + n:])


def oracle_table(case):
    return _with_units(case, _run_table)


def _run_table(am, case, ux, led=None):
    sysd = case['sys']
    x = case.get('x') or X_PLAIN
    S = G.snapshot(sysd)
    if ux is not None:
        S = G.physical(S)
    S = G.stored(S, x['store'])
    tmp = _Tmp()
    try:
        return judge_table(am, G.make_system(am, S), S, case['opt'], case['pert'], tmp, cell_labels(S, sysd), ux, led, x)
    finally:
        tmp.close()


def judge_table(am, system, S, opt, pert, tmp, labels, ux=None, led=None, x=None):
    """one dump('table') of `system` (whose state is the snapshot S) + load, judged against S"""
    import atomman.unitconvert as uc
    n = len(S['s'])
    led = led if led is not None else _Ledger()
    fmt = _wfmt(opt['fmt'])
    labels.update({'fmt_' + fmt[-1], 'src_' + pert['source']})
    if True:
        kwd = dict(float_format=fmt, header=bool(opt['header']), return_prop_info=True)
        entries = opt['entries']
        cols = opt.get('cols') if entries is not None else None
        units = {}
        truth = None
        if cols is not None:
            # the columns described explicitly: separate lists (whole lists left out, None entries) or prop_info dicts
            truth = build_truth(am, S, [e['name'] for e in entries], [e['unit'] for e in entries], cols['dtypes'], None,
                                x['dt'] if x is not None else None)
            dkw, dl, id_named = G.describe('table', 'dump', cols['dvia'], truth, cols['dmask'], cols['dflav'])
            kwd.update(dkw)
            labels.add('dump_via_' + cols['dvia'])
            labels |= {'dump_' + x for x in dl}
            units = {e['name']: e['unit'] for e in entries}
            written = [e['name'] for e in entries]
        elif entries is not None:
            kwd['prop_name'] = [e['name'] for e in entries]
            kwd['unit'] = [e['unit'] for e in entries]
            units = {e['name']: e['unit'] for e in entries}
            if any(e['as_id'] for e in entries):
                # the id column: shape () property written under the column name 'id'
                kwd['table_name'] = [['id'] if e['as_id'] else None for e in entries]
                kwd['table_name'] = [tn if tn is not None else _default_names(e['name'], S) for tn, e in zip(kwd['table_name'], entries)]
                kwd['shape'] = [_shape_of(e['name'], S) for e in entries]
            written = [e['name'] for e in entries]
        else:
            written = ['atype', 'pos'] + list(S['props'])
        dargs = _Args(kwd)
        before = _fingerprint(system)
        text, rest = _dump(system, 'table', opt['target'], tmp, **kwd)
        whatd = "dump('table', %s)" % ', '.join('%s=%r' % kv for kv in sorted(dargs.pristine.items()))
        _after_dump(dargs, before, system, whatd)
        led.add_input(system, whatd)
        prop_info = led.add_info(rest[0], whatd)
        pi0 = copy.deepcopy(prop_info)
        S0 = S
        _storage_overflow(S, [k for k, u in units.items() if u not in (None, 'scaled')], text, whatd)
        if ux is not None and entries is not None:
            # a table whose dimensional columns all carry an explicit unit (or are box-relative) holds the physical system
            ok, xunits = _cross_eligible(S, [{'name': e['name'], 'unit': e['unit']} for e in entries])
            S = ux.switch(S, ok, xunits)
        box = am.Box(vects=S['V'].copy(), origin=S['o'].copy())
        kw = dict(box=box)
        if truth is not None and cols['lvia'] != 'returned':
            lkw, ll, id_named = G.describe('table', 'load', cols['lvia'], truth, cols['lmask'], cols['lflav'])
            kw.update(lkw)
            labels |= {'load_' + x for x in ll}
            how = ', '.join('%s=%r' % kv for kv in sorted(lkw.items()))
        else:
            kw['prop_info'] = prop_info
            how = 'prop_info=<returned>'
        if truth is not None:
            labels.add('load_via_' + cols['lvia'])
            labels.add('explicit_columns')
            if any(e['dtype'] is not None for e in truth):
                labels.add('explicit_dtype')
            if cols['lvia'] != 'returned' and any(e['unit'] is None for e in truth) and any(e['unit'] is not None for e in truth):
                labels.add('mixed_none_units')
        if opt['header']:
            kw['header'] = 0
            labels.add('header')
        if S['symbols'] is not None:
            kw['symbols'] = list(S['symbols'])
        what = "load('table', %s) of dump('table', %s, float_format=%r, header=%r)" % (
            how, ', '.join('%s=%r' % kv for kv in sorted(kwd.items()) if kv[0] in (
                'prop_name', 'table_name', 'shape', 'unit', 'dtype', 'prop_info')) or 'all properties', fmt, opt['header'])
        largs = _Args(kw)
        box0 = (np.array(box.vects), np.array(box.origin))
        L0 = _load(am, 'table', text, **kw)
        largs.check(what)
        led.add_system(L0, what)
        told = _told_dtypes(kw)
        if told:
            labels.add('told_dtype')
            if any(d.itemsize < 8 for d in told.values()):
                labels.add('told_narrow_dtype')
        require(L0.natoms == n, lambda: '%s: natoms %d, expected %d' % (what, L0.natoms, n))
        require(np.array_equal(L0.box.vects, box.vects) and np.array_equal(L0.box.origin, box.origin),
                lambda: '%s: the box passed to load was changed' % what)
        require(np.array_equal(box.vects, box0[0]) and np.array_equal(box.origin, box0[1]),
                lambda: '%s: the box passed to load was changed: %r %r' % (what, box.vects, box.origin))
        check_symbols_passthrough(L0, S, what)
        id_col = entries is not None and any(e['as_id'] for e in entries) and (truth is None or id_named)
        order = np.argsort(S['props']['atom_id'], kind='stable') if id_col else np.arange(n)
        have = L0.atoms_prop()
        V, o, s = S['V'], S['o'], S['s']
        conv = False
        known = _Known(S, [k for k in written if units.get(k) not in (None, 'scaled')])
        for k in written:
            exp = (S['atype'] if k == 'atype' else S['pos'] if k == 'pos' else S['props'][k])[order]
            require(k in have, lambda: '%s: property %r missing (have %r)' % (what, k, have))
            r = _check_told_dtype(L0, k, told, k, what) if k != 'atype' else 0.0     # Atoms keeps its own integer type for atype
            u = units.get(k)
            if u == 'scaled':
                conv = True
                labels.add('scaled')
                r_s, r_x = scaled_roundoff(S)
                ds = tol_for(fmt, 1.0, s) + r_s
                tol = (ds @ np.abs(V) + r_x)[order] + _rtol(r, exp)
                try:
                    cmp_values(k, L0.atoms.view[k], exp, tol, what)
                except Violation as v:
                    lost = [pi['prop_name'] for pi in prop_info if pi['prop_name'] == k and pi['unit'] is None]
                    if lost and kw.get('prop_info') is prop_info:
                        raise Violation(v.detail + ' [returned prop_info has unit None for the scaled columns]', key=K_SCALED) from None
                    raise
                continue
            U = 1.0
            if u is not None:
                conv = True
                labels.add('unit_conv')
                U = float(uc.set_in_units(1.0, u))
            known.cmp(k, L0.atoms.view[k], exp, tol_for(fmt, U, exp) + _rtol(r, exp), what)
        # ---- what the caller does in between (round 5)
        def other():
            S2 = _other_snapshot(S)
            judge_table(am, G.make_system(am, S2), S2, opt, pert, tmp, set(), None, led, None if x is None else dict(x, post=[]))

        def redump():
            t2, r2 = _dump(G.make_system(am, S0), 'table', opt['target'], tmp, **dargs.fresh())
            require(t2 == text, lambda: '%s of an identical fresh system a second time gives another text:\n%s\nfirst:\n%s' % (whatd, t2, text))
            require(_same_tree(r2[0], pi0), lambda: '%s a second time returns another prop_info: %r, first %r' % (whatd, r2[0], pi0))
            led.add_info(r2[0], whatd + ' (second time)')
        own_pi = kw.get('prop_info') is prop_info
        fp0, plabs = _post_ops(x, led, system, L0, prop_info, dargs, largs, None if ux is not None and ux.crossed else redump, other)
        labels |= plabs
        kw = largs.fresh()
        if own_pi:
            kw['prop_info'] = copy.deepcopy(pi0)
        # the loaded System keeps the Box it was given (System(box=) points to the object it gets: documented there); the
        # second load gets a Box of its own, the first one is the caller's to keep as it is
        kw['box'] = am.Box(vects=box0[0], origin=box0[1])
        # ---- perturbed / other source
        can_shuffle = id_col
        text2 = perturb_table(text, n, pert, bool(opt['header']), can_shuffle)
        kw2 = dict(kw)
        if pert['comments']:
            kw2['comment'] = '#'
        src = tmp.source(pert['source'], text2)
        what2 = what + ' after %s, given as %s' % (
            '+'.join(k for k in ('shuffle', 'comments', 'blank') if pert[k] and (k != 'shuffle' or can_shuffle)) or 'no change', pert['source'])
        L1 = _load(am, 'table', src, **kw2)
        led.add_system(L1, what2)
        same_as_record(fp0, L1, what2)
        known.raise_if_found()
        perm_moves = can_shuffle and pert['shuffle'] and _perm(pert['keys'], n) != list(range(n))
        if perm_moves:
            labels.add('shuffled')
        if id_col:
            labels.add('id_column')
        if pert['comments'] or pert['blank']:
            labels.add('comments_blank')
        if pert['source'] in ('bytesio', 'file'):
            labels.add('stream')
        rank1 = any(len(S['meta'][k]['shape']) >= 1 for k in written if k in S['props'])
        labels |= shape_labels(S, written)
        if rank1 and (conv or opt['header'] or pert['comments'] or perm_moves):
            labels.add('nt')
        return labels


def _shape_of(name, S):
    return (3,) if name == 'pos' else () if name == 'atype' else tuple(S['meta'][name]['shape'])


def _default_names(name, S):
    """default column names name[i][j].. of a property (only needed when table_name must be given for the id column)"""
    shape = _shape_of(name, S)
    out = [name]
    for dim in shape:
        out = [x + '[%d]' % i for x in out for i in range(dim)]
    return out


# ============================================================================= POSCAR

COORDSTYLES = ('direct', 'Direct', 'cartesian', 'Cartesian', 'Cart', 'Kartesisch', 'direct')
POSCAR_FORMATS = ('%.13e', '%.13f', '%.8f', '%.5e', '%.16e')


@st.composite
def poscar_cases(draw):
    sysd = draw(G.systems_for(draw(st.integers(0, 2)) > 0, (), (0, 1), False))
    sc = draw(st.sampled_from(['1', '0.5', '3.7', 'a', 'a']))
    if sc == 'a':
        c = sysd['cell']
        scale = float(np.linalg.norm(gens.cell_vects(c)[0]))
    else:
        scale = float(sc)
    give_symbols = False
    if sysd['symbols'] is None or None in sysd['symbols']:
        give_symbols = draw(st.integers(0, 2)) == 0
    case = {'sys': sysd,
            'opt': {'coordstyle': draw(st.sampled_from(COORDSTYLES)), 'scale': scale, 'fmt': draw(st.sampled_from(POSCAR_FORMATS)),
                    'header': draw(st.sampled_from(['', 'Al fcc', 'round trip # 1', '8 atoms of something'])),
                    'give_symbols': give_symbols, 'target': draw(TARGETS)},
            'pert': {'trail': draw(_bool), 'indent': draw(_bool), 'eof': draw(_bool), 'source': draw(SOURCES)},
            'units': draw(G.S_PLAN_NOCROSS)}
    case = _with_x(case, draw(G.S_X), False)
    if sc == 'a':
        case['opt']['scale'] = float(np.linalg.norm(G.snapshot(case['sys'])['V'][0]))       # |a| of the final cell
    return case


def perturb_poscar(text, n, pert, has_symbols):
    lines = text.split('\n')
    i0 = 8 if has_symbols else 7
    for k in range(i0, i0 + n):
        if pert['indent']:
            lines[k] = '  ' + lines[k]
        if pert['trail']:
            lines[k] = lines[k] + '  Al%d' % (k - i0)
    if pert['indent']:
        for k in (2, 3, 4):
            lines[k] = '   ' + lines[k] + ' '
    out = '\n'.join(lines)
    if pert['eof']:
        out += '\n\n'
    return out


def _match_multiset(got, exp, tol):
    """True if the rows of got can be paired one-to-one with rows of exp within tol (per component)"""
    if len(got) != len(exp):
        return False
    if len(got) == 0:
        return True
    ok = (np.abs(got[:, None, :] - exp[None, :, :]) <= tol[None, :, :] if np.ndim(tol) == 2 else
          np.abs(got[:, None, :] - exp[None, :, :]) <= tol).all(axis=2)
    if ok[np.arange(len(got)), np.arange(len(got))].all():
        return True
    from scipy.optimize import linear_sum_assignment
    r, c = linear_sum_assignment(~ok)
    return bool(ok[r, c].all())


def oracle_poscar(case):
    return _with_units(case, _run_poscar)


def _run_poscar(am, case, ux, led=None):
    sysd = case['sys']
    x = case.get('x') or X_PLAIN
    S = G.snapshot(sysd)
    if ux is not None:
        S = G.physical(S)
    S = G.stored(S, x['store'])
    tmp = _Tmp()
    try:
        return judge_poscar(am, G.make_system(am, S), S, case['opt'], case['pert'], tmp, cell_labels(S, sysd), led, x)
    finally:
        tmp.close()


def judge_poscar(am, system, S, opt, pert, tmp, labels, led=None, x=None):
    """one dump('poscar') of `system` (whose state is the snapshot S) + load, judged against S"""
    n = len(S['s'])
    led = led if led is not None else _Ledger()
    fmt, scale = _wfmt(opt['fmt']), float(opt['scale'])
    cart = opt['coordstyle'][0] in 'cCkK'
    labels.update({'fmt_' + fmt[-1], 'src_' + pert['source'], 'cartesian' if cart else 'direct'})
    if True:
        kwd = dict(header=opt['header'], coordstyle=opt['coordstyle'], box_scale=scale, float_format=fmt)
        full = S['symbols'] is not None and None not in S['symbols']
        given = None
        if opt['give_symbols'] and not full:
            given = [G.ELEMENTS[(2 + 3 * i) % len(G.ELEMENTS)] for i in range(system.natypes)]
            kwd['symbols'] = given
        if x is not None and x['store'] is not None and x['store'][7] % 4:
            # input forms of the scale factor: an int where it is integral, numpy scalars
            form = x['store'][7] % 4
            kwd['box_scale'] = (int(scale) if scale == int(scale) else scale) if form == 1 else np.float64(scale) if form == 2 else \
                np.float32(scale) if float(np.float32(scale)) == scale else np.float64(scale)
            labels.add('scale_form_' + type(kwd['box_scale']).__name__)
            if given is not None:
                kwd['symbols'] = tuple(given)
        dargs = _Args(kwd)
        before = _fingerprint(system)
        try:
            text, rest = _dump(system, 'poscar', opt['target'], tmp, **kwd)
        except ValueError as e:
            if 'truth value of an empty array' in str(e) or 'truth value of an array' in str(e):
                raise Violation("dump('poscar') raises ValueError: %s" % str(e)[:150], key=K_POSCAR) from None
            raise
        whatd = "dump('poscar', %s)" % ', '.join('%s=%r' % kv for kv in sorted(dargs.pristine.items()))
        _after_dump(dargs, before, system, whatd)
        led.add_input(system, whatd)
        what = "load('poscar') of dump('poscar', coordstyle=%r, box_scale=%r, float_format=%r, symbols=%r)" % (
            opt['coordstyle'], kwd['box_scale'], fmt, given)
        L0 = am.load('poscar', text)
        led.add_system(L0, what)
        require(L0.natoms == n, lambda: '%s: natoms %d, expected %d' % (what, L0.natoms, n))
        # ---- cell (no origin in the format)
        V, o, s = S['V'], S['o'], S['s']
        relscale = float(tol_for(fmt, 1.0, scale)) / scale
        floor = 2e-9 * np.abs(V).max()
        tV = tol_for(fmt, 1.0, V / scale) * scale * (1 + relscale) + relscale * np.abs(V) + floor
        Vl, ol = np.asarray(L0.box.vects, dtype=float), np.asarray(L0.box.origin, dtype=float)
        require((np.abs(Vl - V) <= tV).all(), lambda: '%s: box vectors\n%r\nexpected\n%r' % (what, Vl, V))
        require(not ol.any(), lambda: '%s: origin %r (the format has none)' % (what, ol))
        # ---- types and symbols
        exp_types = np.sort(S['atype'], kind='stable')
        cmp_values('atype', L0.atoms.atype, exp_types, 0, what + ' [atoms grouped by type]')
        expsym = tuple(given) if given is not None else tuple(S['symbols']) if full else None
        if expsym is not None:
            require(tuple(L0.symbols) == expsym, lambda: '%s: symbols %r, expected %r' % (what, L0.symbols, expsym))
            labels.add('symbols_line')
        else:
            require(all(x is None for x in L0.symbols), lambda: '%s: symbols %r although none were written' % (what, L0.symbols))
        require(L0.natypes == system.natypes or expsym is None,
                lambda: '%s: natypes %d, expected %d' % (what, L0.natypes, system.natypes))
        require(L0.natypes >= int(S['atype'].max()), lambda: '%s: natypes %d < max(atype)' % (what, L0.natypes))
        # ---- positions as type-wise multisets
        got = np.asarray(L0.atoms.pos, dtype=float)
        absVsum = np.abs(V).sum(axis=0)
        if cart:
            # the Cartesian coordinates may be printed divided by the scale factor (VASP convention) or as they are
            # (atomman's historic convention, read back the same way): printed precision of the coarser of the two
            tp = np.maximum(tol_for(fmt, 1.0, S['pos'] / scale) * scale, tol_for(fmt, 1.0, S['pos'])) * (1 + relscale) \
                + relscale * np.abs(S['pos']) + 32 * EPS * np.abs(S['pos'])
            cands = [S['pos'], S['pos'] - o]
            tols = [tp, tp + 64 * EPS * np.abs(o)]
        else:
            # written: relative coordinates (s, recomputed by the writer from pos), read: s' . V'
            r_s, r_x = scaled_roundoff(S)
            ds = tol_for(fmt, 1.0, s) + r_s
            tp = ds @ np.abs(V) + np.abs(s) @ tV + r_x
            cands = [s @ V]
            tols = [tp]
        okany = False
        for cand, tl in zip(cands, tols):
            ok = True
            for t in np.unique(S['atype']):
                if not _match_multiset(got[exp_types == t], cand[S['atype'] == t], tl[S['atype'] == t]):
                    ok = False
                    break
            okany = okany or ok
        if not okany and cart and float(kwd['box_scale']) != 1.0 and (S.get('store') or {}).get('pos', ('f8',))[0] == 'f4':
            raise Violation('%s: positions not reproduced:\n%r\nexpected\n%r [the system stores pos as float32 and the writer divides '
                            'the Cartesian coordinates by box_scale in that dtype]' % (what, got.tolist(), cands[0].tolist()), key=K_POSCAR_F4)
        require(okany, lambda: '%s: positions (type-wise multisets%s) not reproduced:\n%r\nexpected\n%r' % (
            what, ', up to the origin shift' if cart else ', relative to the cell', got.tolist(), cands[0].tolist()))
        # ---- perturbed / other source
        text2 = perturb_poscar(text, n, pert, expsym is not None)
        src = tmp.source(pert['source'], text2)
        what2 = what + ' after %s, given as %s' % ('+'.join(k for k in ('trail', 'indent', 'eof') if pert[k]) or 'no change', pert['source'])
        def other():
            S2 = _other_snapshot(S)
            judge_poscar(am, G.make_system(am, S2), S2, opt, pert, tmp, set(), led, None)

        def redump():
            t2, _ = _dump(G.make_system(am, S), 'poscar', opt['target'], tmp, **dargs.fresh())
            require(t2 == text, lambda: '%s of an identical fresh system a second time gives another text:\n%s\nfirst:\n%s' % (whatd, t2, text))
        fp0, plabs = _post_ops(x, led, system, L0, None, dargs, _Args({}), redump, other)
        labels |= plabs
        L1 = am.load('poscar', src)
        led.add_system(L1, what2)
        same_as_record(fp0, L1, what2)
        if scale != 1.0:
            labels.add('scaled_box')
        if pert['source'] in ('bytesio', 'file'):
            labels.add('stream')
        if pert['trail'] or pert['indent'] or pert['eof']:
            labels.add('perturbed')
        if (labels & {'tilted', 'rotated', 'origin'}) and (labels & {'multitype', 'type_gap'}) and (scale != 1.0 or cart):
            labels.add('nt')
        return labels


# ============================================================================= history on one object

# One System object is written several times (data file with safecopy on and off, dump file, table, POSCAR, in any order),
# with public modifications in between (box through three setters, positions, pbc, reads of derived quantities).  Every
# dump is followed by its load and judged by the SAME judge_* function as in the single-dump clauses, against a numpy
# snapshot of what the object is at that moment.  The snapshot is advanced by my own model of each step; where atomman
# has recomputed coordinates itself (in-place wrap of dump('atom_data', safecopy=False), box_set(scale=True), scaled
# assignment) the new raw arrays are read from the object, checked against the model to 1e-9 and then adopted, so that
# the printed-precision tolerances of the judges are not eaten by the rounding of that recomputation.
HIST_STYLES = ('atomic', 'charge', 'charge')
_FACT = st.sampled_from([1.0, 1.5, 0.75, 2.0, 1.0, 1.25])
_SHIFT = st.sampled_from([0.0, 0.0, 0.5, -1.25, 3.0])
_STEPKIND = st.sampled_from(['data', 'data', 'data', 'dump', 'table', 'poscar', 'data', 'dump', 'table', 'poscar',
                             'box', 'pos', 'pbc', 'read'])
_f3 = st.lists(_FACT, min_size=3, max_size=3)
_s3 = st.lists(_SHIFT, min_size=3, max_size=3)


def _step(draw, kind, sysd, n):
    if kind == 'data':
        units = draw(st.sampled_from(G.UNIT_STYLES))
        return {'op': 'data',
                'opt': {'style': draw(st.sampled_from(HIST_STYLES)), 'units': units, 'fmt': draw(st.sampled_from(G.FORMATS[units])),
                        'safecopy': draw(st.integers(0, 3)) == 0, 'target': draw(TARGETS), 'give_style': draw(_bool)},
                'pert': {'keys': draw(_keys12), 'keys2': draw(_keys12), 'shuffle': draw(_bool), 'comments': draw(_bool),
                         'blank': draw(_bool), 'title': draw(_bool), 'source': draw(SOURCES)}}
    if kind == 'dump':
        units = draw(st.sampled_from(G.UNIT_STYLES))
        prop_name, cols = _dump_opt(draw, sysd, units)
        return {'op': 'dump',
                'opt': {'units': units, 'fmt': draw(st.sampled_from(G.FORMATS[units])), 'target': draw(TARGETS),
                        'prop_name': prop_name, 'use_prop_info': draw(_bool), 'cols': cols},
                'pert': {'keys': draw(_keys12), 'shuffle': draw(_bool), 'source': draw(SOURCES)}}
    if kind == 'table':
        entries, cols = _table_opt(draw, sysd)
        return {'op': 'table',
                'opt': {'entries': entries, 'fmt': draw(st.sampled_from(['%.13f', '%.8f', '%.5e', '%.16e'])),
                        'header': draw(_bool), 'target': draw(TARGETS), 'cols': cols},
                'pert': {'keys': draw(_keys12), 'shuffle': draw(_bool), 'comments': draw(_bool), 'blank': draw(_bool),
                         'source': draw(SOURCES)}}
    if kind == 'poscar':
        give_symbols = False
        if sysd['symbols'] is None or None in sysd['symbols']:
            give_symbols = draw(st.integers(0, 2)) == 0
        return {'op': 'poscar',
                'opt': {'coordstyle': draw(st.sampled_from(COORDSTYLES)), 'scale': draw(st.sampled_from([1.0, 0.5, 3.7])),
                        'fmt': draw(st.sampled_from(POSCAR_FORMATS)), 'header': draw(st.sampled_from(['', 'Al fcc', 'again # 2'])),
                        'give_symbols': give_symbols, 'target': draw(TARGETS)},
                'pert': {'trail': draw(_bool), 'indent': draw(_bool), 'eof': draw(_bool), 'source': draw(SOURCES)}}
    if kind == 'box':
        return {'op': 'box', 'how': draw(st.sampled_from(['vects', 'vectors', 'attr'])), 'f': draw(_f3), 'shift': draw(_s3),
                'scale': draw(_bool)}
    if kind == 'pos':
        return {'op': 'pos', 'how': draw(st.sampled_from(['assign', 'slice', 'scaled'])), 'rel': draw(G._REL[n])}
    if kind == 'pbc':
        return {'op': 'pbc', 'pbc': draw(gens.pbcs)}
    return {'op': 'read', 'what': draw(st.sampled_from(['reciprocal', 'spos', 'relative', 'df']))}


@st.composite
def history_cases(draw):
    want = [('charge', (), 'f', 'charge')]
    if draw(_bool):
        want.append(('velocity', (3,), 'f', 'velocity'))
    sysd = draw(G.systems_for(True, tuple(want), (0, 2), True, False))
    n = len(sysd['rel'])
    steps = []
    for k in range(draw(st.integers(2, 5))):
        kind = draw(_STEPKIND)
        if k == 0 and kind in ('box', 'pos', 'pbc', 'read', 'poscar') and draw(_bool):
            kind = 'data'
        steps.append(_step(draw, kind, sysd, n))
    # working-unit plan of the whole history (drawn last) and, in half of the planned histories, a change of the working
    # units in the middle of it: the object is re-expressed in the new units through the public setters or re-built
    plan = draw(G.S_PLAN_NOCROSS)
    mid, cfg, at, how = draw(_bool), draw(G.S_CFG), draw(st.integers(1, 4)), draw(st.sampled_from(['setters', 'rebuild']))
    if plan is not None and mid:
        steps.insert(1 + (at - 1) % (len(steps) - 1), {'op': 'units', 'cfg': G._other_than(cfg, plan['W']), 'how': how})
    return _with_x({'sys': sysd, 'steps': steps, 'units': plan}, draw(G.S_X), True)


def _with_state(S, V, o, pos):
    S2 = dict(S)
    S2['V'], S2['o'], S2['pos'] = V, o, pos
    S2['s'] = (pos - o) @ np.linalg.inv(V)
    return S2


def _raw_state(system):
    return (np.array(system.box.vects, dtype=float), np.array(system.box.origin, dtype=float),
            np.array(system.atoms.pos, dtype=float))


def _adopt(system, S, V, o, pos, what):
    """the object's raw arrays must be the modelled ones to 1e-9; they become the new snapshot"""
    V2, o2, p2 = _raw_state(system)
    sc = max(np.abs(V).max(), np.abs(o).max(), np.abs(pos).max(), 1e-300)
    t = 1e-9 * sc * max(1.0, np.linalg.cond(V))
    require(np.abs(V2 - V).max() <= t and np.abs(o2 - o).max() <= t,
            lambda: '%s: the box is\n%r %r\nexpected\n%r %r' % (what, V2, o2, V, o))
    require(p2.shape == pos.shape and np.abs(p2 - pos).max() <= t,
            lambda: '%s: positions are\n%r\nexpected\n%r' % (what, p2.tolist(), pos.tolist()))
    return _with_state(S, V2, o2, p2)


def _after_inplace_wrap(system, S, what):
    """state of the object after the documented in-place wrap: periodic directions keep their vector and the atoms move by
    whole vectors; a non-periodic direction keeps its direction, contains the old cell and every atom; returns the new
    snapshot (read from the object) and whether anything changed"""
    V, o, pos, s = S['V'], S['o'], S['pos'], S['s']
    V2, o2, p2 = _raw_state(system)
    cond = np.linalg.cond(V)
    sc = max(np.abs(V).max(), np.abs(o).max(), np.abs(pos).max())
    m = (p2 - pos) @ np.linalg.inv(V)
    t = 1e-9 * cond * max(1.0, np.abs(s).max())
    pbc = np.array(S['pbc'])
    require(np.abs(m - np.round(m)).max() <= t and (np.abs(m[:, ~pbc]) <= t).all(),
            lambda: '%s: the atoms of the object moved by %r box vectors (whole vectors along periodic directions only)' % (what, m.tolist()))
    k = np.array([V2[i] @ V[i] / (V[i] @ V[i]) for i in range(3)])
    # (a component up to 1e-9 of the largest one of the NEW cell is zeroed by Box: documented clean-up)
    require(np.abs(V2 - k[:, None] * V).max() <= 1.01e-9 * max(sc, np.abs(V2).max()) and (k >= 1 - 1e-9).all() and (np.abs(k[pbc] - 1) <= 1e-9).all(),
            lambda: '%s: the box of the object became\n%r\nfrom\n%r' % (what, V2, V))
    s2 = (p2 - o2) @ np.linalg.inv(V2)
    require((s2 >= -t).all() and (s2 <= 1 + t).all(),
            lambda: '%s: atoms of the object outside its box afterwards: relative coordinates %r' % (what, s2.tolist()))
    changed = not (np.array_equal(V2, V) and np.array_equal(o2, o) and np.array_equal(p2, pos))
    return _with_state(S, V2, o2, p2), changed


def oracle_history(case):
    """the history under its unit plan: the first dump of the history is first run on a fresh object and judged under
    plan['pre'], then the whole history runs under plan['W'] (with 'units' steps changing the configuration on the way);
    the default working units are always restored"""
    import atomman as am
    import atomman.unitconvert as uc
    plan = case.get('units')
    try:
        led = _Ledger()
        if plan is None:
            try:
                return _history(am, uc, case, False, led)
            except Violation as v:
                raise Violation(v.detail + _trail_note([s_['cfg'] for s_ in case['steps'] if s_['op'] == 'units']), key=v.key) from None
        own = [plan[k] for k in ('pre', 'W') if plan[k] is not None] + [s_['cfg'] for s_ in case['steps'] if s_['op'] == 'units']
        if plan['pre'] is not None:
            head = [st_ for st_ in case['steps'] if st_['op'] in ('data', 'dump', 'table', 'poscar')][:1]
            _apply(uc, plan['pre'])
            try:
                _history(am, uc, {'sys': case['sys'], 'steps': head, 'x': case.get('x')}, True, led)
                led.rounds += 1
            except Violation as v:
                raise Violation('%s [fresh object under %s]%s' % (v.detail, _cfg_text(plan['pre']), _trail_note(own)), key=v.key) from None
        _apply(uc, plan['W'])
        ulabs = _unit_labels(plan, False)
        try:
            labels = _history(am, uc, case, True, led)
        except Violation as v:
            raise Violation('%s [history under %s%s]%s' % (
                v.detail, _cfg_text(plan['W']), ', after its first dump + load on a fresh object under %s in the same process'
                % _cfg_text(plan['pre']) if plan['pre'] is not None else '', _trail_note(own)), key=v.key) from None
        return labels | ulabs
    finally:
        G.restore_units(uc)


def _history(am, uc, case, phys, led=None):
    sysd = case['sys']
    x = case.get('x') or X_PLAIN
    led = led if led is not None else _Ledger()
    S = G.snapshot(sysd)
    if phys:
        S = G.physical(S)
    # storage forms of a history: the steps assign new float64 arrays, so no narrow float storage; positions are written in
    # place (wrap, slice assignment), so no read-only arrays
    S = G.stored(S, x['store'], narrow_float=False, readonly=False)
    base = cell_labels(S, sysd)
    labels = {l for l in base if l.split('_')[0] in ('tiny', 'sym', 'near', 'vals', 'store')}
    n = len(S['s'])
    tmp = _Tmp()
    done = []
    wrapped_inplace = extended_inplace = modified = False
    ndumps = 0
    dumps_before_units = None
    try:
        system = G.make_system(am, S)
        for step in case['steps']:
            op = step['op']
            hist = ' [step %d on the same object, after %s]' % (len(done) + 1, ', '.join(done) or 'nothing')
            try:
                if op in ('data', 'dump', 'table', 'poscar'):
                    judge = {'data': judge_data, 'dump': judge_dump, 'table': judge_table, 'poscar': judge_poscar}[op]
                    before = _raw_state(system)
                    sub = judge(am, system, S, step['opt'], step['pert'], tmp, set(base), led=led)
                    # every System loaded in the earlier steps is still what it was (and so are the returned prop_info)
                    led.inputs = []
                    led.verify(labels, hist)
                    led.rounds += 1
                    ndumps += 1
                    labels.add('dumped_' + op)
                    needs_rel = op == 'data' or 'scaled' in sub or 'scaled_cols' in sub or 'direct' in sub
                    if ndumps > 1:
                        labels.add('redump')
                    if dumps_before_units:
                        labels.add('redump_after_units_step')
                    if wrapped_inplace and needs_rel:
                        labels.add('rel_after_inplace_wrap')
                    if extended_inplace and needs_rel:
                        labels.add('rel_after_inplace_extension')
                    if modified and needs_rel:
                        labels.add('rel_after_modification')
                    labels |= {x for x in sub if x in ('explicit_columns', 'none_unit_std_prop', 'extended', 'imageflags', 'stream')}
                    if op == 'data' and not step['opt']['safecopy']:
                        what = "dump('atom_data', safecopy=False)" + hist
                        S, changed = _after_inplace_wrap(system, S, what)
                        labels.add('inplace')
                        if changed:
                            wrapped_inplace = True
                            if not np.array_equal(before[0], S['V']):
                                extended_inplace = True
                        done.append("dump('atom_data')")
                    else:
                        after = _raw_state(system)
                        what = "dump(%r%s)" % ('atom_' + op if op in ('data', 'dump') else op, ', safecopy=True' if op == 'data' else '')
                        require(all(np.array_equal(a, b) for a, b in zip(before, after)),
                                lambda: '%s changed the object it wrote: box\n%r %r\nwas\n%r %r\npositions\n%r\nwere\n%r' % (
                                    what + hist, after[0], after[1], before[0], before[1], after[2].tolist(), before[2].tolist()))
                        if op == 'data':
                            labels.add('safecopy')
                        done.append(what)
                elif op == 'box':
                    V = np.array(step['f'], dtype=float)[:, None] * S['V']
                    # the shift is a length in angstrom (a plain number without a unit plan)
                    o = S['o'] + np.array(step['shift'], dtype=float) * (G.unit_factors()['length'] if phys else 1.0)
                    how = step['how']
                    if how == 'attr' and not step['scale']:
                        system.box.vects = V.tolist()
                        system.box.origin = o
                        txt = 'box.vects = ..; box.origin = ..'
                    elif how == 'vectors':
                        system.box_set(avect=V[0].copy(), bvect=list(V[1]), cvect=tuple(V[2]), origin=o.copy(), scale=bool(step['scale']))
                        txt = 'box_set(avect=, bvect=, cvect=, origin=, scale=%r)' % step['scale']
                    else:
                        system.box_set(vects=V.copy(), origin=o.copy(), scale=bool(step['scale']))
                        txt = 'box_set(vects=, origin=, scale=%r)' % step['scale']
                    pos = S['s'] @ V + o if step['scale'] else S['pos']
                    S = _adopt(system, S, V, o, pos, txt + hist)
                    modified = True
                    labels.add('box_modified')
                    done.append(txt)
                elif op == 'pos':
                    rel = np.array(step['rel'], dtype=float).reshape(-1, 3)[:n]
                    if len(rel) < n:
                        rel = np.vstack([rel, np.full((n - len(rel), 3), 0.25)])
                    pos = rel @ S['V'] + S['o']
                    if step['how'] == 'assign':
                        system.atoms.pos = pos.copy()
                        txt = 'atoms.pos = ..'
                    elif step['how'] == 'slice':
                        system.atoms.pos[:] = pos
                        txt = 'atoms.pos[:] = ..'
                    else:
                        system.atoms_prop('pos', value=rel.copy(), scale=True)
                        txt = "atoms_prop('pos', value=.., scale=True)"
                    S = _adopt(system, S, S['V'], S['o'], pos, txt + hist)
                    modified = True
                    labels.add('pos_modified')
                    done.append(txt)
                elif op == 'units':
                    # the working units change: the same physical system is re-expressed in the new ones
                    f0 = G.unit_factors()
                    _apply(uc, step['cfg'])
                    f1 = G.unit_factors()
                    rL = f1['length'] / f0['length']
                    V, o, pos = S['V'] * rL, S['o'] * rL, S['pos'] * rL
                    props = {}
                    for k, v in S['props'].items():
                        m = S['meta'][k]
                        props[k] = v * (f1[m['q']] / f0[m['q']]) if m['dtype'] == 'f' and m['q'] is not None else v
                    S = dict(S)
                    S['props'] = props
                    txt = _cfg_text(step['cfg'])
                    if step['how'] == 'rebuild':
                        S = _with_state(S, V, o, pos)
                        system = G.make_system(am, S)
                        txt += ' + object re-built in the new units'
                    else:
                        system.box_set(vects=V.copy(), origin=o.copy(), scale=True)
                        for k, v in props.items():
                            if S['meta'][k]['dtype'] == 'f' and S['meta'][k]['q'] is not None:
                                system.atoms_prop(k, value=v.copy())
                        txt += ' + box_set(vects=, origin=, scale=True), atoms_prop(<each dimensional property>, value=)'
                        S = _adopt(system, S, V, o, pos, txt + hist)
                    if dumps_before_units is None:
                        dumps_before_units = ndumps
                    labels.add('units_step')
                    labels.add('units_step_' + step['how'])
                    done.append(txt)
                elif op == 'pbc':
                    system.pbc = list(step['pbc'])
                    S = dict(S)
                    S['pbc'] = [bool(b) for b in step['pbc']]
                    labels.add('pbc_modified')
                    done.append('pbc = %r' % (step['pbc'],))
                else:
                    w = step['what']
                    if w == 'reciprocal':
                        system.box.reciprocal_vects
                    elif w == 'spos':
                        system.atoms_prop('pos', scale=True)
                    elif w == 'relative':
                        system.box.position_cartesian_to_relative(S['pos'][:1])
                    else:
                        try:
                            system.atoms_df(scale=['pos'])
                        except ValueError as e:
                            if 'Big-endian buffer not supported' not in str(e):
                                raise
                            raise Violation('System.atoms_df raises ValueError: %s (columns in non-native byte order)' % e, key=K_BIGENDIAN) from None
                    labels.add('read_between')
                    done.append('read ' + w)
            except Violation as v:
                if hist in v.detail:
                    raise
                raise Violation(v.detail + hist, key=v.key) from None
        if ndumps >= 2 and ('rel_after_inplace_wrap' in labels or 'rel_after_modification' in labels):
            labels.add('nt')
        return labels
    finally:
        tmp.close()


# ============================================================================= combos (enumerated, round 5)

# Options and sub-styles that go through the same tables or the same DataFrame columns, in every combination and order:
#   styles  every ordered pair (a, b) of the 18 atom styles as ONE sequence in one process: 'hybrid a b', b, a, 'atomic', each
#           written and loaded by judge_data on its own system, the ledger kept across the sequence (a column table that is
#           remembered, or extended in place for the hybrid, shows in the next style)
#   posvars every ordered non-empty subset of the pos / spos / upos / supos columns of a dump file x three unit treatments
#   table   every writer route x loader route x unit of the pos column x header x id column
#   poscar  every coordstyle x scale factor (float and int) x symbols source x float format
_COMBO_CELL = {'lx': 4.0, 'ly': 5.5, 'lz': 6.25, 'xy': -1.25, 'xz': 0.75, 'yz': 2.0, 'origin': [1.5, -2.25, 0.5], 'rot': None,
               'lefthanded': False}
_COMBO_REL = [[0.25, 0.5, 0.75], [1.5, -0.25, 0.125], [0.0, 0.5, 1.0], [-0.75, 2.25, 0.625]]
_STYLE_UNITS = ('real', 'si', 'nano', 'cgs', 'metal', 'micro', 'electron', 'lj')


def _combo_sys(seed, want, atom_id=False, lammps=True):
    rng = np.random.default_rng(seed)
    props = [{'name': nm, 'shape': list(shape), 'dtype': dt, 'q': q, 'values': G._fill(rng, 4, shape, dt, q)} for nm, shape, dt, q in want]
    if atom_id:
        props.append({'name': 'atom_id', 'shape': [], 'dtype': 'i', 'q': None, 'values': [12, 3, 40, 7]})
    cell = dict(_COMBO_CELL)
    if not lammps:
        cell['rot'] = [[1, 2, -1], 35.0]
    return {'cell': cell, 'pbc': [True, False, True], 'rel': [list(r) for r in _COMBO_REL], 'atype': [1, 3, 1, 3], 'ntypes': 3,
            'symbols': ['Al', 'Cu', 'Fe'], 'props': props}


def combos_enum(tier):
    cases = []
    k = 0
    for a in G.BASE_STYLES:
        for b in G.BASE_STYLES:
            if a == b:
                continue
            for u in (_STYLE_UNITS if tier == 'thorough' else (_STYLE_UNITS[k % len(_STYLE_UNITS)],)):
                for vel in ((False, True) if tier == 'thorough' else (bool((k // 3) % 2),)):
                    cases.append({'kind': 'styles', 'a': a, 'b': b, 'units': u, 'vel': vel, 'k': k})
            k += 1
    k = 0
    for r in (1, 2, 3, 4):
        for cols in itertools.permutations(POSVARS, r):
            for umode in (0, 1, 2):
                cases.append({'kind': 'posvars', 'cols': list(cols), 'umode': umode, 'units': G.UNIT_STYLES[k % 7], 'id': bool(k % 3), 'k': k})
                k += 1
    k = 0
    for pu in (None, 'scaled', 'nm', 'angstrom'):
        for dvia in ('lists', 'prop_info'):
            for lvia in ('lists', 'prop_info', 'returned'):
                for header in (False, True):
                    for idc in (False, True):
                        cases.append({'kind': 'table', 'pos_unit': pu, 'dvia': dvia, 'lvia': lvia, 'header': header, 'id': idc, 'k': k})
                        k += 1
    k = 0
    for cs in COORDSTYLES[:6]:
        for sc in (1.0, 0.5, 3.7, 2):
            for sym in ('system', 'given', 'none'):
                for fmt in POSCAR_FORMATS:
                    cases.append({'kind': 'poscar', 'coordstyle': cs, 'scale': sc, 'symbols': sym, 'fmt': fmt, 'k': k})
                    k += 1
    return cases


_PERT0 = {'keys': [5, 1, 9, 3, 0, 0, 0, 0, 0, 0, 0, 0], 'keys2': [2, 8, 1, 7, 0, 0, 0, 0, 0, 0, 0, 0], 'shuffle': True, 'comments': False,
          'blank': False, 'title': False, 'source': 'str', 'trail': False, 'indent': False, 'eof': False}


def oracle_combos(case):
    import atomman as am
    kind, k = case['kind'], case['k']
    led = _Ledger()
    tmp = _Tmp()
    labels = {'combo_' + kind}
    try:
        if kind == 'styles':
            a, b, units = case['a'], case['b'], case['units']
            seq = ['hybrid %s %s' % (a, b), b, a, 'atomic']
            for j, style in enumerate(seq):
                u = units if G.style_allowed(style, units) else 'metal'
                cols, vcols = G.style_props(style)
                want = list(cols) + ([('velocity', (3,), 'f', 'velocity')] + list(vcols) if case['vel'] else [])
                sysd = _combo_sys(1000 * k + j, want)
                S = G.snapshot(sysd)
                opt = {'style': style, 'units': u, 'fmt': G.FORMATS[u][(k + j) % 4], 'safecopy': bool((k + j) % 2), 'target': 'str',
                       'give_style': bool((k // 2 + j) % 2)}
                try:
                    sub = judge_data(am, G.make_system(am, S), S, opt, dict(_PERT0, shuffle=bool(j % 2)), tmp, cell_labels(S, sysd), None, led, None)
                    led.verify(labels)
                except Violation as v:
                    raise Violation('%s [style %d of the sequence %r in one process]' % (v.detail, j + 1, seq), key=v.key) from None
                labels |= {x_ for x_ in sub if x_ in ('hybrid', 'velocities', 'imageflags', 'shuffled_flags', 'nt')}
                led.rounds += 1
            if set(c[0] for c in G.STYLE_PROPS[a]) & set(c[0] for c in G.STYLE_PROPS[b]):
                labels.add('shared_column')
        elif kind == 'posvars':
            cols_ = case['cols']
            sysd = _combo_sys(77 + k, [('force', (3,), 'f', 'force'), ('stress', (3, 3), 'f', None)], atom_id=case['id'])
            S = G.snapshot(sysd)
            prop_name = (['atom_id'] if case['id'] else []) + ['atype'] + cols_ + ['force', 'stress']
            cols = None
            if case['umode']:
                tok = {1: {'pos': 'scaled', 'upos': 'std', 'spos': 'scaled', 'supos': 'scaled'},
                       2: {'pos': 'nm', 'upos': None, 'spos': 'scaled', 'supos': 'scaled'}}[case['umode']]
                cols = {'dvia': 'lists' if case['umode'] == 1 else 'prop_info', 'dmask': 0, 'dflav': 'lammps' if k % 2 else 'default',
                        'lvia': ('returned', 'lists', 'prop_info')[k % 3], 'lmask': 0, 'lflav': 'lammps' if k % 2 else 'default',
                        'dtypes': [False], 'units': [tok.get(nm, 'std' if nm == 'force' else None) for nm in prop_name]}
            opt = {'units': case['units'], 'fmt': G.FORMATS[case['units']][k % 4], 'target': 'str', 'prop_name': prop_name,
                   'use_prop_info': True, 'cols': cols}
            labels |= judge_dump(am, G.make_system(am, S), S, opt, dict(_PERT0, shuffle=True), tmp, cell_labels(S, sysd), None, led, None)
            labels.add('posvars_%d' % len(cols_))
        elif kind == 'table':
            sysd = _combo_sys(5 + k, [('velocity', (3,), 'f', 'velocity'), ('stress', (3, 3), 'f', None), ('w1', (1,), 'f', None)],
                              atom_id=True, lammps=False)
            S = G.snapshot(sysd)
            names = (['atom_id'] if case['id'] else []) + ['atype', 'pos', 'velocity', 'stress', 'w1']
            unit = {'pos': case['pos_unit'], 'velocity': 'm/s', 'stress': 'GPa' if k % 2 else None}
            entries = [{'name': nm, 'unit': unit.get(nm), 'as_id': nm == 'atom_id'} for nm in names]
            cols = {'dvia': case['dvia'], 'dmask': 0, 'dflav': 'prefixed' if case['id'] else 'default', 'lvia': case['lvia'], 'lmask': 0,
                    'lflav': 'prefixed' if case['id'] else 'default', 'dtypes': [bool(k % 2), False, True]}
            opt = {'entries': entries, 'fmt': ('%.13f', '%.16e', '%.8f', '%.5e')[k % 4], 'header': case['header'], 'target': 'str', 'cols': cols}
            labels |= judge_table(am, G.make_system(am, S), S, opt, dict(_PERT0, comments=bool(k % 2)), tmp, cell_labels(S, sysd), None, led, None)
        else:
            sysd = _combo_sys(9 + k, [], lammps=False)
            if case['symbols'] != 'system':
                sysd['symbols'] = None
                sysd['ntypes'] = 3
            S = G.snapshot(sysd)
            opt = {'coordstyle': case['coordstyle'], 'scale': case['scale'], 'fmt': case['fmt'], 'header': 'combo # %d' % k,
                   'give_symbols': case['symbols'] == 'given', 'target': 'str'}
            labels |= judge_poscar(am, G.make_system(am, S), S, opt, dict(_PERT0, indent=bool(k % 2), trail=bool(k % 3)), tmp,
                                   cell_labels(S, sysd), led, None)
        led.verify(labels)
        labels.add('nt')
        return labels
    finally:
        tmp.close()


# ============================================================================= reject

REQUIRED = ('atoms', 'xlo', 'ylo', 'zlo', 'Atoms', 'Atoms_section')


@st.composite
def reject_cases(draw):
    style = draw(G.atom_styles())
    units = draw(st.sampled_from(('metal', 'real', 'nano', 'electron', 'si')))
    if not G.style_allowed(style, units):
        units = 'metal'
    subs = style.split()[1:] if style.startswith('hybrid') else [style]
    if any(x in G.VOLUME_STYLES for x in subs):
        style = 'charge'
    cols, vcols = G.style_props(style)
    want = list(cols)
    if draw(_bool):
        want += [('velocity', (3,), 'f', 'velocity')] + list(vcols)
    sysd = draw(G.systems_for(True, tuple(want), (0, 0), False))
    return {'sys': sysd, 'opt': {'style': style, 'units': units, 'fmt': draw(st.sampled_from(('%.13f', '%.5e'))),
                                 'give_style': draw(_bool)},
            'remove': draw(st.sampled_from(REQUIRED)),
            'pert': {'keys': draw(_keys12), 'keys2': draw(_keys12), 'shuffle': draw(_bool), 'comments': draw(_bool),
                     'blank': draw(_bool), 'title': draw(_bool), 'source': draw(SOURCES)}}


def mutilate(text, n, what):
    lines = text.split('\n')
    iA, a0, a1 = _section_rows(lines, 'Atoms', n)
    if what == 'Atoms':
        del lines[iA]
    elif what == 'Atoms_section':
        del lines[iA:a1]
    else:
        for i, l in enumerate(lines[:iA]):
            t = l.split('#')[0].split()
            if (what == 'atoms' and len(t) == 2 and t[1] == 'atoms') or (what != 'atoms' and len(t) == 4 and t[2] == what):
                del lines[i]
                break
        else:
            raise AssertionError('line for %s not found' % what)
    return '\n'.join(lines)


def oracle_reject(case):
    import atomman as am
    from atomman.load import FileFormatError
    sysd, opt, pert = case['sys'], case['opt'], case['pert']
    S = G.snapshot(sysd)
    n = len(S['s'])
    labels = {'remove_' + case['remove'], 'src_' + pert['source']}
    tmp = _Tmp()
    try:
        system = G.make_system(am, S)
        try:
            text = system.dump('atom_data', atom_style=opt['style'], units=opt['units'], float_format=opt['fmt'])[0]
        except KeyError as e:
            if e.args == ('None',) and opt['units'] == 'lj':      # not generated any more; kept for old replay files
                raise Violation("dump('atom_data', units='lj') raises KeyError('None')", key=K_LJ_ANG) from None
            raise
        text = perturb_data(text, n, pert)
        bad = mutilate(text, n, case['remove'])
        src = tmp.source(pert['source'], bad)
        kw = dict(pbc=list(S['pbc']), units=opt['units'])
        if opt['give_style']:
            kw['atom_style'] = opt['style']
        what = "load('atom_data') of a data file without its %s, given as %s" % (
            {'atoms': "'N atoms' line", 'Atoms': "'Atoms' section keyword", 'Atoms_section': 'Atoms section'}.get(
                case['remove'], "'%s %shi' line" % (case['remove'], case['remove'][0])), pert['source'])
        try:
            r = am.load('atom_data', src, **kw)
        except FileFormatError:
            pass
        except Exception as e:
            raise Violation('%s raised %s (%s) instead of FileFormatError' % (what, type(e).__name__, str(e)[:200])) from None
        else:
            raise Violation('%s returned a system with %d atoms and box %r instead of raising FileFormatError'
                            % (what, r.natoms, np.asarray(r.box.vects).tolist()))
        if 'Velocities' in text:
            labels.add('velocities')
        if pert['comments'] or pert['blank'] or pert['shuffle'] or pert['source'] != 'str':
            labels.add('nt')
        return labels
    finally:
        tmp.close()


# ============================================================================= clauses

CLAUSES = [
    Clause('data_file', oracle_data, data_cases, quick=1600, thorough=38000,
           min_share=_Guards({'tiny_tilt': 0.07, 'tiny_1e-9_1e-6': 0.03, 'tiny_1e-6_1e-3': 0.025, 'sym': 0.06, 'near_face': 0.07, 'vals_decades': 0.05, 'vals_near': 0.03, 'store': 0.08, 'store_narrow_float': 0.07, 'store_narrow_int': 0.05, 'store_strided': 0.07, 'store_list': 0.065, 'post_other': 0.055, 'post_in': 0.13, 'post_out': 0.13, 'post_redump': 0.12, 'ledger': 0.3, 'ledger_other_natoms': 0.05, 'ledger_across_rounds': 0.1,
                              'nt': 0.08, 'imageflags': 0.1, 'shuffled': 0.02, 'hybrid': 0.05, 'extended': 0.2,
                              'velocities': 0.14, 'comments_blank': 0.11, 'multitype': 0.06,
                              'units': 0.22, 'units_pre': 0.14, 'units_pre_default': 0.11, 'units_pre_other': 0.011,
                              'units_cross': 0.07, 'units_seed': 0.02, 'units_named': 0.15, 'units_A_lt1e-3': 0.08,
                              'units_A_ge1e-3': 0.08}, 0),
           desc="load('atom_data', dump('atom_data')): cell after the documented wrap, types, positions with image flags "
                "re-applied, every style column and the Velocities section, all styles/units/formats; shuffled lines, "
                "comments, blank lines, string/path/stream give the identical system"),
    Clause('dump_file', oracle_dump, dump_cases, quick=1450, thorough=35000,
           min_share=_Guards({'tiny_tilt': 0.07, 'tiny_1e-9_1e-6': 0.03, 'tiny_1e-6_1e-3': 0.025, 'sym': 0.06, 'near_face': 0.07, 'vals_decades': 0.05, 'vals_near': 0.03, 'store': 0.08, 'store_narrow_float': 0.07, 'store_narrow_int': 0.05, 'store_strided': 0.07, 'store_list': 0.065, 'post_other': 0.055, 'post_in': 0.13, 'post_out': 0.13, 'post_redump': 0.12, 'ledger': 0.3, 'ledger_other_natoms': 0.05, 'ledger_across_rounds': 0.1,
                              'told_dtype': 0.09, 'told_narrow_dtype': 0.02, 'pos_decades': 0.03,
                              'units': 0.22, 'units_pre': 0.14, 'units_pre_default': 0.11, 'units_pre_other': 0.011,
                              'units_cross': 0.07, 'units_seed': 0.02, 'units_named': 0.15, 'units_A_lt1e-3': 0.08,
                              'units_A_ge1e-3': 0.08, 'nt': 0.09, 'shuffled': 0.08, 'with_prop_info': 0.16, 'own_ids': 0.09, 'scaled_cols': 0.05,
                              'unit_dim_shape': 0.23, 'one_column_shape': 0.15, 'explicit_columns': 0.17,
                              'load_via_lists': 0.09, 'load_via_prop_info': 0.035, 'dump_via_prop_info': 0.04,
                              'none_unit_std_prop': 0.05, 'explicit_dtype': 0.15}, 0),
           desc="load('atom_dump', dump('atom_dump')): cell from bounding box, pbc flags, ids, types, pos/spos/upos/supos, "
                "standard columns with units and free properties with their shape through the returned prop_info"),
    Clause('table', oracle_table, table_cases, quick=1300, thorough=29000,
           min_share=_Guards({'tiny_tilt': 0.07, 'tiny_1e-9_1e-6': 0.03, 'tiny_1e-6_1e-3': 0.025, 'sym': 0.06, 'near_face': 0.07, 'vals_decades': 0.05, 'vals_near': 0.03, 'store': 0.08, 'store_narrow_float': 0.07, 'store_narrow_int': 0.05, 'store_strided': 0.07, 'store_list': 0.065, 'post_other': 0.055, 'post_in': 0.13, 'post_out': 0.13, 'post_redump': 0.12, 'ledger': 0.3, 'ledger_other_natoms': 0.05, 'ledger_across_rounds': 0.1,
                              'told_dtype': 0.1, 'told_narrow_dtype': 0.03, 'pos_decades': 0.035, 'sym_perm': 0.025, 'lefthanded': 0.008,
                              'units': 0.22, 'units_pre': 0.14, 'units_pre_default': 0.11, 'units_pre_other': 0.011,
                              'units_cross': 0.04, 'units_seed': 0.02, 'units_named': 0.15, 'units_A_lt1e-3': 0.08,
                              'units_A_ge1e-3': 0.08, 'nt': 0.2, 'rank2plus': 0.2, 'unit_conv': 0.14, 'header': 0.15, 'shuffled': 0.037,
                              'unit_dim_shape': 0.26, 'one_column_shape': 0.18, 'explicit_columns': 0.18,
                              'load_via_lists': 0.09, 'load_via_prop_info': 0.035, 'dump_via_prop_info': 0.055,
                              'mixed_none_units': 0.13}, 0),
           desc="load('table', dump('table'), prop_info=<returned>): every property with shape, unit/scaled conversion "
                "undone, header line, comments, blank lines, id column"),
    Clause('poscar', oracle_poscar, poscar_cases, quick=1300, thorough=34000,
           min_share=_Guards({'tiny_tilt': 0.07, 'tiny_1e-9_1e-6': 0.03, 'tiny_1e-6_1e-3': 0.025, 'sym': 0.06, 'near_face': 0.07, 'store': 0.08, 'store_narrow_float': 0.07, 'store_narrow_int': 0.04, 'store_strided': 0.07, 'store_list': 0.065, 'post_other': 0.055, 'post_in': 0.13, 'post_out': 0.13, 'post_redump': 0.12, 'ledger': 0.3, 'ledger_other_natoms': 0.05, 'ledger_across_rounds': 0.1,
                              'sym_perm': 0.025, 'lefthanded': 0.008, 'store_pos_f4': 0.02,
                              'units': 0.22, 'units_pre': 0.14, 'units_pre_default': 0.11, 'units_pre_other': 0.011,
                              'units_seed': 0.02, 'units_named': 0.15, 'units_A_lt1e-3': 0.08, 'units_A_ge1e-3': 0.08,
                              'nt': 0.2, 'cartesian': 0.23, 'scaled_box': 0.3, 'type_gap': 0.15, 'symbols_line': 0.2, 'multitype': 0.13}, 1),
           desc="load('poscar', dump('poscar')): cell (scale factor), types grouped, symbols line, positions as type-wise "
                "multisets (direct: relative coordinates; Cartesian: up to the origin shift)"),
    Clause('history', oracle_history, history_cases, quick=580, thorough=14500,
           min_share=_Guards({'ledger': 0.45, 'ledger_across_rounds': 0.4, 'tiny_tilt': 0.06, 'sym': 0.05, 'near_face': 0.06,
                              'store': 0.08, 'store_narrow_int': 0.04, 'store_strided': 0.05,
                              'units': 0.22, 'units_pre': 0.14, 'units_pre_default': 0.11, 'units_pre_other': 0.011,
                              'units_seed': 0.02, 'units_named': 0.15, 'units_A_lt1e-3': 0.07, 'units_step': 0.063,
                              'units_step_setters': 0.03, 'units_step_rebuild': 0.03, 'redump_after_units_step': 0.045,
                              'nt': 0.17, 'redump': 0.4, 'rel_after_inplace_wrap': 0.14, 'rel_after_inplace_extension': 0.12,
                              'rel_after_modification': 0.05, 'safecopy': 0.17, 'box_modified': 0.06, 'pos_modified': 0.06,
                              'explicit_columns': 0.14}, 0),
           desc="the same System object written repeatedly (data file with safecopy on/off, dump file, table, POSCAR) with "
                "box/positions/pbc modified through the public setters in between: every dump + load judged as in the "
                "single-dump clauses against the state of the object at that moment; safecopy=True and the other writers "
                "leave the object as it was"),
    Clause('combos', oracle_combos, enumerate=combos_enum, quick=1100, thorough=6000,
           min_share={'combo_styles': 0.1, 'combo_posvars': 0.02, 'combo_table': 0.01, 'combo_poscar': 0.04, 'ledger': 0.5},
           desc="enumerated: every ordered pair of atom styles as one sequence in one process (hybrid a b, b, a, atomic), every "
                "ordered subset of the pos/spos/upos/supos columns x unit treatment, every writer route x loader route x pos "
                "unit of a table, every coordstyle x scale x symbols x format of POSCAR; judged by the same judge_* functions"),
    Clause('reject', oracle_reject, reject_cases, quick=1000, thorough=20000, min_share={'nt': 0.35},
           desc="a data file without its atom count, a bounds line or its Atoms section raises FileFormatError"),
]
