"""C12 - Volterra dislocation fields satisfy elasticity and carry the Burgers vector."""
import math
import os

import numpy as np
from hypothesis import strategies as st

from ..core import Clause, Violation, require
from .. import gens
from .. import gens_c11 as g11
from .. import gens_c12 as g
from ..oracles import elastic as el
from ..oracles import volterra_ref as vr

RULE = ("media: gens_c11 tensors (generic SPD 6x6 with eigenvalues in [1,500], admissible constant sets of the seven crystal "
        "systems in standard setting, the same in rotated axes) for the Stroh solver, exactly isotropic (E in [1,600], nu in "
        "[0,0.495]) and NEARLY isotropic (cubic / hexagonal / tetragonal / orthorhombic constants, any axis permutation, every "
        "constant within 1e-7 .. 0.97e-4 of the Hill-average isotropic tensor = inside the isotropic class's acceptance band, "
        "or 1.05 .. 5 times the band = outside) for the closed form and the dispatcher, in GPa-like or eV/A^3-like numbers; "
        "solver Stroh / IsotropicVolterraDislocation / "
        "solve_volterra_dislocation; Burgers vector screw, edge, mixed (in the slip plane for the isotropic solver), along "
        "the plane normal or general, |components| in [0.5,8]; orientation none, a proper rotation given as transform= or "
        "axes= with non-unit rows, or Miller line direction + slip plane (h u + k v + l w = 0, small integers, 3 or 4 "
        "indices) in cubic/hexagonal/tetragonal/orthorhombic/monoclinic/triclinic cells or without a cell; m, n default, "
        "the six string pairs, or a rotated perpendicular pair of unit vectors; field points r in [0.3,45], >= 0.05 rad "
        "from the cut, generic and exactly on the frame's axes/diagonals, single points and arrays, lists and arrays.  "
        "Clause decades: ONE array of points r = mantissa 10^k L, k = -6 .. 6 (both ends present in 3/4 of the cases), on 1-3 "
        "rays, overall length unit L = 10^-12 .. 10^6 (1 in half of the cases; the Burgers vector in the same unit in half of "
        "the others), solver argument tol default / 1e-8 / 1e-4 / 1e-5 / 1e-6 / 1e-10.  Clause history: the same problems, "
        "identity orientation (none, or transform / axes = unit matrix with non-unit rows) in a third of the cases, every "
        "array-valued argument in a drawn form (float64, strided view, Fortran / reversed strides, read-only, list, tuple), "
        "followed by 2-6 operations of the CALLER on its own objects (ElasticConstants re-defined through every setter and four "
        "crystal-system methods, arrays / lists overwritten in place, Box re-defined through its setters), other solutions built "
        "from the same objects, evaluations elsewhere, the position array or the returned arrays overwritten.  "
        "Non-trivial: Burgers vector with at least two non-zero components in the (m,n,xi) frame AND a non-identity "
        "orientation AND non-default m, n (AND the solver accepted the problem); history: at least one object the solver was "
        "handed has actually been modified afterwards.")
ASSUMPTIONS = ["numpy linear algebra (eig, inv, einsum) is correct",
               "ElasticConstants(Cij=...) stores the matrix handed over and .Cij returns it (decided by C11)",
               "atomman.Box(vects=...) stores the cell handed over (decided by C01)",
               "sign convention of the code under judgement and of Hirth & Lothe: the displacement jumps by +b from y = 0- to "
               "y = 0+ on the half-plane x < 0 of the (m, n) plane",
               "stiffness numbers are of GPa (or eV/A^3) scale: the solver's 'is it real' test on K_tensor is an absolute tol "
               "(1e-8), so Stroh REFUSES ('Solution not real') every medium given in Pa (probed: 50 of 50 cubic media x 1e9, "
               "x 1e11, x 1e-12) - a refusal, hence outside 'that the solver accepts'; lengths (field points, Burgers vector) are "
               "of Angstrom scale except in the decades clause, which spans 1e-18 .. 1e+12; a field array of complex dtype whose "
               "imaginary parts are rounding residue (<= 1e-9 of the largest real part) counts as real",
               "the solver argument tol (decades clause): Burgers components below tol of the largest are dropped from the problem "
               "that is judged (within 2 % of the threshold: not judged); tol > 1e-8 with Stroh roots closer than 0.05: header "
               "only; tol < 1e-8: a refusal by the self-checks is counted whatever the root separation",
               "ElasticConstants.transform / the Cij setter zero entries below 1e-8 / 1e-9 of the largest and the solver "
               "zeroes Burgers components below 1e-8 of the largest (documented tol): no comparison against my own rotated "
               "tensor is tighter than 3e-8 max|C|",
               "the isotropic class accepts C exactly when numpy.allclose(C.Cij, C.normalized_as('isotropic').Cij, atol=0, "
               "rtol=1e-4) (its solve()), solves the medium normalized_as('isotropic') (Hill bulk and shear moduli: rotation "
               "invariants) and reports that medium as .C: for an accepted, not exactly isotropic input the header, Hooke's "
               "law, the closed forms and the covariance are judged against the Hill-average medium, not loosened; inputs "
               "within 2 % of the band edge may be accepted or refused",
               "Stroh solutions whose three roots p (Im p > 0, recomputed here from the companion matrix) come closer than "
               "gap get every rounding tolerance multiplied by 1 + 1/gap (near-degenerate eigenvectors); problems the "
               "solver refuses with the ValueError of its self-checks are counted, not judged, as long as two roots are closer "
               "than 0.25 (largest separation among refusals on the unchanged tree: 1.6e-2); a refusal of well separated "
               "roots is reported as a violation, a refusal share above 12 % as a harness error"]
LEVEL_TEXT = ("Generated-input exploration of Stroh, IsotropicVolterraDislocation and solve_volterra_dislocation over "
              "positive-definite media of every crystal class (and, for the isotropic class and the dispatcher, media isotropic "
              "only to within the class's 1e-4 acceptance band), all Burgers characters, orientations by rotation or Miller "
              "indices, all m/n choices and field points off the line: Burgers jump and continuity, strain = sym grad u and "
              "div sigma = 0 by 4th-order differences, Hooke's law, 1/r scaling, energy tensor against the Barnett-Lothe "
              "integral and the slip-plane traction, covariance, and the isotropic limit against textbook closed forms; point arrays "
              "spanning 12 decades in r in one call (any length unit, other tol values) judged point by point; caller-side histories "
              "(inputs untouched by the solver, outputs untouched by whatever the caller later does to the objects it handed over).")
TECHNIQUE = ("finite-difference compatibility and equilibrium with derived truncation/rounding bounds, Burgers circuit limit, "
             "own tensor rotation, Barnett-Lothe angular integral for the energy tensor, slip-plane traction identity, "
             "rotation covariance (metamorphic), Hirth-Lothe closed forms, linear convergence of Stroh to the isotropic limit, "
             "per-point relative comparison of array against single-point evaluation over 12 decades, model-free output invariance "
             "under caller-side mutation histories")
WALL = {'quick': 64, 'thorough': 600}

EPS = 2.220446049250313e-16
STROH_REFUSALS = ('Stroh checks failed!', 'Solution not real: check elastic constants')
ISO_REFUSAL = 'C must be isotropic elastic constants'

# ---- stated tolerance constants (derivations next to their use; calibration record in mutants/C12/RESULTS.txt)
H_REL = 1e-4            # finite-difference step / r
DELTA = 1e-9            # half-width of the point pairs straddling a ray / r
TOL_JUMP = 1e-6         # |u(+) - u(-) - b| and continuity, relative to |b|
TOL_ROUND = 1e-7        # rounding part of the finite-difference comparisons, relative, multiplied by (1 + 1/gap)
TOL_HOOKE = 1e-10       # sigma = C : eps, relative to max|C| max|eps|, multiplied by (1 + 1/gap)
TOL_SCALE = 1e-10       # eps(lam x) = eps(x) / lam, relative, multiplied by (1 + 1/gap)
TOL_C = 3e-8            # stored C against my own rotated tensor, relative to max|C|
TOL_K = 3e-8            # energy tensor against the angular integral (K is zeroed below 1e-8 of its maximum)
TOL_COV = 1e-9          # covariance, relative, multiplied by (1 + 1/gap); + 2e-7 cond when an entry lies in the floor band
GAP_REFUSAL = 0.25      # a refusal (Stroh self-checks) is legitimate only for roots closer than this
B_LIMIT = 100.0         # isotropic limit: |field(t) - closed form| <= B_LIMIT * t * scale   (perturbation t * lambda_min)

_CAL = os.environ.get('VERIF_C12_CAL')


def _cal(name, err, tol):
    """calibration mode only (VERIF_C12_CAL=<file>): record err/tol of every comparison"""
    if _CAL:
        with open(_CAL, 'a') as fh:
            fh.write('%s %.4e\n' % (name, (err / tol) if tol > 0 else float('inf')))


def close(err, tol, name, what):
    err = float(err)
    _cal(name, err, tol)
    require(err <= tol, lambda: '%s: off by %.3g (tolerance %.3g)' % (what() if callable(what) else what, err, tol))


# ----------------------------------------------------------------------------- problem -> numbers, solver call

class Setup(object):
    pass


def setup(prob):
    """everything the judgement needs, by my own arithmetic (no atomman)"""
    S = Setup()
    S.m, S.n, S.xi = vr.frame_of(prob['mn'])
    S.T = g.expected_transform(prob, S.m, S.n)
    bs = np.array(prob['bsol'], dtype=float)
    S.b = bs[0] * S.m + bs[1] * S.n + bs[2] * S.xi          # Burgers vector in the solution's Cartesian frame
    S.b_cart = S.T.T @ S.b                                  # the same vector in the crystal's Cartesian frame
    # the solvers' documented rounding argument tol (decades clause; default 1e-8 everywhere else): Burgers components below
    # tol of the largest are zeroed in the solution frame - the problem that is solved, and judged, is the one with those
    # components removed; a component within 2 % of the threshold may go either way (bslack: such a case is not judged)
    S.tol = float(prob['tol']) if prob.get('tol') is not None else 1e-8
    S.bslack = 0.0
    if S.tol > 1e-8:
        ratio = np.abs(S.b) / np.abs(S.b).max()
        band = (ratio > 0.98 * S.tol) & (ratio < 1.02 * S.tol)
        S.bslack = float(np.abs(S.b)[band].max()) if band.any() else 0.0
        S.b = np.where((ratio < S.tol) & ~band, 0.0, S.b)
    S.bn = float(np.linalg.norm(S.b))
    S.C6 = g.stiffness(prob)
    C6s = el.rotate_voigt(S.C6, S.T)
    S.C6s = (C6s + C6s.T) / 2                               # medium in the solution frame
    S.C4s = el.voigt_to_tensor(S.C6s)
    S.cmax = float(max(np.abs(S.C6).max(), np.abs(S.C6s).max()))
    S.exact = S.iso = g.is_isotropic(prob)
    S.near = g.is_neariso(prob)
    S.dev = 0.0
    if S.exact:
        S.roots, S.gap, S.amp = [1j, 1j, 1j], 0.0, 1.0      # closed form: no eigenvectors involved
        mo = el.isotropic_moduli(prob['C']['C']['E'], prob['C']['C']['nu'])
        S.mu, S.nu = mo['mu'] * prob['cscale'], mo['nu']
    else:
        S.dev = g.iso_deviation(S.C6)[0]
        if prob['solver'] == 'iso':
            to_iso_mode(S)                                  # the closed-form class is asked directly
        else:
            S.roots, S.gap = vr.sextic_roots(S.C4s, S.m, S.n)
            S.amp = 1.0 + 1.0 / max(S.gap, 1e-6)
    return S


def to_iso_mode(S):
    """the isotropic class answers for a medium that is not exactly isotropic: what it solves, and reports as .C, is the
    isotropic tensor of the Hill bulk and shear moduli of the input (rotation invariants: the same tensor in every frame)"""
    _, N, K, G = g.iso_deviation(S.C6)
    S.mu, S.nu = G, (3 * K - 2 * G) / (2 * (3 * K + G))
    S.C6s = N
    S.C4s = el.voigt_to_tensor(N)
    S.roots, S.gap, S.amp = [1j, 1j, 1j], 0.0, 1.0
    S.iso = True


def _conv(aslist):
    if aslist:
        return lambda a: np.asarray(a, dtype=float).tolist()
    return lambda a: np.array(a, dtype=float)


def solver_args(prob, S):
    """(burgers, keyword arguments) for the three entry points, from the problem description"""
    import atomman as am
    conv = _conv(prob['aslist'])
    kw = {}
    if prob.get('tol') is not None:
        kw['tol'] = float(prob['tol'])
    mn = prob['mn']
    if mn['kind'] == 'str':
        how = mn.get('pass', 'ss')
        kw['m'] = mn['m'] if how[0] == 's' else conv(S.m)
        kw['n'] = mn['n'] if how[1] == 's' else conv(S.n)
    elif mn['kind'] == 'vec':
        kw['m'], kw['n'] = conv(S.m), conv(S.n)
    o = prob['orient']
    b = S.b_cart
    if o['kind'] == 'transform':
        kw[o['via']] = conv(S.T * np.array(o['rowscale'], dtype=float)[:, None])
    elif o['kind'] == 'miller':
        V = g.box_vects(o['box'])
        if o['box']['family'] != 'unit':
            kw['box'] = am.Box(vects=V)
        b = np.linalg.solve(V.T, S.b_cart)                  # lattice coordinates: b_cart = b_lat . vects
        uvw, hkl = list(o['uvw']), list(o['hkl'])
        if o['four']:
            U, V_, W = uvw
            uvw = [2 * U - V_, 2 * V_ - U, -(U + V_), 3 * W]             # 3 [UVW] as [uvtw]
            hkl = [hkl[0], hkl[1], -(hkl[0] + hkl[1]), hkl[2]]
            b = np.array(g.three_to_four_vector(b))
        kw['ξ_uvw'] = uvw if prob['aslist'] else np.array(uvw)
        kw['slip_hkl'] = hkl if prob['aslist'] else np.array(hkl)
    return conv(b), kw


BAND_LO, BAND_HI = 0.98e-4, 1.02e-4     # my deviation and the solver's agree to rounding; 2 % leaves the edge itself open


def call_solver(solver, C6, b, kw, iso_medium, gap=None, dev=0.0, Cobj=None):
    """returns the solution object, or None for a documented refusal.  iso_medium: exactly isotropic; dev: iso_deviation of
    the medium (0 for exactly isotropic): the isotropic class has to take every medium with dev <= 1e-4.  Cobj: the caller's
    ElasticConstants object (history clause), else a fresh one is built from C6"""
    import atomman as am
    from atomman.defect import Stroh, IsotropicVolterraDislocation, solve_volterra_dislocation
    fn = {'stroh': Stroh, 'iso': IsotropicVolterraDislocation, 'auto': solve_volterra_dislocation}[solver]
    C = am.ElasticConstants(Cij=np.array(C6, dtype=float)) if Cobj is None else Cobj
    try:
        return fn(C, b, **kw)
    except ValueError as e:
        msg = str(e)
        if solver == 'iso' and msg == ISO_REFUSAL and dev > BAND_LO:
            return None                                     # outside the band of the isotropic class
        refused = (solver == 'stroh' and msg in STROH_REFUSALS) or (solver == 'auto' and not iso_medium and msg == ISO_REFUSAL
                                                                    and dev > BAND_LO)
        if not refused:
            raise
        # Stroh's self-checks failed (for 'auto': and the isotropic fallback refuses the anisotropic medium).  That is the
        # documented answer to (nearly) coincident roots, where the eigenvector expansion breaks down.  On the unchanged
        # tree every refusal has gap <= 1e-2 (RESULTS.txt); a refusal of well separated roots is a solver that does not
        # solve problems "away from eigenvalue degeneracy".
        # With tol below its default the self-checks (absolute tol on the eigenvector identities, absolute tol on Im K) are the
        # caller's own, stricter demand: a refusal is then the documented answer whatever the separation of the roots.
        require(gap is None or gap < GAP_REFUSAL or kw.get('tol', 1e-8) < 1e-8,
                lambda: '%s refused (%s) a positive-definite problem whose roots p are separated by %.3g' % (solver, msg, gap))
        return None


def solve(prob, S):
    b, kw = solver_args(prob, S)
    return call_solver(prob['solver'], S.C6, b, kw, S.exact, None if S.iso else S.gap, S.dev)


def begin(prob):
    """setup, solver call, classification.  Returns (S, sol, labels, judge); judge False: refusal, or an answer outside the
    property's domain (counted only).
    solve_volterra_dislocation answers a medium that is not exactly isotropic with Stroh when Stroh's self-checks pass and
    with the isotropic class otherwise - legitimate exactly when the medium is inside that class's band; the case is then
    judged like a direct call of the class (Hill-average medium), provided the Burgers vector lies in the slip plane (the
    class is documented for that only: crystal media are drawn with general Burgers vectors)."""
    S = setup(prob)
    sol = solve(prob, S)
    judge = sol is not None
    extra = set()
    if judge and prob['solver'] == 'auto' and not S.exact and type(sol).__name__ == 'IsotropicVolterraDislocation':
        require(S.dev <= BAND_HI, lambda: 'solve_volterra_dislocation returned the isotropic class for a medium whose constants are '
                '%.3g (relative) away from their isotropic average' % S.dev)
        extra.add('auto_fallback')
        if prob['bsol'][1] != 0.0:
            judge = False
        else:
            to_iso_mode(S)
    if judge and prob['solver'] == 'iso' and not S.exact:
        require(S.dev <= BAND_HI, lambda: 'the isotropic class accepted a medium whose constants are %.3g (relative) away from their '
                'isotropic average (its band is 1e-4)' % S.dev)
    labels = base_labels(prob, S, sol) | extra
    if sol is None and S.iso and not S.exact:
        labels = (labels - {'refusal'}) | {'refusal_outside_band'}
    if judge and S.iso and not S.exact and S.dev == g.BAND:
        # an entry of the Hill-average tensor sits on the Cij setter's zeroing floor (see gens_c12.iso_deviation)
        labels.add('neariso_on_zeroing_floor')
        judge = False
    if judge and S.near and not S.iso:
        # the dispatcher's Stroh attempt passed its self-checks on a nearly isotropic medium.  The isotropic limit of the
        # sextic eigenproblem is DEFECTIVE (triple root p = i with a Jordan block), the roots of the perturbed problem are
        # sqrt(anisotropy) apart and the eigenvectors carry errors of order sqrt(eps)/gap ~ 1e-6..1e-4 (unchanged tree: K_tensor
        # 1.1e-7 from the Barnett-Lothe integral at gap 1.4e-2, replay C12-energy-3), outside "away from eigenvalue
        # degeneracy" and outside the (1 + 1/gap) model of the rounding tolerances, which fits semisimple double roots.
        # Header only; the distance from the closed form is judged in iso_limit with its stated noise floor.
        check_header(sol, S, prob)
        labels.add('stroh_on_neariso')
        judge = False
    if not judge:
        labels.discard('nt')
    elif not S.exact and S.iso:
        labels.add('closed_form_on_neariso')
        labels.add('neariso_via_' + prob['solver'])
    return S, sol, labels, judge


def check_header(sol, S, prob):
    """what the solution object says about the problem it solved, against my own numbers"""
    name = type(sol).__name__
    want = 'IsotropicVolterraDislocation' if (prob['solver'] == 'iso' or (prob['solver'] == 'auto' and S.iso)) else 'Stroh'
    require(name == want, lambda: 'solver %s on %s medium returned a %s' % (prob['solver'], 'an isotropic' if S.iso else 'an anisotropic', name))
    for nm, mine in (('m', S.m), ('n', S.n), ('ξ', S.xi)):
        got = np.asarray(getattr(sol, nm), dtype=float)
        require(got.shape == (3,) and np.abs(got - mine).max() <= 1e-12, lambda: '.%s = %r, expected %r' % (nm, got, mine))
    T = np.asarray(sol.transform, dtype=float)
    require(T.shape == (3, 3), lambda: '.transform has shape %r' % (T.shape,))
    close(np.abs(T - S.T).max(), 1e-9, 'hdr_T', lambda: '.transform\n%r\nagainst my own orientation matrix\n%r' % (T, S.T))
    require(float(sol.tol) == S.tol, lambda: '.tol = %r, handed over (or default) %r' % (sol.tol, S.tol))
    bg = np.asarray(sol.burgers, dtype=float)
    require(bg.shape == (3,), lambda: '.burgers has shape %r' % (bg.shape,))
    close(np.abs(bg - S.b).max(), 2e-8 * S.bn + 1.0001 * S.bslack, 'hdr_b', lambda: '.burgers = %r, expected transform . b = %r' % (bg, S.b))
    Cg = np.asarray(sol.C.Cij, dtype=float)
    close(np.abs(Cg - S.C6s).max(), TOL_C * S.cmax, 'hdr_C',
          lambda: '.C.Cij against my own %s' % ('rotated tensor' if S.exact or not S.iso else 'isotropic (Hill) normalisation of the input'))
    if S.iso:
        for nm, mine in (('mu', S.mu), ('nu', S.nu)):
            got = float(getattr(sol, nm))
            close(abs(got - mine), 1e-10 * (S.mu if nm == 'mu' else 1.0), 'hdr_' + nm, lambda: '.%s = %r, Hill value of the medium %r' % (nm, got, mine))
    return Cg


def field(sol, name, pos, aslist=False):
    """sol.<name>(pos) with shape / dtype / finiteness checks; pos (3,) or (N,3); returns (3,..) or (N,..)"""
    pos = np.asarray(pos, dtype=float)
    out = getattr(sol, name)(pos.tolist() if aslist else pos)
    out = np.asarray(out)
    tail = (3,) if name == 'displacement' else (3, 3)
    if pos.ndim == 2 and pos.shape[0] == 1 and out.shape == tail:
        out = out.reshape((1,) + tail)                      # "single-value solutions are reduced"
    require(out.shape == pos.shape[:-1] + tail, lambda: '%s(%r-shaped positions) has shape %r' % (name, pos.shape, out.shape))
    if out.dtype.kind == 'c':
        # Stroh returns the complex sum unless every imaginary part is below an absolute 1e-8 (numpy.real_if_close with
        # tol <= 1): rounding residue on a large field value is not a defect of the field, a real imaginary part is
        require(float(np.abs(out.imag).max()) <= 1e-9 * float(np.abs(out.real).max()),
                lambda: '%s has a genuine imaginary part at %r: %r' % (name, pos.tolist(), out))
        out = out.real
    require(out.dtype.kind == 'f', lambda: '%s returned dtype %s (not real): %r' % (name, out.dtype, out))
    require(bool(np.all(np.isfinite(out))), lambda: '%s not finite at %r: %r' % (name, pos.tolist(), out))
    return out


def positions(S, local):
    L = np.asarray(local, dtype=float).reshape(-1, 3)
    return L[:, :1] * S.m + L[:, 1:2] * S.n + L[:, 2:3] * S.xi


def geom(S, loc):
    """r, and g = max_a |m + p_a n| r / |x + p_a y|: how much closer than r the nearest singularity of the analytic
    functions log(eta_a), 1/eta_a is in units of the real step"""
    x, y = float(loc[0]), float(loc[1])
    r = math.hypot(x, y)
    gg = max(math.sqrt(1 + abs(p) ** 2) * r / abs(x + p * y) for p in S.roots)
    return r, gg


def base_labels(prob, S, sol):
    labs = g.labels_of(prob)
    if sol is None:
        labs.add('refusal')
        _cal('refusal_gap', S.gap, 1.0)
        return labs
    labs.add('accepted')
    if not S.iso:
        labs.add('gap<0.05' if S.gap < 0.05 else 'gap>=0.05')
    if g.nontrivial(prob):
        labs.add('nt')
    return labs


# ----------------------------------------------------------------------------- clause: jump

_prob_any = g.problems()
_bool = st.booleans()
_cutr = st.one_of(gens.nice(0.3, 3.0, 4), gens.nice(3.0, 30.0, 3), st.sampled_from([1.0, 2.0, 0.5, 16.0]))
_cutz = st.one_of(gens.nice(-10.0, 10.0, 3), st.just(0.0))
_shift = st.one_of(gens.nice(-20.0, 20.0, 3), st.sampled_from([1.0, -4.0]))


@st.composite
def jump_cases(draw):
    return {'prob': draw(_prob_any),
            'cut': draw(st.lists(st.tuples(_cutr, _cutz).map(list), min_size=1, max_size=3)),
            'rays': draw(g.local_points(1, 3)), 'shift': draw(_shift), 'ptlist': draw(_bool)}


def oracle_jump(case):
    prob = case['prob']
    S, sol, labels, judge = begin(prob)
    if not judge:
        return labels
    check_header(sol, S, prob)
    pl = case['ptlist']
    # character angle: angle between the Burgers vector and the line direction
    cosang = float(S.b @ S.xi) / S.bn
    for unit, f in (('degree', math.radians), ('radian', float)):
        a = float(sol.characterangle(unit=unit))
        require(0.0 <= f(a) <= math.pi + 1e-12, lambda: 'characterangle(%s) = %r' % (unit, a))
        close(abs(math.cos(f(a)) - cosang), 1e-9, 'charangle', lambda: 'characterangle(%s) = %r, cos(b, xi) = %r' % (unit, a, cosang))
    # (a) Burgers circuit limit: two points DELTA*r above / below the cut half-plane (y = 0, x < 0).
    #     u is smooth on either side: |u(+-) - limit| <= DELTA r |grad u| ~ DELTA |b| g amp / 2pi  << TOL_JUMP |b|
    tol = TOL_JUMP * S.bn
    for r, z in case['cut']:
        p0 = -r * S.m + z * S.xi
        up = field(sol, 'displacement', p0 + DELTA * r * S.n, pl)
        um = field(sol, 'displacement', p0 - DELTA * r * S.n, pl)
        close(np.abs(up - um - S.b).max(), tol, 'jump',
              lambda: 'u(x=-%g, y=0+) - u(x=-%g, y=0-) = %r, Burgers vector %r' % (r, r, up - um, S.b))
    # (b) continuity across every other ray, the point on the ray included (branch choices on the frame's axes)
    rays = positions(S, case['rays'])
    for loc, p0 in zip(case['rays'], rays):
        r = math.hypot(loc[0], loc[1])
        that = (-loc[1] * S.m + loc[0] * S.n) / r
        trio = np.array([p0 - DELTA * r * that, p0, p0 + DELTA * r * that])
        u = field(sol, 'displacement', trio, pl)
        close(max(np.abs(u[1] - u[0]).max(), np.abs(u[2] - u[1]).max()), tol, 'continuity',
              lambda: 'u not continuous across the ray through local point %r: %r' % (loc, u))
        if loc[0] == 0.0 or loc[1] == 0.0:
            labels.add('ray_on_axis')
    # (c) nothing depends on the coordinate along the line; single point = row of an array evaluation
    sh = case['shift']
    for name, scale in (('displacement', S.bn), ('strain', None), ('stress', None)):
        a = field(sol, name, rays, pl)
        b = field(sol, name, rays + sh * S.xi, pl)
        sc = scale if scale is not None else float(np.abs(a).max())
        close(np.abs(a - b).max(), 1e-9 * S.amp * sc, 'zshift', lambda: '%s changes along the line direction (shift %g)' % (name, sh))
        one = field(sol, name, rays[0], pl)
        close(np.abs(one - a[0]).max(), 1e-11 * S.amp * sc, 'single', lambda: '%s(single point) differs from the row of the array evaluation' % name)
        # array lengths 6 (= number of roots) and 3 (= dimension) are where an axis mix-up would hide
        reps = {1: 6, 2: 3, 3: 2}[len(rays)]
        a6 = field(sol, name, np.tile(rays, (reps, 1)), pl)
        close(np.abs(a6 - np.tile(a, (reps,) + (1,) * (a.ndim - 1))).max(), 1e-11 * S.amp * sc, 'six', lambda: '%s on an array of 6 points differs from the point-by-point values' % name)
        if np.all(rays == np.round(rays)):
            # integer-valued coordinates handed over as Python ints (nested list)
            got = np.asarray(getattr(sol, name)(rays.astype(int).tolist()))
            require(got.shape == a.shape or (len(rays) == 1 and got.shape == a.shape[1:]), lambda: '%s(int list) has shape %r' % (name, got.shape))
            close(np.abs(got.reshape(a.shape) - a).max(), 1e-11 * S.amp * sc, 'intpos', lambda: '%s differs between integer-typed and float positions %r' % (name, rays.tolist()))
            labels.add('int_positions')
    labels.add('ptlist' if pl else 'ptarray')
    return labels


# ----------------------------------------------------------------------------- clause: kinematics

_lam = st.sampled_from([2.0, 0.5, 3.7, 0.31, 10.0])


@st.composite
def kin_cases(draw):
    return {'prob': draw(_prob_any), 'pts': draw(g.local_points(1, 3)), 'lam': draw(_lam), 'ptlist': draw(_bool)}


def fd_tols(S, loc):
    """relative tolerances (factor on the field's own scale) of the two finite-difference comparisons at a point.
    Fields are sums over a of D_a F(eta_a), eta_a = pos.(m + p_a n) = pos.c_a, F = log (displacement), 1/eta (stress).
    With g = max_a |c_a| r / |eta_a| (geom) every derivative along a real direction costs a factor <= g / r.
    4th-order central stencil, step h = H_REL r:
      truncation  (h^4 / 30) |d^5 f|.  F = log: d^5 = 24 (c/eta)^5, first derivative c/eta: ratio 0.8 (h/r)^4 g^4;
                  F = 1/eta: d^5 = 120 c^5/eta^6, first derivative c/eta^2: ratio 4 (h/r)^4 g^4.  Both are taken
                  10 g times larger for terms that cancel in the first derivative but not in the fifth.
      rounding    1.5 eps max|f| / h (stencil weights 18/12); max|f| <~ 10 x (first-derivative scale) x r  (|log r| <= 3.8,
                  pi) gives 1.5 * 2.2e-16 * 10 / H_REL = 3.3e-11 of the first-derivative scale for well separated roots,
                  times (1 + 1/gap) for the cancellation between nearly parallel eigenvectors.
    TOL_ROUND = 1e-7 (strain) and 1e-6 (divergence, the DESIGN value is 1e-5) leave a factor >= 1000 over the estimate;
    calibration (largest observed error/tolerance) is recorded in mutants/C12/RESULTS.txt."""
    r, gg = geom(S, loc)
    trunc_u = 10.0 * gg * 0.8 * H_REL ** 4 * gg ** 4
    trunc_s = 10.0 * gg * 4.0 * H_REL ** 4 * gg ** 4
    return r, gg, TOL_ROUND * S.amp + trunc_u, 10 * TOL_ROUND * S.amp + trunc_s


def oracle_kinematics(case):
    prob = case['prob']
    S, sol, labels, judge = begin(prob)
    if not judge:
        return labels
    Cg = check_header(sol, S, prob)
    C4 = el.voigt_to_tensor(Cg)
    pl = case['ptlist']
    P = positions(S, case['pts'])
    lam = case['lam']
    E = field(sol, 'strain', P, pl)
    Sg = field(sol, 'stress', P, pl)
    E2 = field(sol, 'strain', P * lam, pl)
    S2 = field(sol, 'stress', P * lam, pl)
    for i, loc in enumerate(case['pts']):
        x = P[i]
        r, gg, tol_u, tol_s = fd_tols(S, loc)
        escale = max(float(np.abs(E[i]).max()), S.bn / (2 * math.pi * r))
        sscale = float(np.abs(Sg[i]).max())
        require(sscale > 0, lambda: 'stress vanishes identically at local point %r' % (loc,))
        # symmetric tensors
        close(np.abs(E[i] - E[i].T).max(), 1e-12 * S.amp * escale, 'sym_e', lambda: 'strain not symmetric at %r: %r' % (loc, E[i]))
        close(np.abs(Sg[i] - Sg[i].T).max(), 1e-12 * S.amp * sscale, 'sym_s', lambda: 'stress not symmetric at %r: %r' % (loc, Sg[i]))
        # strain = symmetric gradient of the displacement (4th-order differences, 12 points in one array call)
        G, umax = vr.fd_gradient(lambda q: field(sol, 'displacement', q), x, H_REL * r)
        Efd = (G + G.T) / 2
        close(np.abs(Efd - E[i]).max(), tol_u * escale, 'fd_strain',
              lambda: 'strain at local point %r is not the symmetric gradient of the displacement:\nstrain\n%r\nsym grad u\n%r' % (loc, E[i], Efd))
        # Hooke: stress = C : strain with the medium the solution reports (already compared with my rotated tensor)
        hooke = np.einsum('ijkl,kl->ij', C4, E[i])
        close(np.abs(hooke - Sg[i]).max(), TOL_HOOKE * S.amp * S.cmax * 9 * escale, 'hooke',
              lambda: 'stress at %r is not C:strain:\nstress\n%r\nC:strain\n%r' % (loc, Sg[i], hooke))
        # equilibrium: divergence of the stress vanishes
        Gs, smax = vr.fd_gradient(lambda q: field(sol, 'stress', q), x, H_REL * r)
        div = np.einsum('ijj->i', Gs)
        close(np.abs(div).max(), tol_s * sscale / r * gg, 'fd_div',
              lambda: 'div(stress) at local point %r = %r (|stress| %.3g, r %.3g)' % (loc, div, sscale, r))
        # homogeneity of degree -1
        close(np.abs(E2[i] * lam - E[i]).max(), TOL_SCALE * S.amp * gg * escale, 'scale_e', lambda: 'strain(%g x) != strain(x)/%g at %r' % (lam, lam, loc))
        close(np.abs(S2[i] * lam - Sg[i]).max(), TOL_SCALE * S.amp * gg * sscale, 'scale_s', lambda: 'stress(%g x) != stress(x)/%g at %r' % (lam, lam, loc))
        if loc[0] == 0.0 or loc[1] == 0.0:
            labels.add('pt_on_axis')
        if gg > 5:
            labels.add('g>5')
    labels.add('ptlist' if pl else 'ptarray')
    labels.add('npts%d' % len(case['pts']))
    return labels


# ----------------------------------------------------------------------------- clause: energy

_xs = st.lists(st.one_of(gens.nice(0.3, 30.0, 3), st.sampled_from([1.0, 2.0])), min_size=1, max_size=2)


@st.composite
def energy_cases(draw):
    return {'prob': draw(_prob_any), 'xs': draw(_xs), 'z': draw(_cutz), 'resolve': draw(_bool)}


def barnett_lothe_K(S, C4=None):
    """K = -(1/pi) int_0^pi [ (m n)(n n)^-1 (n m) - (m m) ](theta) d theta with (a b)_jk = a_i C_ijkl b_l and the pair (m, n)
    rotated by theta about xi (Barnett & Lothe 1973; Bacon, Barnett & Scattergood 1979 eq. 3.139 ff).  The integrand is
    pi-periodic and analytic: the midpoint rule converges like exp(-2 N |Im theta_0|), theta_0 = arctan(-1/p) the nearest
    pole.  N is chosen for exp(-40)."""
    im = min(abs(np.arctan(-1.0 / complex(p)).imag) for p in S.roots)
    N = int(min(8192, max(64, math.ceil(20.0 / im))))
    th = (np.arange(N) + 0.5) * math.pi / N
    mt = np.cos(th)[:, None] * S.m + np.sin(th)[:, None] * S.n
    nt = -np.sin(th)[:, None] * S.m + np.cos(th)[:, None] * S.n
    C4 = S.C4s if C4 is None else C4
    mm = np.einsum('ni,ijkl,nl->njk', mt, C4, mt)
    mn = np.einsum('ni,ijkl,nl->njk', mt, C4, nt)
    nn = np.einsum('ni,ijkl,nl->njk', nt, C4, nt)
    N3 = mn @ np.linalg.inv(nn) @ np.transpose(mn, (0, 2, 1)) - mm
    return -N3.mean(axis=0), (N * im >= 19.9)


def oracle_energy(case):
    prob = case['prob']
    S, sol, labels, judge = begin(prob)
    if not judge:
        return labels
    Cg = check_header(sol, S, prob)
    K = np.asarray(sol.K_tensor)
    require(K.shape == (3, 3) and K.dtype.kind == 'f' and bool(np.all(np.isfinite(K))), lambda: 'K_tensor is not a real finite 3x3 array: %r' % (K,))
    kmax = float(np.abs(K).max())
    close(np.abs(K - K.T).max(), 1e-10 * S.amp * kmax, 'K_sym', lambda: 'K_tensor not symmetric: %r' % (K,))
    w = np.linalg.eigvalsh((K + K.T) / 2)
    require(w[0] > 0, lambda: 'K_tensor not positive definite: eigenvalues %r' % (w,))
    # independent value of the tensor: angular integral over the medium (no eigenvectors, valid for degenerate roots too)
    # A medium with entries between rounding noise and 1e-7 of the largest (crystal rotated by 1e-6 degrees, ...) is solved
    # with those entries zeroed or not (ElasticConstants.transform, tol = 1e-8): up to 1e-8 max|C| per entry, which K
    # amplifies by the anisotropy (unchanged tree: cubic, Zener ratio 24, rotated by 1e-6 degrees, line along [111]:
    # 4.4e-8 against my medium, 2.6e-15 against the reported one; replay C12-energy-4 of the fix round).  The integral is
    # then taken over the medium the solution reports, which check_header has tied to mine within TOL_C.
    floor = (not S.iso) and (_floor_band(S.C6) or _floor_band(S.C6s))
    Kref, converged = barnett_lothe_K(S, el.voigt_to_tensor(Cg) if floor else None)
    if floor:
        labels.add('BL_reported_medium')
    if converged:
        close(np.abs(K - Kref).max(), (TOL_K + 1e-10 * S.amp) * float(np.abs(Kref).max()), 'K_BL',
              lambda: 'K_tensor\n%r\nagainst the Barnett-Lothe integral of the medium\n%r' % (K, Kref))
        labels.add('BL')
    if S.iso:
        Ke, Ks = S.mu / (1 - S.nu), S.mu
        Kiso = Ke * (np.outer(S.m, S.m) + np.outer(S.n, S.n)) + Ks * np.outer(S.xi, S.xi)
        close(np.abs(K - Kiso).max(), TOL_K * Ke, 'K_iso', lambda: 'K_tensor\n%r\nagainst mu/(1-nu) (mm + nn) + mu xixi\n%r' % (K, Kiso))
    # scalar coefficients
    bKb = float(S.b @ K @ S.b)
    kc, pre = float(sol.K_coeff), float(sol.preln)
    close(abs(kc - bKb / S.bn ** 2), 1e-7 * kmax, 'K_coeff', lambda: 'K_coeff = %r, b.K.b/b.b = %r' % (kc, bKb / S.bn ** 2))
    close(abs(pre - bKb / (4 * math.pi)), 1e-7 * kmax * S.bn ** 2, 'preln', lambda: 'preln = %r, b.K.b/4pi = %r' % (pre, bKb / (4 * math.pi)))
    require(kc > 0 and pre > 0, lambda: 'K_coeff %r / preln %r not positive' % (kc, pre))
    # traction on the slip plane ahead of the line: sigma(x m) . n = K b / (2 pi x)  (the work done against it when the cut
    # is displaced by b is the prelogarithmic energy b.K.b/4pi per ln R)
    for x in case['xs']:
        pos = x * S.m + case['z'] * S.xi
        sg = field(sol, 'stress', pos)
        tr = sg @ S.n
        exp = K @ S.b / (2 * math.pi * x)
        close(np.abs(tr - exp).max(), (1e-7 + 1e-10 * S.amp) * kmax * S.bn / (2 * math.pi * x), 'traction',
              lambda: 'traction on the slip plane at x = %g: %r, K.b/(2 pi x) = %r' % (x, tr, exp))
    # the same object solved again for the medium 2 C and the Burgers vector -1.5 b: everything is linear in b, the stress
    # and K also in C (the zeroing floors are relative, so they do not interfere); nothing of the first solution may survive
    if case.get('resolve') and prob['solver'] != 'auto':
        import atomman as am
        pos = np.array([x * S.m + case['z'] * S.xi for x in case['xs']] + [S.n * case['xs'][0] - 0.5 * S.m])
        before = {nm: field(sol, nm, pos) for nm in ('displacement', 'strain', 'stress')}
        b, kw = solver_args(prob, S)
        try:
            sol.solve(am.ElasticConstants(Cij=2.0 * S.C6), (-1.5 * np.asarray(b, dtype=float)).tolist() if prob['aslist'] else -1.5 * np.asarray(b, dtype=float), **kw)
        except ValueError as e:
            # a borderline near-degenerate problem can pass the solver's self-checks for C and fail them for 2 C
            if str(e) in STROH_REFUSALS and not S.iso and S.gap < GAP_REFUSAL:
                labels.add('resolve_refused')
                return labels
            if str(e) == ISO_REFUSAL and S.iso and S.dev > BAND_LO:        # at the edge of the band (2 C: same deviation)
                labels.add('resolve_refused')
                return labels
            raise
        K2 = np.asarray(sol.K_tensor, dtype=float)
        close(np.abs(K2 - 2 * K).max(), 1e-9 * S.amp * kmax, 'resolve_K', lambda: 'after solve(2 C, -1.5 b) on the same object K_tensor is\n%r\nexpected twice\n%r' % (K2, K))
        for nm, f in (('displacement', -1.5), ('strain', -1.5), ('stress', -3.0)):
            got = field(sol, nm, pos)
            sc = S.bn if nm == 'displacement' else float(np.abs(before[nm]).max())
            close(np.abs(got - f * before[nm]).max(), 1e-9 * S.amp * sc * abs(f), 'resolve_' + nm,
                  lambda: 'after solve(2 C, -1.5 b) on the same object %s is not %g times the first solution' % (nm, f))
        close(abs(float(sol.preln) - 4.5 * pre), 1e-7 * kmax * S.bn ** 2 * 4.5, 'resolve_pre', lambda: 'preln after solve(2 C, -1.5 b): %r, expected %r' % (sol.preln, 4.5 * pre))
        labels.add('resolved')
    return labels


# ----------------------------------------------------------------------------- clause: covariance

_prob_cov = g.problems()
_rot = g11.rot_specs()
_qc = st.integers(0, 23)


@st.composite
def cov_cases(draw):
    return {'prob': draw(_prob_cov), 'Q': draw(_rot), 'R': draw(_rot), 'Qc': draw(_qc), 'pts': draw(g.local_points(2, 4))}


def _cubic_group():
    """the 24 proper rotations that map the Cartesian axes onto each other (signed permutation matrices, exact)"""
    out = []
    for p in ((0, 1, 2), (1, 2, 0), (2, 0, 1), (0, 2, 1), (2, 1, 0), (1, 0, 2)):
        for sx in (1.0, -1.0):
            for sy in (1.0, -1.0):
                for sz in (1.0, -1.0):
                    M = np.zeros((3, 3))
                    for i, sg in enumerate((sx, sy, sz)):
                        M[i, p[i]] = sg
                    if np.linalg.det(M) > 0:
                        out.append(M)
    return out


CUBIC_GROUP = _cubic_group()


def _floor_band(C6):
    a = np.abs(C6)
    return bool(np.any((a > 1e-13 * a.max()) & (a < 1e-7 * a.max())))


def oracle_covariance(case):
    prob = case['prob']
    S, sol, labels, judge = begin(prob)
    if not judge:
        return labels
    check_header(sol, S, prob)
    solver = 'iso' if S.iso else 'stroh'
    P = positions(S, case['pts'])
    base = {nm: field(sol, nm, P) for nm in ('displacement', 'strain', 'stress')}
    K = np.asarray(sol.K_tensor, dtype=float)
    cond = float(np.linalg.cond(S.C6))

    def compare(other, R, what, band):
        tol = TOL_COV * S.amp + (2e-7 * cond if band else 0.0)
        sfx = '_band' if band else ''
        PR = P @ R.T
        u = field(other, 'displacement', PR)
        # the displacement is defined up to the constant the branch of the logarithm fixes; it is covariant too
        close(np.abs(u - base['displacement'] @ R.T).max(), tol * 10 * S.bn, 'cov_u' + sfx, lambda: '%s: displacement is not R u(R^t x)' % what)
        for nm in ('strain', 'stress'):
            f = field(other, nm, PR)
            exp = np.einsum('ia,nab,jb->nij', R, base[nm], R)
            close(np.abs(f - exp).max(), tol * float(np.abs(exp).max()), 'cov_' + nm + sfx, lambda: '%s: %s is not R %s R^t' % (what, nm, nm))
        K2 = np.asarray(other.K_tensor, dtype=float)
        close(np.abs(K2 - R @ K @ R.T).max(), (1.5e-7 + tol) * float(np.abs(K).max()), 'cov_K' + sfx, lambda: '%s: K_tensor is not R K R^t' % what)
        close(abs(float(other.K_coeff) - float(sol.K_coeff)), (1.5e-7 + tol) * float(np.abs(K).max()), 'cov_Kc', lambda: '%s: K_coeff changed' % what)
        close(abs(float(other.preln) - float(sol.preln)), (1.5e-7 + tol) * float(np.abs(K).max()) * S.bn ** 2, 'cov_pre', lambda: '%s: preln changed' % what)

    # (a) rotate the crystal by Q and the laboratory by R:  C' = Q.C, b' = Q b, transform' = R T Q^t, m' = R m, n' = R n
    Q, R = el.rotation_matrix(*case['Q']), el.rotation_matrix(*case['R'])
    if S.iso and not S.exact:
        # the closed-form class on a nearly isotropic crystal: its acceptance test wants the entries that vanish for an
        # isotropic medium to vanish exactly (atol = 0), so the crystal expressed in generally rotated axes is outside the
        # accepted domain; the rotations of the crystal that stay inside are the 24 that permute the axes.  The orientation of
        # the crystal relative to the dislocation (transform' = R T Q^t) is general all the same.
        Q = CUBIC_GROUP[case.get('Qc', 0)]
        labels.add('Q_axis_permutation')
    C6q = el.rotate_voigt(S.C6, Q)
    C6q = (C6q + C6q.T) / 2
    m2, n2 = R @ S.m, R @ S.n
    m2 = m2 / np.linalg.norm(m2)
    n2 = n2 - m2 * (m2 @ n2)
    n2 = n2 / np.linalg.norm(n2)
    other = call_solver(solver, C6q, Q @ S.b_cart, {'transform': R @ S.T @ Q.T, 'm': m2, 'n': n2}, S.exact, None if S.iso else S.gap, S.dev)
    if other is None:
        labels.add('rotated_refused')
    else:
        # entries between rounding noise and 1e-7 of the largest may be zeroed (tol = 1e-8) in one problem and kept in the
        # other: crystal tensor, rotated crystal tensor, and both solution-frame tensors
        band = _floor_band(C6q) or _floor_band(S.C6s) or _floor_band(S.C6) or _floor_band(el.rotate_voigt(S.C6s, R))
        # the same for Burgers-vector components below 1e-8 of the largest (fields are linear in b; a component's field
        # can exceed the main one's by the anisotropy of K, hence the same cond-scaled allowance)
        band = band or _floor_band(S.b) or _floor_band(R @ S.b)
        compare(other, R, 'crystal rotated by Q, laboratory by R', band)
        labels.add('rotated')
        if el.rotation_angle_deg(R) > 5 and el.rotation_angle_deg(Q) > 5:
            labels.add('both_generic')
        if S.iso and not S.exact:
            labels.add('rotated_neariso')
    # (b) orientation by Miller indices = orientation by the corresponding transform with a Cartesian Burgers vector
    if prob['orient']['kind'] == 'miller':
        _, kw = solver_args(prob, S)
        kw2 = {k: v for k, v in kw.items() if k in ('m', 'n')}
        kw2['transform'] = S.T
        other = call_solver(solver, S.C6, S.b_cart, kw2, S.exact, None if S.iso else S.gap, S.dev)
        if other is None and not S.iso:
            # Stroh with nearly coincident roots (call_solver has verified gap < GAP_REFUSAL; nearly isotropic media answered
            # by the dispatcher's Stroh attempt are the typical member): the self-checks sit on their threshold and the two
            # spellings differ by rounding in transform (seen on the unchanged tree: hexagonal medium, gap 1.7e-3,
            # replay C12-covariance-7) - a refusal the ASSUMPTIONS count and do not judge
            labels.add('miller_vs_transform_refused')
            return labels
        require(other is not None, 'the problem is accepted with Miller indices but refused with the corresponding transform')
        compare(other, np.eye(3), 'Miller indices replaced by the corresponding transform', _floor_band(S.C6s) or _floor_band(S.b))
        labels.add('miller_vs_transform')
    return labels


# ----------------------------------------------------------------------------- clause: decades

def _rel(a, b, sc):
    """largest |a - b| per leading index, divided by that index's own scale"""
    a, b = np.asarray(a, dtype=float), np.asarray(b, dtype=float)
    d = np.abs(a - b).reshape(len(a), -1).max(axis=1)
    return d / np.asarray(sc, dtype=float)


def oracle_decades(case):
    """ONE call of every field for an array of points whose distances from the line span up to 12 decades (times an overall
    length unit): every comparison is made point by point, relative to that point's own magnitude - a point in the far field
    is judged as strictly as one next to the core"""
    prob = case['prob']
    S, sol, labels, judge = begin(prob)
    pts = g.decade_points(case)
    rs = np.array([e[2] for e in pts])
    span = math.log10(rs.max() / rs.min())
    labels.add('span>=8' if span >= 8 else 'span4..8' if span >= 4 else 'span<4')
    labels.add('lscale' if case['lk'] else 'lscale0')
    if case['lk'] == -10:
        labels.add('lscale_SI')
    if prob.get('bscaled'):
        labels.add('b_scaled')
    tol = prob.get('tol')
    labels.add('tol_default' if tol is None else 'tol_%g' % tol)
    if tol is not None and tol > 1e-8:
        labels.add('tol_loose')
    if not judge:
        if tol is not None and tol < 1e-8 and 'refusal' in labels:
            labels.add('refusal_tight_tol')
        return labels
    check_header(sol, S, prob)
    if S.bslack:
        labels.discard('nt')
        labels.add('b_component_on_tol_threshold')         # zeroed or kept: either is what "below tol" allows
        return labels
    if S.tol > 1e-8 and not S.iso and S.gap < 0.05:
        # a looser tol lets the self-checks pass closer to a degenerate eigenproblem than the (1 + 1/gap) model of the
        # tolerances was established for (unchanged tree, default tol: accepted problems reach gap 1.3e-3): header only
        labels.discard('nt')
        labels.add('loose_tol_near_degenerate')
        return labels
    pl = case['ptlist']
    loc = np.array([e[3] for e in pts])
    P = positions(S, loc)
    n = len(P)
    Cg = np.asarray(sol.C.Cij, dtype=float)
    C4 = el.voigt_to_tensor(Cg)
    # ---- every field: ONE call for the whole array, and one call per point
    arr, one = {}, {}
    Pin = P.copy()
    for name in ('displacement', 'strain', 'stress'):
        arr[name] = field(sol, name, Pin, pl)
        one[name] = np.array([field(sol, name, P[i], pl) for i in range(n)])
    require(np.array_equal(Pin, P), 'the position array was modified by the evaluation')
    gs = np.array([geom(S, l)[1] for l in loc])
    # per-point scales: the point's own field magnitude (never below the bare b / 2 pi r for the strain)
    esc = np.maximum(np.abs(one['strain']).reshape(n, -1).max(axis=1), S.bn / (2 * math.pi * rs))
    ssc = np.abs(one['stress']).reshape(n, -1).max(axis=1)
    require(bool(np.all(ssc > 0)), lambda: 'stress vanishes identically at r = %r' % (rs[ssc <= 0].tolist(),))
    # |u| <~ |b| |log eta| / 2 pi, |log eta| <= |ln r| + pi
    usc = S.bn * (1.0 + np.abs(np.log(rs)))
    for name, sc in (('displacement', usc), ('strain', esc), ('stress', ssc)):
        e = _rel(arr[name], one[name], sc)
        i = int(np.argmax(e))
        close(e[i], 1e-11 * S.amp, 'dec_single_' + name,
              lambda: '%s: array call over r = %.3g .. %.3g differs from the single-point call at r = %.3g (relative to that point\'s own magnitude)'
              % (name, rs.min(), rs.max(), rs[i]))
    E, Sg, U = arr['strain'], arr['stress'], arr['displacement']
    # ---- Hooke's law, point by point
    hooke = np.einsum('ijkl,nkl->nij', C4, E)
    e = _rel(Sg, hooke, 9 * S.cmax * esc)
    i = int(np.argmax(e))
    close(e[i], TOL_HOOKE * S.amp, 'dec_hooke', lambda: 'stress at r = %.3g (array over r = %.3g .. %.3g) is not C:strain:\nstress\n%r\nC:strain\n%r'
          % (rs[i], rs.min(), rs.max(), Sg[i], hooke[i]))
    for name, F, sc in (('strain', E, esc), ('stress', Sg, ssc)):
        e = _rel(F, np.transpose(F, (0, 2, 1)), sc)
        close(e.max(), 1e-12 * S.amp, 'dec_sym_' + name, lambda: '%s not symmetric' % name)
    # ---- 1/r along every ray: r F(r d) is the same tensor for all r; u(r d) - u(r0 d) = ln(r / r0) w with ONE vector w
    rays = {}
    for idx, (i, j, r, l) in enumerate(pts):
        rays.setdefault(j, []).append(idx)
    w_all = []
    for j, ids in sorted(rays.items()):
        i0 = ids[0]
        for name, F, sc in (('strain', E, esc), ('stress', Sg, ssc)):
            for i in ids[1:]:
                err = float(np.abs(F[i] * rs[i] - F[i0] * rs[i0]).max()) / (sc[i] * rs[i])
                close(err, TOL_SCALE * S.amp * gs[i], 'dec_scale_' + name,
                      lambda: '%s does not fall off as 1/r along a ray: r = %.3g against r = %.3g (one array call)\n%r\n%r'
                      % (name, rs[i], rs[i0], F[i] * rs[i], F[i0] * rs[i0]))
        for i in ids[1:]:
            lr = math.log(rs[i] / rs[i0])
            if abs(lr) >= 0.69:
                w_all.append((i, i0, (U[i] - U[i0]) / lr, gs[i] * (usc[i] + usc[i0]) / abs(lr)))
    for (i, i0, w, amp_w) in w_all[1:]:
        close(np.abs(w - w_all[0][2]).max(), 1e-11 * S.amp * (amp_w + w_all[0][3]), 'dec_log',
              lambda: 'displacement: [u(r d) - u(r0 d)] / ln(r / r0) = %r for r = %.3g, r0 = %.3g, but %r for r = %.3g, r0 = %.3g'
              % (w, rs[i], rs[i0], w_all[0][2], rs[w_all[0][0]], rs[w_all[0][1]]))
    if len(w_all) >= 2:
        labels.add('log_law')
    # ---- isotropic class: the textbook closed forms at every point
    if S.iso:
        ref = vr.iso_reference(S.mu, S.nu, float(S.b @ S.m), float(S.b @ S.xi), S.m, S.n, S.xi, P)
        for name, sc in (('strain', esc), ('stress', ssc)):
            e = _rel(arr[name], ref[name], sc)
            i = int(np.argmax(e))
            close(e[i], 1e-11, 'dec_iso_' + name, lambda: '%s at r = %.3g differs from the Hirth-Lothe closed form' % (name, rs[i]))
        d = U - ref['disp']
        close(np.abs(d - d[0]).max(), 1e-11 * (usc.max()), 'dec_iso_disp', 'displacement differs from the Hirth-Lothe closed form by more than a constant')
        labels.add('closed_form')
    # ---- elasticity itself at one of the points (same comparisons and tolerances as the kinematics clause)
    k = case['fd'] % n
    x, r = P[k], rs[k]
    _, gg, tol_u, tol_s = fd_tols(S, loc[k])
    G, _ = vr.fd_gradient(lambda q: field(sol, 'displacement', q), x, H_REL * r)
    Efd = (G + G.T) / 2
    close(np.abs(Efd - E[k]).max(), tol_u * esc[k], 'dec_fd_strain',
          lambda: 'strain at r = %.3g is not the symmetric gradient of the displacement:\nstrain\n%r\nsym grad u\n%r' % (r, E[k], Efd))
    Gs, _ = vr.fd_gradient(lambda q: field(sol, 'stress', q), x, H_REL * r)
    div = np.einsum('ijj->i', Gs)
    close(np.abs(div).max(), tol_s * ssc[k] / r * gg, 'dec_fd_div', lambda: 'div(stress) at r = %.3g = %r (|stress| %.3g)' % (r, div, ssc[k]))
    labels.add('fd_far' if r >= 1e3 * g.pow10(case['lk']) else 'fd_near' if r <= 1e-3 * g.pow10(case['lk']) else 'fd_mid')
    # ---- Burgers vector = jump across the cut at the smallest and at the largest radius
    for r in (rs.min(), rs.max()):
        p0 = -r * S.m
        up = field(sol, 'displacement', p0 + DELTA * r * S.n, pl)
        um = field(sol, 'displacement', p0 - DELTA * r * S.n, pl)
        close(np.abs(up - um - S.b).max(), TOL_JUMP * S.bn, 'dec_jump', lambda: 'u(x=-%g, y=0+) - u(x=-%g, y=0-) = %r, Burgers vector %r' % (r, r, up - um, S.b))
    labels.add('ptlist' if pl else 'ptarray')
    labels.add('npts>=6' if n >= 6 else 'npts<6')
    return labels


# ----------------------------------------------------------------------------- clause: history

ARGS = ('b', 'm', 'n', 'T', 'uvw', 'hkl')                    # array-valued arguments, in the order of case['forms']
FORM_NAMES = ('f8', 'strided', 'fortran_or_reversed', 'readonly', 'list', 'tuple')
HIST_KEY_MN = 'C12:history:m-n-array-argument-aliased'


def as_form(a, form, integer=False):
    """the values a in one of the documented array-like forms (see gens_c12, caller-side histories)"""
    a = np.array(a, dtype=int if integer else float)
    if form == 0:
        return a.copy()
    if form == 1:
        if a.ndim == 1:
            v = np.zeros(2 * len(a) + 1, dtype=a.dtype)[1::2]
        else:
            v = np.zeros((a.shape[0], 2 * a.shape[1]), dtype=a.dtype)[:, ::2]
        v[...] = a
        return v
    if form == 2:
        if a.ndim == 1:
            v = np.zeros(len(a), dtype=a.dtype)[::-1]
            v[...] = a
            return v
        return np.asfortranarray(a)
    if form == 3:
        a = a.copy()
        a.setflags(write=False)
        return a
    if form == 4:
        return a.tolist()
    return tuple(tuple(r) for r in a.tolist()) if a.ndim == 2 else tuple(a.tolist())


def overwrite(obj, new):
    """the caller overwrites its own array / list in place; False when the object is immutable (tuple, read-only array, str)"""
    if isinstance(obj, np.ndarray):
        if not obj.flags.writeable:
            return False
        obj[...] = new
        return True
    if isinstance(obj, list):
        new = np.asarray(new).tolist()
        for i, v in enumerate(new):
            if isinstance(obj[i], list):
                obj[i][:] = v
            else:
                obj[i] = v
        return True
    return False


def _perm_voigt(C6, k):
    p = g._PERMS[k % 6]
    idx = [int(el.VI[p[i], p[j]]) for (i, j) in el.PAIRS]
    out = np.empty((6, 6))
    out[np.ix_(idx, idx)] = C6
    return out


def redefine_C(C, how, f, perm, C6, cmax):
    """the caller re-uses its ElasticConstants object for another medium, through one of the public ways of defining it"""
    new = f * _perm_voigt(C6, perm)
    a = f * cmax
    if how == 'Cij':
        C.Cij = new
    elif how == 'Cijkl':
        C.Cijkl = el.voigt_to_tensor(new)
    elif how == 'Sij':
        C.Sij = np.linalg.inv(new)
    elif how == 'Cij9':
        C.Cij9 = new[np.ix_([0, 1, 2, 3, 4, 5, 3, 4, 5], [0, 1, 2, 3, 4, 5, 3, 4, 5])]
    elif how == 'Sijkl':
        C.Sijkl = el.compliance_voigt_to_tensor(np.linalg.inv(new))
    elif how == 'cubic':
        C.cubic(C11=a, C12=0.45 * a, C44=0.3 * a)
    elif how == 'isotropic':
        C.isotropic(E=a, nu=0.29)
    elif how == 'hexagonal':
        C.hexagonal(C11=a, C33=1.1 * a, C12=0.4 * a, C13=0.35 * a, C44=0.25 * a)
    elif how == 'orthorhombic':
        C.orthorhombic(C11=a, C22=1.2 * a, C33=0.9 * a, C12=0.4 * a, C13=0.35 * a, C23=0.3 * a, C44=0.25 * a, C55=0.2 * a, C66=0.3 * a)
    else:
        raise KeyError(how)


def redefine_box(box, how, f, V):
    W = f * np.roll(V, 1, axis=1)[[1, 2, 0]]                 # another right-handed cell
    if how == 'vects':
        box.vects = W
    elif how == 'set_vectors':
        box.set_vectors(avect=W[0], bvect=W[1], cvect=W[2])
    elif how == 'set_abc':
        box.set_abc(a=3.1 * f, b=4.2 * f, c=5.3 * f, alpha=80.0, beta=95.0, gamma=107.0)
    elif how == 'set_lengths':
        box.set_lengths(lx=3.1 * f, ly=4.2 * f, lz=5.3 * f, xy=0.4 * f, xz=-0.3 * f, yz=0.7 * f)
    elif how == 'origin':
        box.origin = [1.5 * f, -2.0, 0.25]
    else:
        raise KeyError(how)


def read_outputs(sol, P, seed):
    """every output of a solution, read in an order fixed by seed.  Returns {name: (object returned, float/complex copy)}"""
    names = ['m', 'n', 'ξ', 'transform', 'burgers', 'C', 'tol', 'K_tensor', 'K_coeff', 'preln', 'characterangle',
             'displacement', 'strain', 'stress', 'stress_single']
    names += ['mu', 'nu'] if type(sol).__name__ == 'IsotropicVolterraDislocation' else ['p', 'A', 'L', 'k']
    order = np.random.default_rng(seed).permutation(len(names))
    out = {}
    for i in order:
        nm = names[int(i)]
        if nm in ('displacement', 'strain', 'stress'):
            raw = getattr(sol, nm)(P)
        elif nm == 'stress_single':
            raw = sol.stress(P[-1])
        elif nm == 'characterangle':
            raw = sol.characterangle()
        elif nm == 'C':
            raw = sol.C.Cij
        else:
            raw = getattr(sol, nm)
        out[nm] = (raw, np.array(raw).copy())
    return out


def same_outputs(base, now, what):
    for nm in sorted(base):
        a, b = base[nm][1], now[nm][1]
        require(a.shape == b.shape and a.dtype.kind == b.dtype.kind, lambda: '%s: %s changed shape / type: %r %s -> %r %s' % (what, nm, a.shape, a.dtype, b.shape, b.dtype))
        sc = float(np.abs(a).max()) if a.size else 0.0
        d = float(np.abs(a - b).max()) if a.size else 0.0
        require(d <= 1e-13 * sc, lambda: '%s: output %s of the solution changed by %.3g (relative %.3g)\nbefore\n%r\nnow\n%r'
                % (what, nm, d, d / sc if sc else float('inf'), a, b))


def oracle_history(case):
    """the solution is a value: nothing the caller does afterwards with the objects it handed over, and nothing that is done
    with the solution (evaluating it, reading it in any order, building other solutions), changes any of its outputs; and
    solving / evaluating leaves the caller's objects as they were"""
    import atomman as am
    from atomman.defect import Stroh, IsotropicVolterraDislocation, solve_volterra_dislocation
    prob = case['prob']
    S = setup(prob)
    labels = g.labels_of(prob)
    forms = dict(zip(ARGS, case['forms']))
    b0, kw = solver_args(prob, S)
    # ---- the caller's objects
    C = am.ElasticConstants(Cij=np.array(S.C6, dtype=float))
    held = {'b': as_form(b0, forms['b'])}
    for key, arg in (('m', 'm'), ('n', 'n')):
        if arg in kw and not isinstance(kw[arg], str):
            held[key] = kw[arg] = as_form(kw[arg], forms[key])
    for arg in ('transform', 'axes'):
        if arg in kw:
            held['T'] = kw[arg] = as_form(kw[arg], forms['T'])
    if 'ξ_uvw' in kw:
        held['uvw'] = kw['ξ_uvw'] = as_form(kw['ξ_uvw'], forms['uvw'], integer=True)
        held['hkl'] = kw['slip_hkl'] = as_form(kw['slip_hkl'], forms['hkl'], integer=True)
    box = kw.get('box')
    for key in held:
        labels.add('form_%s' % FORM_NAMES[forms[key]])
    ident = bool(np.array_equal(S.T, np.eye(3)))
    if ident:
        labels.add('identity_orientation')

    def snapshot():
        sn = {key: np.array(v).copy() for key, v in held.items()}
        sn['C'] = np.array(C.Cij)
        if box is not None:
            sn['box'] = np.vstack([box.vects, box.origin])
        return sn

    def untouched(sn, when):
        now = snapshot()
        for key in sorted(sn):
            require(sn[key].shape == now[key].shape and np.array_equal(sn[key], now[key]),
                    lambda: '%s changed the caller\'s %s:\nbefore\n%r\nafter\n%r' % (when, key, sn[key], now[key]))

    # ---- solve
    sn = snapshot()
    sol = call_solver(prob['solver'], S.C6, held['b'], kw, S.exact, None if S.iso else S.gap, S.dev, Cobj=C)
    untouched(sn, 'solving')
    if sol is None:
        labels.add('refusal')
        return labels
    labels.add('accepted')
    name = type(sol).__name__
    if prob['solver'] == 'auto' and not S.exact and name == 'IsotropicVolterraDislocation':
        require(S.dev <= BAND_HI, lambda: 'solve_volterra_dislocation returned the isotropic class for a medium whose constants are '
                '%.3g (relative) away from their isotropic average' % S.dev)
        to_iso_mode(S)
        labels.add('auto_fallback')
    labels.add('answer_' + name)
    # the answer is judged where the other clauses judge it (begin()): exact or accepted nearly isotropic media by the closed
    # form in the slip plane, Stroh away from isotropy; the invariance below holds for every answer
    judged = not (S.near and not S.iso) and not (S.iso and not S.exact and S.dev == g.BAND) and not ('auto_fallback' in labels and prob['bsol'][1] != 0.0)
    P = positions(S, case['pts'])
    Pin = P.copy()
    if judged:
        Cg = check_header(sol, S, prob)
        E = field(sol, 'strain', Pin)
        Sg = field(sol, 'stress', Pin)
        hooke = np.einsum('ijkl,nkl->nij', el.voigt_to_tensor(Cg), E)
        esc = max(float(np.abs(E).max()), S.bn / (2 * math.pi * min(math.hypot(l[0], l[1]) for l in case['pts'])))
        close(np.abs(hooke - Sg).max(), TOL_HOOKE * S.amp * S.cmax * 9 * esc, 'hist_hooke', 'stress is not C:strain (first evaluation)')
        K = np.asarray(sol.K_tensor, dtype=float)
        tr = field(sol, 'stress', 2.0 * S.m) @ S.n
        close(np.abs(tr - K @ S.b / (4 * math.pi)).max(), (1e-7 + 1e-10 * S.amp) * float(np.abs(K).max()) * S.bn / (4 * math.pi), 'hist_traction',
              'traction on the slip plane at x = 2 is not K.b/(2 pi x) (first evaluation)')
        labels.add('judged')
    base = read_outputs(sol, Pin, case['order'])
    untouched(sn, 'evaluating the solution')
    require(np.array_equal(Pin, P), 'the position array was modified by the evaluation')
    again = read_outputs(sol, Pin, case['order'] + 1)
    same_outputs(base, again, 'reading the outputs a second time, in another order')

    # ---- history
    fns = {'stroh': Stroh, 'iso': IsotropicVolterraDislocation, 'auto': solve_volterra_dislocation}
    pending = None
    applied = set()
    C6now = np.array(S.C6, dtype=float)
    for k, op in enumerate(case['ops']):
        kind = op['op']
        what = 'operation %d (%s)' % (k, jshort(op))
        labels.add('op_' + kind)
        if kind == 'C':
            redefine_C(C, op['how'], op['f'], op['perm'], C6now, S.cmax)
            C6now = np.array(C.Cij)
            applied.add('C')
            labels.add('C_via_' + op['how'])
            what += ': the caller re-defined the ElasticConstants object it had handed to the solver'
        elif kind == 'arr':
            keys = [a for a in ARGS + ('m', 'n') if a in held]
            kind = keys[op['which'] % len(keys)]
            labels.add('op_' + kind)
            obj = held[kind]
            old = np.array(obj).copy()
            if kind in ('m', 'n'):
                new = -old if op['f'] < 0 else np.roll(old, 1)
                if np.array_equal(new, old):
                    new = -old
            elif kind in ('uvw', 'hkl'):
                new = 2 * np.roll(old, 1)
            elif kind == 'T':
                new = op['f'] * np.roll(old, 1, axis=0)
            else:
                new = op['f'] * np.roll(old, 1)
            if not overwrite(obj, new):
                labels.add('op_on_immutable')
                continue
            applied.add(kind)
            what += ': the caller overwrote, in place, the %s it had handed to the solver as %s' % (kind, FORM_NAMES[forms[kind]])
            if kind in ('m', 'n') and isinstance(obj, np.ndarray):
                # unchanged tree: a float64 ndarray m / n IS the solution's m / n (numpy.asarray, no copy): known finding,
                # reported at the end of the case; the caller's array is put back so that the rest of the history is judged
                try:
                    same_outputs(base, read_outputs(sol, Pin, case['order'] + 2 + k), what)
                except Violation as e:
                    if np.shares_memory(obj, sol.m) or np.shares_memory(obj, sol.n):
                        pending = pending or Violation(e.detail if hasattr(e, 'detail') else str(e), key=HIST_KEY_MN)
                        overwrite(obj, old)
                        applied.discard(kind)
                        labels.add('mn_alias')
                    else:
                        raise
        elif kind == 'box':
            if box is None:
                labels.add('op_without_object')
                continue
            redefine_box(box, op['how'], op['f'], g.box_vects(prob['orient']['box']))
            applied.add('box')
            what += ': the caller re-defined the Box it had handed to the solver'
        elif kind == 'again':
            fn = fns[prob['solver'] if op['solver'] == 'same' else op['solver']]
            try:
                other = fn(C, held['b'], **kw)
                other.stress(Pin)
                labels.add('again_solved')
            except (ValueError, AssertionError):
                labels.add('again_refused')                 # the overwritten arguments need not be a valid problem
        elif kind == 'eval':
            Q = positions(S, op['pts'])
            for nm in ('displacement', 'strain', 'stress'):
                field(sol, nm, Q, op['ptlist'])
        elif kind == 'pos':
            # the caller re-uses its position array for other points (1.5 times as far from the line, shifted along it),
            # evaluates, and puts the first points back
            Pin[...] = positions(S, [[1.5 * l[0], 1.5 * l[1], l[2] + 1.0] for l in case['pts']])[::-1]
            for nm in ('displacement', 'strain', 'stress'):
                require(np.array_equal(np.array(base[nm][0]), base[nm][1]), lambda: '%s: the array returned by %s() earlier changed when the caller '
                        'overwrote the position array' % (what, nm))
                a, b = field(sol, nm, Pin), field(sol, nm, Pin.copy())
                require(np.array_equal(a, b), lambda: '%s: %s() of a position array that was overwritten in place differs from %s() of a fresh '
                        'array with the same values' % (what, nm, nm))
            Pin[...] = P
        elif kind == 'out':
            for nm in sorted(base):
                raw = base[nm][0]
                if isinstance(raw, np.ndarray) and nm not in ('m', 'n', 'ξ', 'transform', 'burgers') and raw.flags.writeable:
                    raw[...] = 0
            base = {nm: (v[1].copy(), v[1]) for nm, v in base.items()}
            what += ': the caller overwrote the arrays that the solution had returned (fields, K_tensor, p, A, L, k, C.Cij)'
        else:
            raise KeyError(kind)
        same_outputs(base, read_outputs(sol, Pin, case['order'] + 2 + k), 'after ' + what)
    for a in applied:
        labels.add('applied_' + a)
    if applied:
        labels.add('nt')
    if 'C' in applied and name == 'Stroh':
        labels.add('stroh_C_redefined')
        if ident:
            labels.add('identity_stroh_C_redefined')
    if pending is not None:
        raise pending
    return labels


def jshort(op):
    return ', '.join('%s=%r' % (k, v) for k, v in sorted(op.items()) if k != 'pts')


# ----------------------------------------------------------------------------- clause: iso_limit

_aniso = g11.tensors(isotropic_too=False)
_prob_iso = g.problems(solver='iso')


@st.composite
def limit_cases(draw):
    return {'prob': draw(_prob_iso), 'aniso': draw(_aniso), 'pts': draw(g.local_points(2, 5))}


def oracle_iso_limit(case):
    from atomman.defect import Stroh
    prob = case['prob']
    S = setup(prob)
    labels = g.labels_of(prob)
    b, kw = solver_args(prob, S)
    bs = prob['bsol']
    P = positions(S, case['pts'])
    ref = vr.iso_reference(S.mu, S.nu, bs[0], bs[2], S.m, S.n, S.xi, P)
    rmin = min(math.hypot(l[0], l[1]) for l in case['pts'])
    Ke = S.mu / (1 - S.nu)
    Kiso = Ke * (np.outer(S.m, S.m) + np.outer(S.n, S.n)) + S.mu * np.outer(S.xi, S.xi)
    scales = {'strain': float(np.abs(ref['strain']).max()), 'stress': float(np.abs(ref['stress']).max()),
              'disp': S.bn, 'K': Ke}

    def errors(sol):
        """relative distances of a solution from the textbook closed forms (displacement up to its additive constant)"""
        e = {}
        for nm in ('strain', 'stress'):
            e[nm] = float(np.abs(field(sol, nm, P) - ref[nm]).max()) / scales[nm]
        d = field(sol, 'displacement', P) - ref['disp']
        e['disp'] = float(np.abs(d - d[0]).max()) / S.bn
        e['K'] = float(np.abs(np.asarray(sol.K_tensor, dtype=float) - Kiso).max()) / Ke
        return e

    # the isotropic medium: the one drawn, or (nearly isotropic input) its Hill average, which is what the closed-form class
    # solves; isotropic, hence the same matrix in the crystal's and in the solution's frame
    Ciso = S.C6 if S.exact else S.C6s
    lmin = float(np.linalg.eigvalsh(Ciso)[0])
    if not S.exact and S.dev == g.BAND:
        labels.add('neariso_on_zeroing_floor')              # see begin()
        return labels
    # (a) the closed-form class and the dispatcher on the (exactly or nearly) isotropic medium
    for solver in ('iso', 'auto'):
        sol = call_solver(solver, S.C6, b, kw, S.exact, None, S.dev)
        p2 = dict(prob, solver=solver)
        if sol is None:
            labels.add('outside_band_refused_by_' + solver)
            continue
        if type(sol).__name__ == 'Stroh' and solver == 'auto' and not S.exact:
            # the dispatcher's Stroh attempt passed its self-checks: the answer is the anisotropic solution of the input
            # medium, at the distance t = |C - C_iso|_2 / lambda_min from the isotropic one: same bound as in (b), plus
            # the noise floor of the nearly defective eigenproblem stated there
            S2 = setup(p2)
            check_header(sol, S2, p2)
            t = float(np.linalg.norm(S.C6 - Ciso, 2)) / lmin
            for nm, v in errors(sol).items():
                close(v, B_LIMIT * t + 3e-5, 'near_' + nm, lambda: 'dispatcher (Stroh) on a medium %.3g from isotropy: %s is %.3g (relative) away from the isotropic closed form' % (t, nm, v))
            labels.add('auto_stroh_on_neariso')
            continue
        require(S.dev <= BAND_HI, lambda: '%s solver accepted a medium whose constants are %.3g (relative) away from their isotropic average' % (solver, S.dev))
        check_header(sol, S, p2)
        e = errors(sol)
        # rounding only: x, y, r^2 each to a few eps, amplified by r/rmin <= 150 in the displacement differences
        for nm, tol in (('strain', 1e-11), ('stress', 1e-11), ('disp', 1e-11), ('K', TOL_K)):
            close(e[nm], tol, 'iso_' + nm, lambda: '%s solver on the isotropic medium: %s differs from the Hirth-Lothe closed form (relative)' % (solver, nm))
        if not S.exact:
            labels.add('closed_form_on_neariso')
            labels.add('neariso_via_' + solver)
    # (b) Stroh on C_iso + t D, |D|_2 = lambda_min(C_iso): linear approach to the closed form
    Ca = g11.cij(case['aniso'])
    D = Ca / np.abs(Ca).max() * S.cmax - Ciso
    nD = float(np.linalg.norm(D, 2))
    if nD < 1e-3 * S.cmax:
        labels.add('perturbation_isotropic')
        return labels
    D = D / nD * lmin
    errs = {}
    for t in (1e-2, 1e-3):
        sol = call_solver('stroh', Ciso + t * D, b, kw, False)
        if sol is None:
            labels.add('refused_t=%g' % t)
            continue
        require(type(sol).__name__ == 'Stroh', 'Stroh() returned %s' % type(sol).__name__)
        errs[t] = errors(sol)
        for nm, v in errs[t].items():
            close(v, B_LIMIT * t, 'limit_' + nm, lambda: 'Stroh on C_iso + %g D (|D| = lambda_min): %s is %.3g (relative) away from the isotropic closed form' % (t, nm, v))
    if len(errs) == 2:
        labels.add('both_t')
        for nm in ('strain', 'stress', 'disp', 'K'):
            a, c = errs[1e-2][nm], errs[1e-3][nm]
            # error(t) = c1 t + O(t^2): smaller at the smaller t unless both are rounding noise
            # (noise floor: the Stroh eigenproblem is nearly defective in this limit - triple root p = i - so its rounding
            # error is of order eps^(1/3)..eps^(1/2)/gap, observed up to 1e-6 relative; below 3e-5 both distances are noise)
            require(c < a or max(a, c) <= 3e-5, lambda: '%s: distance from the isotropic closed form does not shrink with the anisotropy: %.3g at t=1e-2, %.3g at t=1e-3' % (nm, a, c))
            if _CAL:
                _cal('limit_ratio_' + nm, c, a if a > 0 else 1.0)
        if g.nontrivial(prob):
            labels.add('nt')
    return labels


_ACC = {'accepted': 0.85}
_REF = {'refusal': 0.12}

CLAUSES = [
    Clause('jump', oracle_jump, jump_cases, quick=5400, thorough=90000,
           min_share=dict(_ACC, nt=0.2, solver_stroh=0.24, solver_iso=0.12, solver_auto=0.13, orient_miller=0.19, mn_vec=0.27,
                          mn_str=0.11, mn_str_and_vector=0.04, ray_on_axis=0.27, b_tiny_component=0.025, int_positions=0.06,
                          ptlist=0.19, four_index=0.01, via_axes=0.06, closed_form_on_neariso=0.045, neariso_via_auto=0.008,
                          neariso_via_iso=0.034, neariso_edge=0.015),
           max_share=_REF,
           desc='Burgers vector = displacement jump across the cut half-plane (limit at +-1e-9 r), continuity across every '
                'other ray, invariance along the line, single point = array row = integer-typed positions, character angle, '
                'header (m, n, xi, transform, burgers, C) against my own numbers'),
    Clause('kinematics', oracle_kinematics, kin_cases, quick=7000, thorough=120000,
           min_share=dict(_ACC, nt=0.2, solver_stroh=0.24, solver_iso=0.13, orient_miller=0.18, pt_on_axis=0.24, ptlist=0.2,
                          b_general=0.035, b_climb=0.013, npts3=0.15, closed_form_on_neariso=0.045, neariso_via_auto=0.008,
                          neariso_via_iso=0.03, neariso_edge=0.02),
           max_share=_REF,
           desc='strain = sym grad u and div stress = 0 by 4th-order central differences (h = 1e-4 r), stress = C:strain, '
                'symmetry, homogeneity of degree -1'),
    Clause('energy', oracle_energy, energy_cases, quick=4500, thorough=75000,
           min_share=dict(_ACC, nt=0.18, BL=0.8, resolved=0.18, solver_stroh=0.26, iso_medium=0.16, mn_vec=0.26,
                          closed_form_on_neariso=0.045, neariso_via_auto=0.008, neariso_via_iso=0.035, neariso_edge=0.025),
           max_share=_REF,
           desc='K_tensor real symmetric positive definite, equal to the Barnett-Lothe angular integral (and to the closed '
                'form for isotropic media); K_coeff, preln; slip-plane traction = K.b/(2 pi x)'),
    Clause('covariance', oracle_covariance, cov_cases, quick=3600, thorough=60000,
           min_share=dict(_ACC, nt=0.22, rotated=0.8, both_generic=0.26, miller_vs_transform=0.2, aniso_medium=0.3,
                          closed_form_on_neariso=0.055, rotated_neariso=0.055, neariso_via_auto=0.006, neariso_edge=0.025),
           max_share=_REF,
           desc='rotating crystal (C, b) by Q and laboratory (transform, m, n, points) by R rotates u, strain, stress, K; '
                'Miller-index orientation = the corresponding transform'),
    Clause('decades', oracle_decades, g.decade_cases, quick=2500, thorough=37500,
           min_share={'accepted': 0.85, 'nt': 0.16, 'span>=8': 0.4, 'lscale': 0.2, 'lscale_SI': 0.04, 'b_scaled': 0.1, 'tol_loose': 0.1,
                      'tol_0.0001': 0.05, 'tol_1e-10': 0.03, 'tol_default': 0.3, 'closed_form': 0.17, 'fd_far': 0.12, 'fd_near': 0.2,
                      'log_law': 0.4, 'npts>=6': 0.17, 'ptlist': 0.13, 'solver_stroh': 0.22, 'aniso_medium': 0.27},
           max_share=_REF,
           desc='ONE call of displacement / strain / stress for an array of points 1e-6 .. 1e+6 reference lengths from the line '
                '(reference length 1e-12 .. 1e+6, Burgers vector in the same unit or not; solver tol default, 1e-4 .. 1e-10): array '
                'call = point-by-point calls, stress = C:strain, symmetry, 1/r along every ray, logarithmic law of the displacement, '
                'closed forms (isotropic class), finite-difference compatibility and equilibrium at one of the points, Burgers jump '
                'at the smallest and largest radius - every comparison relative to the magnitude of the field AT THAT POINT'),
    Clause('history', oracle_history, g.history_cases, quick=3000, thorough=45000,
           min_share={'accepted': 0.85, 'nt': 0.3, 'applied_C': 0.3, 'stroh_C_redefined': 0.18, 'identity_stroh_C_redefined': 0.07,
                      'applied_b': 0.1, 'applied_box': 0.025, 'applied_T': 0.025, 'op_m': 0.035, 'op_n': 0.03, 'op_again': 0.08,
                      'op_eval': 0.08, 'op_out': 0.05, 'op_pos': 0.04, 'form_strided': 0.1, 'form_readonly': 0.12, 'form_list': 0.12,
                      'form_tuple': 0.12, 'identity_orientation': 0.2, 'C_via_Sijkl': 0.03, 'C_via_cubic': 0.03, 'C_via_Cij9': 0.03,
                      'solver_stroh': 0.2, 'answer_IsotropicVolterraDislocation': 0.15},
           max_share=_REF,
           desc='caller-side histories: arguments in every array-like form (float64, strided, Fortran / reversed, read-only, list, '
                'tuple); solving and evaluating leave the caller\'s objects untouched; after the caller re-defines its ElasticConstants '
                'object (Cij, Cijkl, Sij, Cij9, Sijkl setters, crystal-system methods), overwrites burgers / m / n / transform / Miller '
                'arrays in place, re-defines its Box, builds other solutions from the same objects, evaluates elsewhere, overwrites '
                'the position array or the returned arrays, every output of the first solution (header, K_tensor, K_coeff, preln, '
                'character angle, p A L k / mu nu, fields) is unchanged; identity orientation in a third of the cases'),
    Clause('iso_limit', oracle_iso_limit, limit_cases, quick=2200, thorough=37500,
           min_share={'nt': 0.22, 'both_t': 0.45, 'mn_vec': 0.28, 'orient_miller': 0.19, 'closed_form_on_neariso': 0.16,
                      'neariso_via_auto': 0.06, 'auto_stroh_on_neariso': 0.11, 'neariso_edge': 0.06, 'iso_medium': 0.27},
           desc='isotropic class and dispatcher, on exactly and on nearly isotropic media (inside the acceptance band of the '
                'class), against Hirth-Lothe closed forms of the Hill-average medium; Stroh on C_iso + t D approaches them '
                'linearly (t = 1e-2, 1e-3)'),
]
