"""C12 - Volterra dislocation fields satisfy elasticity and carry the Burgers vector."""
import math
import os

import numpy as np
from hypothesis import strategies as st

from ..core import Clause, Violation, require
from .. import gens
from .. import gens_c11 as g11
from .. import gens_c12 as g
from ..oracles import elastic as el
from ..oracles import volterra_ref as vr

RULE = ("media: gens_c11 tensors (generic SPD 6x6 with eigenvalues in [1,500], admissible constant sets of the seven crystal "
        "systems in standard setting, the same in rotated axes) for the Stroh solver, exactly isotropic (E in [1,600], nu in "
        "[0,0.495]) and NEARLY isotropic (cubic / hexagonal / tetragonal / orthorhombic constants, any axis permutation, every "
        "constant within 1e-7 .. 0.97e-4 of the Hill-average isotropic tensor = inside the isotropic class's acceptance band, "
        "or 1.05 .. 5 times the band = outside) for the closed form and the dispatcher, in GPa-like or eV/A^3-like numbers; "
        "solver Stroh / IsotropicVolterraDislocation / "
        "solve_volterra_dislocation; Burgers vector screw, edge, mixed (in the slip plane for the isotropic solver), along "
        "the plane normal or general, |components| in [0.5,8]; orientation none, a proper rotation given as transform= or "
        "axes= with non-unit rows, or Miller line direction + slip plane (h u + k v + l w = 0, small integers, 3 or 4 "
        "indices) in cubic/hexagonal/tetragonal/orthorhombic/monoclinic/triclinic cells or without a cell; m, n default, "
        "the six string pairs, or a rotated perpendicular pair of unit vectors; field points r in [0.3,45], >= 0.05 rad "
        "from the cut, generic and exactly on the frame's axes/diagonals, single points and arrays, lists and arrays.  "
        "Clause decades: ONE array of points r = mantissa 10^k L, k = -6 .. 6 (both ends present in 3/4 of the cases), on 1-3 "
        "rays, overall length unit L = 10^-12 .. 10^6 (1 in half of the cases; the Burgers vector in the same unit in half of "
        "the others), solver argument tol default / 1e-8 / 1e-4 / 1e-5 / 1e-6 / 1e-10.  Clause history: the same problems, "
        "identity orientation (none, or transform / axes = unit matrix with non-unit rows) in a third of the cases, every "
        "array-valued argument in a drawn form (float64, strided view, Fortran / reversed strides, read-only, list, tuple), "
        "followed by 2-6 operations of the CALLER on its own objects (ElasticConstants re-defined through every setter and four "
        "crystal-system methods, arrays / lists overwritten in place, Box re-defined through its setters), other solutions built "
        "from the same objects, evaluations elsewhere, the position array or the returned arrays overwritten.  "
        "Generator classes carried over from the other properties (in EVERY clause, through the problem generator): exactly structured "
        "orientations (integer rows: the 24 signed permutations of the axes with integer row lengths, orthogonal right-handed integer "
        "triples such as [1 1 -2] [1 1 1] [1 -1 0]; handed over as Python ints / integer arrays), the 24 signed-axis pairs for m, n as "
        "vectors, Burgers vectors in halves of lattice vectors / eighths of the orientation rows; almost-special inputs: rotations 1e-12 .. "
        "1e-2 degrees from the identity or from a quarter / half / third turn (orientation; m, n), cells 1e-12 .. 1e-6 from cubic / "
        "hexagonal / tetragonal / orthorhombic, field points 1e-12 .. 1e-3 (relative) off the frame's axes and diagonals, Burgers "
        "components 1e-12 .. 1e-7 of the largest (either side of tol), the cut approached to 1e-12 r; covariance with Q, R exact signed "
        "permutations.  Clause forms: every number exactly representable, every array-valued argument and the field points in a drawn "
        "dtype (float32, float16, big-endian, int8 .. int64, unsigned, bool, lists of numpy scalars; coordinates up to the dtype's "
        "limits).  Clause units: the physical problem (GPa, angstrom) under reset_units configurations (named, integer seed, SI; half of "
        "them with stiffness numbers within a few decades of 1), before / between calls.  Clause combos: ENUMERATED ordered pairs of "
        "orientation spellings x ordered pairs of m, n spellings x tol pairs, second setting through solve() on the object solved with "
        "the first.  history also keeps a result ledger (every array any call returned, re-judged bit for bit after every later step) "
        "and judges every solution built from RE-USED objects against one built from copies of them.  "
        "Non-trivial: Burgers vector with at least two non-zero components in the (m,n,xi) frame AND a non-identity "
        "orientation AND non-default m, n (AND the solver accepted the problem); history: at least one object the solver was "
        "handed has actually been modified afterwards.")
ASSUMPTIONS = ["numpy linear algebra (eig, inv, einsum) is correct",
               "ElasticConstants(Cij=...) stores the matrix handed over and .Cij returns it (decided by C11)",
               "atomman.Box(vects=...) stores the cell handed over (decided by C01)",
               "sign convention of the code under judgement and of Hirth & Lothe: the displacement jumps by +b from y = 0- to "
               "y = 0+ on the half-plane x < 0 of the (m, n) plane",
               "stiffness numbers are of GPa (or eV/A^3) scale: the solver's 'is it real' test on K_tensor is an absolute tol "
               "(1e-8), so Stroh REFUSES ('Solution not real') every medium given in Pa (probed: 50 of 50 cubic media x 1e9, "
               "x 1e11, x 1e-12) - a refusal, hence outside 'that the solver accepts'; lengths (field points, Burgers vector) are "
               "of Angstrom scale except in the decades clause, which spans 1e-18 .. 1e+12; a field array of complex dtype whose "
               "imaginary parts are rounding residue (<= 1e-9 of the largest real part) counts as real",
               "the solver argument tol (every clause; values other than the default in decades and combos): Burgers components - Cartesian, "
               "in the solution frame - below tol of the largest are dropped from the problem that is judged (within 2 % of the threshold: "
               "header only; when this rounding takes the vector out of the slip plane of a frame ALMOST aligned with the axes, the "
               "isotropic class is outside its documented domain: header only); tol > 1e-8 with Stroh roots closer than 0.05: header "
               "only; tol < 1e-8: a refusal by the self-checks is counted whatever the root separation",
               "clause units: numericalunits attributes and the way unitconvert.reset_units sets them are correct (C09's subject): my sizes "
               "of a GPa and an angstrom are products of them; a Stroh refusal of well separated roots is the open finding "
               "C12:units:stroh-self-checks-absolute-tol... (excluded, counted) where the stiffness NUMBERS are above 1e5 or below 1e-3, a "
               "violation inside that window and under the default configuration - the assumption on the stiffness scale above is "
               "thereby no longer silent; the displacement is compared up to its additive constant (ln of the length unit)",
               "clause forms: a value handed over in a narrow dtype is exactly representable there (checked by round trip), so the call "
               "with the same values as float64 / int64 arrays is the same problem; box_vects zeroes entries below 3e-9 of the largest, "
               "so Box's documented 1e-9 clean-up never acts on a cell of mine",
               "ElasticConstants.transform / the Cij setter zero entries below 1e-8 / 1e-9 of the largest and the solver "
               "zeroes Burgers components below 1e-8 of the largest (documented tol): no comparison against my own rotated "
               "tensor is tighter than 3e-8 max|C|",
               "the isotropic class accepts C exactly when numpy.allclose(C.Cij, C.normalized_as('isotropic').Cij, atol=0, "
               "rtol=1e-4) (its solve()), solves the medium normalized_as('isotropic') (Hill bulk and shear moduli: rotation "
               "invariants) and reports that medium as .C: for an accepted, not exactly isotropic input the header, Hooke's "
               "law, the closed forms and the covariance are judged against the Hill-average medium, not loosened; inputs "
               "within 2 % of the band edge may be accepted or refused",
               "Stroh solutions whose three roots p (Im p > 0, recomputed here from the companion matrix) come closer than "
               "gap get every rounding tolerance multiplied by 1 + 1/gap (near-degenerate eigenvectors); problems the "
               "solver refuses with the ValueError of its self-checks are counted, not judged, as long as two roots are closer "
               "than 0.25 (largest separation among refusals on the unchanged tree: 1.6e-2); a refusal of well separated "
               "roots is reported as a violation, a refusal share above 12 % as a harness error"]
LEVEL_TEXT = ("Generated-input exploration of Stroh, IsotropicVolterraDislocation and solve_volterra_dislocation over "
              "positive-definite media of every crystal class (and, for the isotropic class and the dispatcher, media isotropic "
              "only to within the class's 1e-4 acceptance band), all Burgers characters, orientations by rotation or Miller "
              "indices, all m/n choices and field points off the line: Burgers jump and continuity, strain = sym grad u and "
              "div sigma = 0 by 4th-order differences, Hooke's law, 1/r scaling, energy tensor against the Barnett-Lothe "
              "integral and the slip-plane traction, covariance, and the isotropic limit against textbook closed forms; point arrays "
              "spanning 12 decades in r in one call (any length unit, other tol values) judged point by point; caller-side histories "
              "(inputs untouched by the solver, outputs untouched by whatever the caller later does to the objects it handed over; result "
              "ledger; re-used objects); exactly structured and almost-special orientations, axes, cells, points and Burgers vectors in every "
              "clause; arguments and positions in narrow / unsigned / big-endian / half-precision dtypes; the same physical problem under "
              "other working-unit configurations; enumerated ordered pairs of option spellings through solve() on one object.")
TECHNIQUE = ("finite-difference compatibility and equilibrium with derived truncation/rounding bounds, Burgers circuit limit, "
             "own tensor rotation, Barnett-Lothe angular integral for the energy tensor, slip-plane traction identity, "
             "rotation covariance (metamorphic), Hirth-Lothe closed forms, linear convergence of Stroh to the isotropic limit, "
             "per-point relative comparison of array against single-point evaluation over 12 decades, model-free output invariance "
             "under caller-side mutation histories, bit-for-bit result ledger, float64-reference call for narrow dtypes, dimensionless "
             "comparison across unit configurations, re-solve = fresh object over enumerated option pairs")
WALL = {'quick': 64, 'thorough': 600}

EPS = 2.220446049250313e-16
STROH_REFUSALS = ('Stroh checks failed!', 'Solution not real: check elastic constants')
ISO_REFUSAL = 'C must be isotropic elastic constants'

# ---- stated tolerance constants (derivations next to their use; calibration record in mutants/C12/RESULTS.txt)
H_REL = 1e-4            # finite-difference step / r
DELTA = 1e-9            # half-width of the point pairs straddling a ray / r
TOL_JUMP = 1e-6         # |u(+) - u(-) - b| and continuity, relative to |b|
TOL_ROUND = 1e-7        # rounding part of the finite-difference comparisons, relative, multiplied by (1 + 1/gap)
TOL_HOOKE = 1e-10       # sigma = C : eps, relative to max|C| max|eps|, multiplied by (1 + 1/gap)
TOL_SCALE = 1e-10       # eps(lam x) = eps(x) / lam, relative, multiplied by (1 + 1/gap)
TOL_C = 3e-8            # stored C against my own rotated tensor, relative to max|C|
TOL_K = 3e-8            # energy tensor against the angular integral (K is zeroed below 1e-8 of its maximum)
TOL_COV = 1e-9          # covariance, relative, multiplied by (1 + 1/gap); + 2e-7 cond when an entry lies in the floor band
GAP_REFUSAL = 0.25      # a refusal (Stroh self-checks) is legitimate only for roots closer than this
B_LIMIT = 100.0         # isotropic limit: |field(t) - closed form| <= B_LIMIT * t * scale   (perturbation t * lambda_min)

_CAL = os.environ.get('VERIF_C12_CAL')


def _cal(name, err, tol):
    """calibration mode only (VERIF_C12_CAL=<file>): record err/tol of every comparison"""
    if _CAL:
        with open(_CAL, 'a') as fh:
            fh.write('%s %.4e\n' % (name, (err / tol) if tol > 0 else float('inf')))


def close(err, tol, name, what):
    err = float(err)
    _cal(name, err, tol)
    require(err <= tol, lambda: '%s: off by %.3g (tolerance %.3g)' % (what() if callable(what) else what, err, tol))


# ----------------------------------------------------------------------------- problem -> numbers, solver call

class Setup(object):
    pass


def setup(prob):
    """everything the judgement needs, by my own arithmetic (no atomman)"""
    S = Setup()
    S.m, S.n, S.xi = vr.frame_of(prob['mn'])
    S.T = g.expected_transform(prob, S.m, S.n)
    bs = np.array(prob['bsol'], dtype=float)
    S.b = bs[0] * S.m + bs[1] * S.n + bs[2] * S.xi          # Burgers vector in the solution's Cartesian frame
    S.b_cart = S.T.T @ S.b                                  # the same vector in the crystal's Cartesian frame
    # the solvers' documented rounding argument tol (decades clause; default 1e-8 everywhere else): Burgers components below
    # tol of the largest are zeroed in the solution frame - the problem that is solved, and judged, is the one with those
    # components removed; a component within 2 % of the threshold may go either way (bslack: such a case is not judged)
    S.tol = float(prob['tol']) if prob.get('tol') is not None else 1e-8
    S.bslack = 0.0
    S.b_raw = S.b.copy()
    ratio = np.abs(S.b) / np.abs(S.b).max()
    # (components that are rounding residue of my own arithmetic, below 1e-13 of the largest, are left alone: the tolerances
    # never see them; the near-threshold generators put components at 1e-12 .. 1e-7 of the largest)
    if S.tol > 1e-8 or bool(np.any((ratio > 1e-13) & (ratio < 1.02 * S.tol))):
        band = (ratio > 0.98 * S.tol) & (ratio < 1.02 * S.tol)
        S.bslack = float(np.abs(S.b)[band].max()) if band.any() else 0.0
        S.b = np.where((ratio < S.tol) & ~band, 0.0, S.b)
    S.bn = float(np.linalg.norm(S.b))
    S.C6 = g.stiffness(prob)
    C6s = el.rotate_voigt(S.C6, S.T)
    S.C6s = (C6s + C6s.T) / 2                               # medium in the solution frame
    S.C4s = el.voigt_to_tensor(S.C6s)
    S.cmax = float(max(np.abs(S.C6).max(), np.abs(S.C6s).max()))
    S.exact = S.iso = g.is_isotropic(prob)
    S.near = g.is_neariso(prob)
    S.dev = 0.0
    if S.exact:
        S.roots, S.gap, S.amp = [1j, 1j, 1j], 0.0, 1.0      # closed form: no eigenvectors involved
        mo = el.isotropic_moduli(prob['C']['C']['E'], prob['C']['C']['nu'])
        S.mu, S.nu = mo['mu'] * prob['cscale'], mo['nu']
    else:
        S.dev = g.iso_deviation(S.C6)[0]
        if prob['solver'] == 'iso':
            to_iso_mode(S)                                  # the closed-form class is asked directly
        else:
            S.roots, S.gap = vr.sextic_roots(S.C4s, S.m, S.n)
            S.amp = 1.0 + 1.0 / max(S.gap, 1e-6)
    return S


def to_iso_mode(S):
    """the isotropic class answers for a medium that is not exactly isotropic: what it solves, and reports as .C, is the
    isotropic tensor of the Hill bulk and shear moduli of the input (rotation invariants: the same tensor in every frame)"""
    _, N, K, G = g.iso_deviation(S.C6)
    S.mu, S.nu = G, (3 * K - 2 * G) / (2 * (3 * K + G))
    S.C6s = N
    S.C4s = el.voigt_to_tensor(N)
    S.roots, S.gap, S.amp = [1j, 1j, 1j], 0.0, 1.0
    S.iso = True


def left_plane(S):
    """the documented rounding (components below tol of the largest are zeroed, in Cartesian coordinates) has taken the Burgers
    vector out of the slip plane of a frame that is ALMOST aligned with the Cartesian axes (by up to tol |b|): the isotropic class
    is documented for Burgers vectors in the slip plane only - such a case is counted, the header judged"""
    return bool(S.iso and abs(float(S.b @ S.n)) > 1e-9 * S.bn and abs(float(S.b_raw @ S.n)) <= 1e-12 * S.bn)


def _conv(aslist):
    if aslist:
        return lambda a: np.asarray(a, dtype=float).tolist()
    return lambda a: np.array(a, dtype=float)


def solver_args(prob, S):
    """(burgers, keyword arguments) for the three entry points, from the problem description"""
    import atomman as am
    conv = _conv(prob['aslist'])
    kw = {}
    if prob.get('tol') is not None:
        kw['tol'] = float(prob['tol'])
    mn = prob['mn']
    if mn['kind'] == 'str':
        how = mn.get('pass', 'ss')
        kw['m'] = mn['m'] if how[0] == 's' else conv(S.m)
        kw['n'] = mn['n'] if how[1] == 's' else conv(S.n)
    elif mn['kind'] in ('vec', 'axis'):
        kw['m'], kw['n'] = conv(S.m), conv(S.n)
    o = prob['orient']
    b = S.b_cart
    if o['kind'] == 'transform':
        kw[o['via']] = conv(S.T * np.array(o['rowscale'], dtype=float)[:, None])
    elif o['kind'] == 'rows':
        # integer rows as they are written by hand: Python ints in the list form, an integer array else
        kw[o['via']] = [list(r) for r in o['rows']] if prob['aslist'] else np.array(o['rows'])
    elif o['kind'] == 'miller':
        V = g.box_vects(o['box'])
        if o['box']['family'] != 'unit':
            kw['box'] = am.Box(vects=V)
        b = np.linalg.solve(V.T, S.b_cart)                  # lattice coordinates: b_cart = b_lat . vects
        uvw, hkl = list(o['uvw']), list(o['hkl'])
        if o['four']:
            U, V_, W = uvw
            uvw = [2 * U - V_, 2 * V_ - U, -(U + V_), 3 * W]             # 3 [UVW] as [uvtw]
            hkl = [hkl[0], hkl[1], -(hkl[0] + hkl[1]), hkl[2]]
            b = np.array(g.three_to_four_vector(b))
        kw['ξ_uvw'] = uvw if prob['aslist'] else np.array(uvw)
        kw['slip_hkl'] = hkl if prob['aslist'] else np.array(hkl)
    if 'bgiven' in prob:
        b = np.array(prob['bgiven'], dtype=float)           # exact fractions, as written by hand (gens_c12.exact_b)
    if prob.get('cart_axes'):
        kw['cart_axes'] = True                              # (clause combos: only with m, n along +x, +y, +z)
    return conv(b), kw


BAND_LO, BAND_HI = 0.98e-4, 1.02e-4     # my deviation and the solver's agree to rounding; 2 % leaves the edge itself open


def call_solver(solver, C6, b, kw, iso_medium, gap=None, dev=0.0, Cobj=None):
    """returns the solution object, or None for a documented refusal.  iso_medium: exactly isotropic; dev: iso_deviation of
    the medium (0 for exactly isotropic): the isotropic class has to take every medium with dev <= 1e-4.  Cobj: the caller's
    ElasticConstants object (history clause), else a fresh one is built from C6"""
    import atomman as am
    from atomman.defect import Stroh, IsotropicVolterraDislocation, solve_volterra_dislocation
    fn = {'stroh': Stroh, 'iso': IsotropicVolterraDislocation, 'auto': solve_volterra_dislocation}[solver]
    C = am.ElasticConstants(Cij=np.array(C6, dtype=float)) if Cobj is None else Cobj
    try:
        return fn(C, b, **kw)
    except ValueError as e:
        msg = str(e)
        if solver == 'iso' and msg == ISO_REFUSAL and dev > BAND_LO:
            return None                                     # outside the band of the isotropic class
        refused = (solver == 'stroh' and msg in STROH_REFUSALS) or (solver == 'auto' and not iso_medium and msg == ISO_REFUSAL
                                                                    and dev > BAND_LO)
        if not refused:
            raise
        # Stroh's self-checks failed (for 'auto': and the isotropic fallback refuses the anisotropic medium).  That is the
        # documented answer to (nearly) coincident roots, where the eigenvector expansion breaks down.  On the unchanged
        # tree every refusal has gap <= 1e-2 (RESULTS.txt); a refusal of well separated roots is a solver that does not
        # solve problems "away from eigenvalue degeneracy".
        # With tol below its default the self-checks (absolute tol on the eigenvector identities, absolute tol on Im K) are the
        # caller's own, stricter demand: a refusal is then the documented answer whatever the separation of the roots.
        require(gap is None or gap < GAP_REFUSAL or kw.get('tol', 1e-8) < 1e-8,
                lambda: '%s refused (%s) a positive-definite problem whose roots p are separated by %.3g' % (solver, msg, gap))
        return None


def solve(prob, S):
    b, kw = solver_args(prob, S)
    return call_solver(prob['solver'], S.C6, b, kw, S.exact, None if S.iso else S.gap, S.dev)


def begin(prob):
    """setup, solver call, classification.  Returns (S, sol, labels, judge); judge False: refusal, or an answer outside the
    property's domain (counted only).
    solve_volterra_dislocation answers a medium that is not exactly isotropic with Stroh when Stroh's self-checks pass and
    with the isotropic class otherwise - legitimate exactly when the medium is inside that class's band; the case is then
    judged like a direct call of the class (Hill-average medium), provided the Burgers vector lies in the slip plane (the
    class is documented for that only: crystal media are drawn with general Burgers vectors)."""
    S = setup(prob)
    sol = solve(prob, S)
    judge = sol is not None
    extra = set()
    if judge and prob['solver'] == 'auto' and not S.exact and type(sol).__name__ == 'IsotropicVolterraDislocation':
        require(S.dev <= BAND_HI, lambda: 'solve_volterra_dislocation returned the isotropic class for a medium whose constants are '
                '%.3g (relative) away from their isotropic average' % S.dev)
        extra.add('auto_fallback')
        if prob['bsol'][1] != 0.0:
            judge = False
        else:
            to_iso_mode(S)
    if judge and prob['solver'] == 'iso' and not S.exact:
        require(S.dev <= BAND_HI, lambda: 'the isotropic class accepted a medium whose constants are %.3g (relative) away from their '
                'isotropic average (its band is 1e-4)' % S.dev)
    labels = base_labels(prob, S, sol) | extra
    if sol is None and S.iso and not S.exact:
        labels = (labels - {'refusal'}) | {'refusal_outside_band'}
    if judge and S.iso and not S.exact and S.dev == g.BAND:
        # an entry of the Hill-average tensor sits on the Cij setter's zeroing floor (see gens_c12.iso_deviation)
        labels.add('neariso_on_zeroing_floor')
        judge = False
    if judge and S.bslack and S.tol == 1e-8 and prob.get('tol') is None:
        # a Burgers component within 2 % of the documented zeroing threshold (default tol): zeroed or kept, either is what
        # "below tol" allows; header only (the decades clause does the same for the other values of tol)
        check_header(sol, S, prob)
        labels.add('b_component_on_tol_threshold')
        judge = False
    if judge and left_plane(S):
        check_header(sol, S, prob)
        labels.add('b_left_slip_plane_by_tol')
        judge = False
    if judge and S.near and not S.iso:
        # the dispatcher's Stroh attempt passed its self-checks on a nearly isotropic medium.  The isotropic limit of the
        # sextic eigenproblem is DEFECTIVE (triple root p = i with a Jordan block), the roots of the perturbed problem are
        # sqrt(anisotropy) apart and the eigenvectors carry errors of order sqrt(eps)/gap ~ 1e-6..1e-4 (unchanged tree: K_tensor
        # 1.1e-7 from the Barnett-Lothe integral at gap 1.4e-2, replay C12-energy-3), outside "away from eigenvalue
        # degeneracy" and outside the (1 + 1/gap) model of the rounding tolerances, which fits semisimple double roots.
        # Header only; the distance from the closed form is judged in iso_limit with its stated noise floor.
        check_header(sol, S, prob)
        labels.add('stroh_on_neariso')
        judge = False
    if not judge:
        labels.discard('nt')
    elif not S.exact and S.iso:
        labels.add('closed_form_on_neariso')
        labels.add('neariso_via_' + prob['solver'])
    return S, sol, labels, judge


def check_header(sol, S, prob):
    """what the solution object says about the problem it solved, against my own numbers"""
    name = type(sol).__name__
    want = 'IsotropicVolterraDislocation' if (prob['solver'] == 'iso' or (prob['solver'] == 'auto' and S.iso)) else 'Stroh'
    require(name == want, lambda: 'solver %s on %s medium returned a %s' % (prob['solver'], 'an isotropic' if S.iso else 'an anisotropic', name))
    for nm, mine in (('m', S.m), ('n', S.n), ('ξ', S.xi)):
        got = np.asarray(getattr(sol, nm), dtype=float)
        require(got.shape == (3,) and np.abs(got - mine).max() <= 1e-12, lambda: '.%s = %r, expected %r' % (nm, got, mine))
    T = np.asarray(sol.transform, dtype=float)
    require(T.shape == (3, 3), lambda: '.transform has shape %r' % (T.shape,))
    close(np.abs(T - S.T).max(), 1e-9, 'hdr_T', lambda: '.transform\n%r\nagainst my own orientation matrix\n%r' % (T, S.T))
    require(float(sol.tol) == S.tol, lambda: '.tol = %r, handed over (or default) %r' % (sol.tol, S.tol))
    bg = np.asarray(sol.burgers, dtype=float)
    require(bg.shape == (3,), lambda: '.burgers has shape %r' % (bg.shape,))
    close(np.abs(bg - S.b).max(), 2e-8 * S.bn + 1.0001 * S.bslack, 'hdr_b', lambda: '.burgers = %r, expected transform . b = %r' % (bg, S.b))
    Cg = np.asarray(sol.C.Cij, dtype=float)
    close(np.abs(Cg - S.C6s).max(), TOL_C * S.cmax, 'hdr_C',
          lambda: '.C.Cij against my own %s' % ('rotated tensor' if S.exact or not S.iso else 'isotropic (Hill) normalisation of the input'))
    if S.iso:
        for nm, mine in (('mu', S.mu), ('nu', S.nu)):
            got = float(getattr(sol, nm))
            close(abs(got - mine), 1e-10 * (S.mu if nm == 'mu' else 1.0), 'hdr_' + nm, lambda: '.%s = %r, Hill value of the medium %r' % (nm, got, mine))
    return Cg


def field(sol, name, pos, aslist=False, given=None):
    """sol.<name>(pos) with shape / dtype / finiteness checks; pos (3,) or (N,3); returns (3,..) or (N,..).  given: the object
    that is handed over for these positions (another dtype, a list of numpy scalars; clause forms)"""
    pos = np.asarray(pos, dtype=float)
    out = getattr(sol, name)(given if given is not None else pos.tolist() if aslist else pos)
    out = np.asarray(out)
    tail = (3,) if name == 'displacement' else (3, 3)
    if pos.ndim == 2 and pos.shape[0] == 1 and out.shape == tail:
        out = out.reshape((1,) + tail)                      # "single-value solutions are reduced"
    require(out.shape == pos.shape[:-1] + tail, lambda: '%s(%r-shaped positions) has shape %r' % (name, pos.shape, out.shape))
    if out.dtype.kind == 'c':
        # Stroh returns the complex sum unless every imaginary part is below an absolute 1e-8 (numpy.real_if_close with
        # tol <= 1): rounding residue on a large field value is not a defect of the field, a real imaginary part is
        require(float(np.abs(out.imag).max()) <= 1e-9 * float(np.abs(out.real).max()),
                lambda: '%s has a genuine imaginary part at %r: %r' % (name, pos.tolist(), out))
        out = out.real
    require(out.dtype.kind == 'f', lambda: '%s returned dtype %s (not real): %r' % (name, out.dtype, out))
    require(bool(np.all(np.isfinite(out))), lambda: '%s not finite at %r: %r' % (name, pos.tolist(), out))
    return out


def positions(S, local):
    L = np.asarray(local, dtype=float).reshape(-1, 3)
    return L[:, :1] * S.m + L[:, 1:2] * S.n + L[:, 2:3] * S.xi


def geom(S, loc):
    """r, and g = max_a |m + p_a n| r / |x + p_a y|: how much closer than r the nearest singularity of the analytic
    functions log(eta_a), 1/eta_a is in units of the real step"""
    x, y = float(loc[0]), float(loc[1])
    r = math.hypot(x, y)
    gg = max(math.sqrt(1 + abs(p) ** 2) * r / abs(x + p * y) for p in S.roots)
    return r, gg


def base_labels(prob, S, sol):
    labs = g.labels_of(prob)
    if sol is None:
        labs.add('refusal')
        _cal('refusal_gap', S.gap, 1.0)
        return labs
    labs.add('accepted')
    if not S.iso:
        labs.add('gap<0.05' if S.gap < 0.05 else 'gap>=0.05')
    if g.nontrivial(prob):
        labs.add('nt')
    return labs


# ----------------------------------------------------------------------------- clause: jump

_prob_any = g.problems()
_bool = st.booleans()
_cutr = st.one_of(gens.nice(0.3, 3.0, 4), gens.nice(3.0, 30.0, 3), st.sampled_from([1.0, 2.0, 0.5, 16.0]))
_cutz = st.one_of(gens.nice(-10.0, 10.0, 3), st.just(0.0))
_shift = st.one_of(gens.nice(-20.0, 20.0, 3), st.sampled_from([1.0, -4.0]))


_dk = st.sampled_from([9, 9, 9, 9, 10, 11, 12, 12])        # the pair straddling the cut: 1e-9 .. 1e-12 r above / below it


@st.composite
def jump_cases(draw):
    return {'prob': draw(_prob_any),
            'cut': draw(st.lists(st.tuples(_cutr, _cutz).map(list), min_size=1, max_size=3)),
            'rays': draw(g.local_points(1, 3)), 'shift': draw(_shift), 'ptlist': draw(_bool), 'dk': draw(_dk)}


def oracle_jump(case):
    prob = case['prob']
    S, sol, labels, judge = begin(prob)
    if not judge:
        return labels
    check_header(sol, S, prob)
    pl = case['ptlist']
    # character angle: angle between the Burgers vector and the line direction
    cosang = float(S.b @ S.xi) / S.bn
    for unit, f in (('degree', math.radians), ('radian', float)):
        a = float(sol.characterangle(unit=unit))
        require(0.0 <= f(a) <= math.pi + 1e-12, lambda: 'characterangle(%s) = %r' % (unit, a))
        close(abs(math.cos(f(a)) - cosang), 1e-9, 'charangle', lambda: 'characterangle(%s) = %r, cos(b, xi) = %r' % (unit, a, cosang))
    # (a) Burgers circuit limit: two points DELTA*r above / below the cut half-plane (y = 0, x < 0).
    #     u is smooth on either side: |u(+-) - limit| <= DELTA r |grad u| ~ DELTA |b| g amp / 2pi  << TOL_JUMP |b|
    tol = TOL_JUMP * S.bn
    delta = g.pow10(-case.get('dk', 9))                      # <= DELTA: the bound above holds a fortiori
    if delta < DELTA:
        labels.add('cut_closer_than_1e-9')
    for r, z in case['cut']:
        p0 = -r * S.m + z * S.xi
        up = field(sol, 'displacement', p0 + delta * r * S.n, pl)
        um = field(sol, 'displacement', p0 - delta * r * S.n, pl)
        close(np.abs(up - um - S.b).max(), tol, 'jump',
              lambda: 'u(x=-%g, y=0+) - u(x=-%g, y=0-) = %r, Burgers vector %r' % (r, r, up - um, S.b))
    # (b) continuity across every other ray, the point on the ray included (branch choices on the frame's axes)
    rays = positions(S, case['rays'])
    for loc, p0 in zip(case['rays'], rays):
        r = math.hypot(loc[0], loc[1])
        that = (-loc[1] * S.m + loc[0] * S.n) / r
        trio = np.array([p0 - DELTA * r * that, p0, p0 + DELTA * r * that])
        u = field(sol, 'displacement', trio, pl)
        close(max(np.abs(u[1] - u[0]).max(), np.abs(u[2] - u[1]).max()), tol, 'continuity',
              lambda: 'u not continuous across the ray through local point %r: %r' % (loc, u))
        if loc[0] == 0.0 or loc[1] == 0.0:
            labels.add('ray_on_axis')
        if g.near_axis(loc):
            labels.add('ray_near_axis')
    # (c) nothing depends on the coordinate along the line; single point = row of an array evaluation
    sh = case['shift']
    for name, scale in (('displacement', S.bn), ('strain', None), ('stress', None)):
        a = field(sol, name, rays, pl)
        b = field(sol, name, rays + sh * S.xi, pl)
        sc = scale if scale is not None else float(np.abs(a).max())
        close(np.abs(a - b).max(), 1e-9 * S.amp * sc, 'zshift', lambda: '%s changes along the line direction (shift %g)' % (name, sh))
        one = field(sol, name, rays[0], pl)
        close(np.abs(one - a[0]).max(), 1e-11 * S.amp * sc, 'single', lambda: '%s(single point) differs from the row of the array evaluation' % name)
        # array lengths 6 (= number of roots) and 3 (= dimension) are where an axis mix-up would hide
        reps = {1: 6, 2: 3, 3: 2}[len(rays)]
        a6 = field(sol, name, np.tile(rays, (reps, 1)), pl)
        close(np.abs(a6 - np.tile(a, (reps,) + (1,) * (a.ndim - 1))).max(), 1e-11 * S.amp * sc, 'six', lambda: '%s on an array of 6 points differs from the point-by-point values' % name)
        if np.all(rays == np.round(rays)):
            # integer-valued coordinates handed over as Python ints (nested list)
            got = np.asarray(getattr(sol, name)(rays.astype(int).tolist()))
            require(got.shape == a.shape or (len(rays) == 1 and got.shape == a.shape[1:]), lambda: '%s(int list) has shape %r' % (name, got.shape))
            close(np.abs(got.reshape(a.shape) - a).max(), 1e-11 * S.amp * sc, 'intpos', lambda: '%s differs between integer-typed and float positions %r' % (name, rays.tolist()))
            labels.add('int_positions')
    labels.add('ptlist' if pl else 'ptarray')
    return labels


# ----------------------------------------------------------------------------- clause: kinematics

_lam = st.sampled_from([2.0, 0.5, 3.7, 0.31, 10.0])


@st.composite
def kin_cases(draw):
    return {'prob': draw(_prob_any), 'pts': draw(g.local_points(1, 3)), 'lam': draw(_lam), 'ptlist': draw(_bool)}


def fd_tols(S, loc):
    """relative tolerances (factor on the field's own scale) of the two finite-difference comparisons at a point.
    Fields are sums over a of D_a F(eta_a), eta_a = pos.(m + p_a n) = pos.c_a, F = log (displacement), 1/eta (stress).
    With g = max_a |c_a| r / |eta_a| (geom) every derivative along a real direction costs a factor <= g / r.
    4th-order central stencil, step h = H_REL r:
      truncation  (h^4 / 30) |d^5 f|.  F = log: d^5 = 24 (c/eta)^5, first derivative c/eta: ratio 0.8 (h/r)^4 g^4;
                  F = 1/eta: d^5 = 120 c^5/eta^6, first derivative c/eta^2: ratio 4 (h/r)^4 g^4.  Both are taken
                  10 g times larger for terms that cancel in the first derivative but not in the fifth.
      rounding    1.5 eps max|f| / h (stencil weights 18/12); max|f| <~ 10 x (first-derivative scale) x r  (|log r| <= 3.8,
                  pi) gives 1.5 * 2.2e-16 * 10 / H_REL = 3.3e-11 of the first-derivative scale for well separated roots,
                  times (1 + 1/gap) for the cancellation between nearly parallel eigenvectors.
    TOL_ROUND = 1e-7 (strain) and 1e-6 (divergence, the DESIGN value is 1e-5) leave a factor >= 1000 over the estimate;
    calibration (largest observed error/tolerance) is recorded in mutants/C12/RESULTS.txt."""
    r, gg = geom(S, loc)
    trunc_u = 10.0 * gg * 0.8 * H_REL ** 4 * gg ** 4
    trunc_s = 10.0 * gg * 4.0 * H_REL ** 4 * gg ** 4
    return r, gg, TOL_ROUND * S.amp + trunc_u, 10 * TOL_ROUND * S.amp + trunc_s


def oracle_kinematics(case):
    prob = case['prob']
    S, sol, labels, judge = begin(prob)
    if not judge:
        return labels
    Cg = check_header(sol, S, prob)
    C4 = el.voigt_to_tensor(Cg)
    pl = case['ptlist']
    P = positions(S, case['pts'])
    lam = case['lam']
    E = field(sol, 'strain', P, pl)
    Sg = field(sol, 'stress', P, pl)
    E2 = field(sol, 'strain', P * lam, pl)
    S2 = field(sol, 'stress', P * lam, pl)
    for i, loc in enumerate(case['pts']):
        x = P[i]
        r, gg, tol_u, tol_s = fd_tols(S, loc)
        escale = max(float(np.abs(E[i]).max()), S.bn / (2 * math.pi * r))
        sscale = float(np.abs(Sg[i]).max())
        require(sscale > 0, lambda: 'stress vanishes identically at local point %r' % (loc,))
        # symmetric tensors
        close(np.abs(E[i] - E[i].T).max(), 1e-12 * S.amp * escale, 'sym_e', lambda: 'strain not symmetric at %r: %r' % (loc, E[i]))
        close(np.abs(Sg[i] - Sg[i].T).max(), 1e-12 * S.amp * sscale, 'sym_s', lambda: 'stress not symmetric at %r: %r' % (loc, Sg[i]))
        # strain = symmetric gradient of the displacement (4th-order differences, 12 points in one array call)
        G, umax = vr.fd_gradient(lambda q: field(sol, 'displacement', q), x, H_REL * r)
        Efd = (G + G.T) / 2
        close(np.abs(Efd - E[i]).max(), tol_u * escale, 'fd_strain',
              lambda: 'strain at local point %r is not the symmetric gradient of the displacement:\nstrain\n%r\nsym grad u\n%r' % (loc, E[i], Efd))
        # Hooke: stress = C : strain with the medium the solution reports (already compared with my rotated tensor)
        hooke = np.einsum('ijkl,kl->ij', C4, E[i])
        close(np.abs(hooke - Sg[i]).max(), TOL_HOOKE * S.amp * S.cmax * 9 * escale, 'hooke',
              lambda: 'stress at %r is not C:strain:\nstress\n%r\nC:strain\n%r' % (loc, Sg[i], hooke))
        # equilibrium: divergence of the stress vanishes
        Gs, smax = vr.fd_gradient(lambda q: field(sol, 'stress', q), x, H_REL * r)
        div = np.einsum('ijj->i', Gs)
        close(np.abs(div).max(), tol_s * sscale / r * gg, 'fd_div',
              lambda: 'div(stress) at local point %r = %r (|stress| %.3g, r %.3g)' % (loc, div, sscale, r))
        # homogeneity of degree -1
        close(np.abs(E2[i] * lam - E[i]).max(), TOL_SCALE * S.amp * gg * escale, 'scale_e', lambda: 'strain(%g x) != strain(x)/%g at %r' % (lam, lam, loc))
        close(np.abs(S2[i] * lam - Sg[i]).max(), TOL_SCALE * S.amp * gg * sscale, 'scale_s', lambda: 'stress(%g x) != stress(x)/%g at %r' % (lam, lam, loc))
        if loc[0] == 0.0 or loc[1] == 0.0:
            labels.add('pt_on_axis')
        if g.near_axis(loc):
            labels.add('pt_near_axis')
        if gg > 5:
            labels.add('g>5')
    labels.add('ptlist' if pl else 'ptarray')
    labels.add('npts%d' % len(case['pts']))
    return labels


# ----------------------------------------------------------------------------- clause: energy

_xs = st.lists(st.one_of(gens.nice(0.3, 30.0, 3), st.sampled_from([1.0, 2.0])), min_size=1, max_size=2)


@st.composite
def energy_cases(draw):
    return {'prob': draw(_prob_any), 'xs': draw(_xs), 'z': draw(_cutz), 'resolve': draw(_bool)}


def barnett_lothe_K(S, C4=None):
    """K = -(1/pi) int_0^pi [ (m n)(n n)^-1 (n m) - (m m) ](theta) d theta with (a b)_jk = a_i C_ijkl b_l and the pair (m, n)
    rotated by theta about xi (Barnett & Lothe 1973; Bacon, Barnett & Scattergood 1979 eq. 3.139 ff).  The integrand is
    pi-periodic and analytic: the midpoint rule converges like exp(-2 N |Im theta_0|), theta_0 = arctan(-1/p) the nearest
    pole.  N is chosen for exp(-40)."""
    im = min(abs(np.arctan(-1.0 / complex(p)).imag) for p in S.roots)
    N = int(min(8192, max(64, math.ceil(20.0 / im))))
    th = (np.arange(N) + 0.5) * math.pi / N
    mt = np.cos(th)[:, None] * S.m + np.sin(th)[:, None] * S.n
    nt = -np.sin(th)[:, None] * S.m + np.cos(th)[:, None] * S.n
    C4 = S.C4s if C4 is None else C4
    mm = np.einsum('ni,ijkl,nl->njk', mt, C4, mt)
    mn = np.einsum('ni,ijkl,nl->njk', mt, C4, nt)
    nn = np.einsum('ni,ijkl,nl->njk', nt, C4, nt)
    N3 = mn @ np.linalg.inv(nn) @ np.transpose(mn, (0, 2, 1)) - mm
    return -N3.mean(axis=0), (N * im >= 19.9)


def oracle_energy(case):
    prob = case['prob']
    S, sol, labels, judge = begin(prob)
    if not judge:
        return labels
    Cg = check_header(sol, S, prob)
    K = np.asarray(sol.K_tensor)
    require(K.shape == (3, 3) and K.dtype.kind == 'f' and bool(np.all(np.isfinite(K))), lambda: 'K_tensor is not a real finite 3x3 array: %r' % (K,))
    kmax = float(np.abs(K).max())
    close(np.abs(K - K.T).max(), 1e-10 * S.amp * kmax, 'K_sym', lambda: 'K_tensor not symmetric: %r' % (K,))
    w = np.linalg.eigvalsh((K + K.T) / 2)
    require(w[0] > 0, lambda: 'K_tensor not positive definite: eigenvalues %r' % (w,))
    # independent value of the tensor: angular integral over the medium (no eigenvectors, valid for degenerate roots too)
    # A medium with entries between rounding noise and 1e-7 of the largest (crystal rotated by 1e-6 degrees, ...) is solved
    # with those entries zeroed or not (ElasticConstants.transform, tol = 1e-8): up to 1e-8 max|C| per entry, which K
    # amplifies by the anisotropy (unchanged tree: cubic, Zener ratio 24, rotated by 1e-6 degrees, line along [111]:
    # 4.4e-8 against my medium, 2.6e-15 against the reported one; replay C12-energy-4 of the fix round).  The integral is
    # then taken over the medium the solution reports, which check_header has tied to mine within TOL_C.
    floor = (not S.iso) and (_floor_band(S.C6) or _floor_band(S.C6s))
    Kref, converged = barnett_lothe_K(S, el.voigt_to_tensor(Cg) if floor else None)
    if floor:
        labels.add('BL_reported_medium')
    if converged:
        close(np.abs(K - Kref).max(), (TOL_K + 1e-10 * S.amp) * float(np.abs(Kref).max()), 'K_BL',
              lambda: 'K_tensor\n%r\nagainst the Barnett-Lothe integral of the medium\n%r' % (K, Kref))
        labels.add('BL')
    if S.iso:
        Ke, Ks = S.mu / (1 - S.nu), S.mu
        Kiso = Ke * (np.outer(S.m, S.m) + np.outer(S.n, S.n)) + Ks * np.outer(S.xi, S.xi)
        close(np.abs(K - Kiso).max(), TOL_K * Ke, 'K_iso', lambda: 'K_tensor\n%r\nagainst mu/(1-nu) (mm + nn) + mu xixi\n%r' % (K, Kiso))
    # scalar coefficients
    bKb = float(S.b @ K @ S.b)
    kc, pre = float(sol.K_coeff), float(sol.preln)
    close(abs(kc - bKb / S.bn ** 2), 1e-7 * kmax, 'K_coeff', lambda: 'K_coeff = %r, b.K.b/b.b = %r' % (kc, bKb / S.bn ** 2))
    close(abs(pre - bKb / (4 * math.pi)), 1e-7 * kmax * S.bn ** 2, 'preln', lambda: 'preln = %r, b.K.b/4pi = %r' % (pre, bKb / (4 * math.pi)))
    require(kc > 0 and pre > 0, lambda: 'K_coeff %r / preln %r not positive' % (kc, pre))
    # traction on the slip plane ahead of the line: sigma(x m) . n = K b / (2 pi x)  (the work done against it when the cut
    # is displaced by b is the prelogarithmic energy b.K.b/4pi per ln R)
    for x in case['xs']:
        pos = x * S.m + case['z'] * S.xi
        sg = field(sol, 'stress', pos)
        tr = sg @ S.n
        exp = K @ S.b / (2 * math.pi * x)
        close(np.abs(tr - exp).max(), (1e-7 + 1e-10 * S.amp) * kmax * S.bn / (2 * math.pi * x), 'traction',
              lambda: 'traction on the slip plane at x = %g: %r, K.b/(2 pi x) = %r' % (x, tr, exp))
    # the same object solved again for the medium 2 C and the Burgers vector -1.5 b: everything is linear in b, the stress
    # and K also in C (the zeroing floors are relative, so they do not interfere); nothing of the first solution may survive
    if case.get('resolve') and prob['solver'] != 'auto':
        import atomman as am
        pos = np.array([x * S.m + case['z'] * S.xi for x in case['xs']] + [S.n * case['xs'][0] - 0.5 * S.m])
        before = {nm: field(sol, nm, pos) for nm in ('displacement', 'strain', 'stress')}
        b, kw = solver_args(prob, S)
        try:
            sol.solve(am.ElasticConstants(Cij=2.0 * S.C6), (-1.5 * np.asarray(b, dtype=float)).tolist() if prob['aslist'] else -1.5 * np.asarray(b, dtype=float), **kw)
        except ValueError as e:
            # a borderline near-degenerate problem can pass the solver's self-checks for C and fail them for 2 C
            if str(e) in STROH_REFUSALS and not S.iso and S.gap < GAP_REFUSAL:
                labels.add('resolve_refused')
                return labels
            if str(e) == ISO_REFUSAL and S.iso and S.dev > BAND_LO:        # at the edge of the band (2 C: same deviation)
                labels.add('resolve_refused')
                return labels
            raise
        K2 = np.asarray(sol.K_tensor, dtype=float)
        close(np.abs(K2 - 2 * K).max(), 1e-9 * S.amp * kmax, 'resolve_K', lambda: 'after solve(2 C, -1.5 b) on the same object K_tensor is\n%r\nexpected twice\n%r' % (K2, K))
        for nm, f in (('displacement', -1.5), ('strain', -1.5), ('stress', -3.0)):
            got = field(sol, nm, pos)
            sc = S.bn if nm == 'displacement' else float(np.abs(before[nm]).max())
            close(np.abs(got - f * before[nm]).max(), 1e-9 * S.amp * sc * abs(f), 'resolve_' + nm,
                  lambda: 'after solve(2 C, -1.5 b) on the same object %s is not %g times the first solution' % (nm, f))
        close(abs(float(sol.preln) - 4.5 * pre), 1e-7 * kmax * S.bn ** 2 * 4.5, 'resolve_pre', lambda: 'preln after solve(2 C, -1.5 b): %r, expected %r' % (sol.preln, 4.5 * pre))
        labels.add('resolved')
    return labels


# ----------------------------------------------------------------------------- clause: covariance

_prob_cov = g.problems()
_rot = g11.rot_specs()
_qc = st.integers(0, 23)
_exactqr = st.sampled_from([0, 0, 0, 0, 0, 0, 0, 0, 1, 2, 3, 3])     # bit 0: Q, bit 1: R an exact signed permutation of the axes


@st.composite
def cov_cases(draw):
    return {'prob': draw(_prob_cov), 'Q': draw(_rot), 'R': draw(_rot), 'Qc': draw(_qc), 'pts': draw(g.local_points(2, 4)),
            'Rc': draw(_qc), 'exactQR': draw(_exactqr)}


def _cubic_group():
    """the 24 proper rotations that map the Cartesian axes onto each other (signed permutation matrices, exact)"""
    out = []
    for p in ((0, 1, 2), (1, 2, 0), (2, 0, 1), (0, 2, 1), (2, 1, 0), (1, 0, 2)):
        for sx in (1.0, -1.0):
            for sy in (1.0, -1.0):
                for sz in (1.0, -1.0):
                    M = np.zeros((3, 3))
                    for i, sg in enumerate((sx, sy, sz)):
                        M[i, p[i]] = sg
                    if np.linalg.det(M) > 0:
                        out.append(M)
    return out


CUBIC_GROUP = _cubic_group()


def _floor_band(C6):
    a = np.abs(C6)
    return bool(np.any((a > 1e-13 * a.max()) & (a < 1e-7 * a.max())))


def oracle_covariance(case):
    prob = case['prob']
    S, sol, labels, judge = begin(prob)
    if not judge:
        return labels
    check_header(sol, S, prob)
    solver = 'iso' if S.iso else 'stroh'
    P = positions(S, case['pts'])
    base = {nm: field(sol, nm, P) for nm in ('displacement', 'strain', 'stress')}
    K = np.asarray(sol.K_tensor, dtype=float)
    cond = float(np.linalg.cond(S.C6))

    def compare(other, R, what, band):
        tol = TOL_COV * S.amp + (2e-7 * cond if band else 0.0)
        sfx = '_band' if band else ''
        PR = P @ R.T
        u = field(other, 'displacement', PR)
        # the displacement is defined up to the constant the branch of the logarithm fixes; it is covariant too
        close(np.abs(u - base['displacement'] @ R.T).max(), tol * 10 * S.bn, 'cov_u' + sfx, lambda: '%s: displacement is not R u(R^t x)' % what)
        for nm in ('strain', 'stress'):
            f = field(other, nm, PR)
            exp = np.einsum('ia,nab,jb->nij', R, base[nm], R)
            close(np.abs(f - exp).max(), tol * float(np.abs(exp).max()), 'cov_' + nm + sfx, lambda: '%s: %s is not R %s R^t' % (what, nm, nm))
        K2 = np.asarray(other.K_tensor, dtype=float)
        close(np.abs(K2 - R @ K @ R.T).max(), (1.5e-7 + tol) * float(np.abs(K).max()), 'cov_K' + sfx, lambda: '%s: K_tensor is not R K R^t' % what)
        close(abs(float(other.K_coeff) - float(sol.K_coeff)), (1.5e-7 + tol) * float(np.abs(K).max()), 'cov_Kc', lambda: '%s: K_coeff changed' % what)
        close(abs(float(other.preln) - float(sol.preln)), (1.5e-7 + tol) * float(np.abs(K).max()) * S.bn ** 2, 'cov_pre', lambda: '%s: preln changed' % what)

    # (a) rotate the crystal by Q and the laboratory by R:  C' = Q.C, b' = Q b, transform' = R T Q^t, m' = R m, n' = R n
    Q, R = el.rotation_matrix(*case['Q']), el.rotation_matrix(*case['R'])
    if S.iso and not S.exact:
        # the closed-form class on a nearly isotropic crystal: its acceptance test wants the entries that vanish for an
        # isotropic medium to vanish exactly (atol = 0), so the crystal expressed in generally rotated axes is outside the
        # accepted domain; the rotations of the crystal that stay inside are the 24 that permute the axes.  The orientation of
        # the crystal relative to the dislocation (transform' = R T Q^t) is general all the same.
        Q = CUBIC_GROUP[case.get('Qc', 0)]
        labels.add('Q_axis_permutation')
    # exactly structured versions of the case: the crystal and / or the laboratory relabelled by one of the 24 signed
    # permutations of the axes (no rounding in Q, R: whatever shortcut is taken for "nothing to rotate" is taken here)
    ex = case.get('exactQR', 0)
    if ex & 1:
        Q = CUBIC_GROUP[case.get('Qc', 0)]
        labels.add('Q_exact_permutation')
    if ex & 2:
        R = CUBIC_GROUP[case.get('Rc', 0)]
        labels.add('R_exact_permutation')
    C6q = el.rotate_voigt(S.C6, Q)
    C6q = (C6q + C6q.T) / 2
    m2, n2 = R @ S.m, R @ S.n
    m2 = m2 / np.linalg.norm(m2)
    n2 = n2 - m2 * (m2 @ n2)
    n2 = n2 / np.linalg.norm(n2)
    other = call_solver(solver, C6q, Q @ S.b_cart, {'transform': R @ S.T @ Q.T, 'm': m2, 'n': n2}, S.exact, None if S.iso else S.gap, S.dev)
    if other is None:
        labels.add('rotated_refused')
    else:
        # entries between rounding noise and 1e-7 of the largest may be zeroed (tol = 1e-8) in one problem and kept in the
        # other: crystal tensor, rotated crystal tensor, and both solution-frame tensors
        band = _floor_band(C6q) or _floor_band(S.C6s) or _floor_band(S.C6) or _floor_band(el.rotate_voigt(S.C6s, R))
        # the same for Burgers-vector components below 1e-8 of the largest (fields are linear in b; a component's field
        # can exceed the main one's by the anisotropy of K, hence the same cond-scaled allowance)
        band = band or _floor_band(S.b_raw) or _floor_band(R @ S.b_raw)
        compare(other, R, 'crystal rotated by Q, laboratory by R', band)
        labels.add('rotated')
        if el.rotation_angle_deg(R) > 5 and el.rotation_angle_deg(Q) > 5:
            labels.add('both_generic')
        if S.iso and not S.exact:
            labels.add('rotated_neariso')
    # (b) orientation by Miller indices = orientation by the corresponding transform with a Cartesian Burgers vector
    if prob['orient']['kind'] == 'miller':
        _, kw = solver_args(prob, S)
        kw2 = {k: v for k, v in kw.items() if k in ('m', 'n')}
        kw2['transform'] = S.T
        other = call_solver(solver, S.C6, S.b_cart, kw2, S.exact, None if S.iso else S.gap, S.dev)
        if other is None and not S.iso:
            # Stroh with nearly coincident roots (call_solver has verified gap < GAP_REFUSAL; nearly isotropic media answered
            # by the dispatcher's Stroh attempt are the typical member): the self-checks sit on their threshold and the two
            # spellings differ by rounding in transform (seen on the unchanged tree: hexagonal medium, gap 1.7e-3,
            # replay C12-covariance-7) - a refusal the ASSUMPTIONS count and do not judge
            labels.add('miller_vs_transform_refused')
            return labels
        require(other is not None, 'the problem is accepted with Miller indices but refused with the corresponding transform')
        compare(other, np.eye(3), 'Miller indices replaced by the corresponding transform', _floor_band(S.C6s) or _floor_band(S.b_raw))
        labels.add('miller_vs_transform')
    return labels


# ----------------------------------------------------------------------------- clause: decades

def _rel(a, b, sc):
    """largest |a - b| per leading index, divided by that index's own scale"""
    a, b = np.asarray(a, dtype=float), np.asarray(b, dtype=float)
    d = np.abs(a - b).reshape(len(a), -1).max(axis=1)
    return d / np.asarray(sc, dtype=float)


def oracle_decades(case):
    """ONE call of every field for an array of points whose distances from the line span up to 12 decades (times an overall
    length unit): every comparison is made point by point, relative to that point's own magnitude - a point in the far field
    is judged as strictly as one next to the core"""
    prob = case['prob']
    S, sol, labels, judge = begin(prob)
    pts = g.decade_points(case)
    rs = np.array([e[2] for e in pts])
    span = math.log10(rs.max() / rs.min())
    labels.add('span>=8' if span >= 8 else 'span4..8' if span >= 4 else 'span<4')
    labels.add('lscale' if case['lk'] else 'lscale0')
    if case['lk'] == -10:
        labels.add('lscale_SI')
    if prob.get('bscaled'):
        labels.add('b_scaled')
    tol = prob.get('tol')
    labels.add('tol_default' if tol is None else 'tol_%g' % tol)
    if tol is not None and tol > 1e-8:
        labels.add('tol_loose')
    if not judge:
        if tol is not None and tol < 1e-8 and 'refusal' in labels:
            labels.add('refusal_tight_tol')
        return labels
    check_header(sol, S, prob)
    if S.bslack:
        labels.discard('nt')
        labels.add('b_component_on_tol_threshold')         # zeroed or kept: either is what "below tol" allows
        return labels
    if S.tol > 1e-8 and not S.iso and S.gap < 0.05:
        # a looser tol lets the self-checks pass closer to a degenerate eigenproblem than the (1 + 1/gap) model of the
        # tolerances was established for (unchanged tree, default tol: accepted problems reach gap 1.3e-3): header only
        labels.discard('nt')
        labels.add('loose_tol_near_degenerate')
        return labels
    pl = case['ptlist']
    loc = np.array([e[3] for e in pts])
    P = positions(S, loc)
    n = len(P)
    Cg = np.asarray(sol.C.Cij, dtype=float)
    C4 = el.voigt_to_tensor(Cg)
    # ---- every field: ONE call for the whole array, and one call per point
    arr, one = {}, {}
    Pin = P.copy()
    for name in ('displacement', 'strain', 'stress'):
        arr[name] = field(sol, name, Pin, pl)
        one[name] = np.array([field(sol, name, P[i], pl) for i in range(n)])
    require(np.array_equal(Pin, P), 'the position array was modified by the evaluation')
    gs = np.array([geom(S, l)[1] for l in loc])
    # per-point scales: the point's own field magnitude (never below the bare b / 2 pi r for the strain)
    esc = np.maximum(np.abs(one['strain']).reshape(n, -1).max(axis=1), S.bn / (2 * math.pi * rs))
    ssc = np.abs(one['stress']).reshape(n, -1).max(axis=1)
    require(bool(np.all(ssc > 0)), lambda: 'stress vanishes identically at r = %r' % (rs[ssc <= 0].tolist(),))
    # |u| <~ |b| |log eta| / 2 pi, |log eta| <= |ln r| + pi
    usc = S.bn * (1.0 + np.abs(np.log(rs)))
    for name, sc in (('displacement', usc), ('strain', esc), ('stress', ssc)):
        e = _rel(arr[name], one[name], sc)
        i = int(np.argmax(e))
        close(e[i], 1e-11 * S.amp, 'dec_single_' + name,
              lambda: '%s: array call over r = %.3g .. %.3g differs from the single-point call at r = %.3g (relative to that point\'s own magnitude)'
              % (name, rs.min(), rs.max(), rs[i]))
    E, Sg, U = arr['strain'], arr['stress'], arr['displacement']
    # ---- Hooke's law, point by point
    hooke = np.einsum('ijkl,nkl->nij', C4, E)
    e = _rel(Sg, hooke, 9 * S.cmax * esc)
    i = int(np.argmax(e))
    close(e[i], TOL_HOOKE * S.amp, 'dec_hooke', lambda: 'stress at r = %.3g (array over r = %.3g .. %.3g) is not C:strain:\nstress\n%r\nC:strain\n%r'
          % (rs[i], rs.min(), rs.max(), Sg[i], hooke[i]))
    for name, F, sc in (('strain', E, esc), ('stress', Sg, ssc)):
        e = _rel(F, np.transpose(F, (0, 2, 1)), sc)
        close(e.max(), 1e-12 * S.amp, 'dec_sym_' + name, lambda: '%s not symmetric' % name)
    # ---- 1/r along every ray: r F(r d) is the same tensor for all r; u(r d) - u(r0 d) = ln(r / r0) w with ONE vector w
    rays = {}
    for idx, (i, j, r, l) in enumerate(pts):
        rays.setdefault(j, []).append(idx)
    w_all = []
    for j, ids in sorted(rays.items()):
        i0 = ids[0]
        for name, F, sc in (('strain', E, esc), ('stress', Sg, ssc)):
            for i in ids[1:]:
                err = float(np.abs(F[i] * rs[i] - F[i0] * rs[i0]).max()) / (sc[i] * rs[i])
                close(err, TOL_SCALE * S.amp * gs[i], 'dec_scale_' + name,
                      lambda: '%s does not fall off as 1/r along a ray: r = %.3g against r = %.3g (one array call)\n%r\n%r'
                      % (name, rs[i], rs[i0], F[i] * rs[i], F[i0] * rs[i0]))
        for i in ids[1:]:
            lr = math.log(rs[i] / rs[i0])
            if abs(lr) >= 0.69:
                w_all.append((i, i0, (U[i] - U[i0]) / lr, gs[i] * (usc[i] + usc[i0]) / abs(lr)))
    for (i, i0, w, amp_w) in w_all[1:]:
        close(np.abs(w - w_all[0][2]).max(), 1e-11 * S.amp * (amp_w + w_all[0][3]), 'dec_log',
              lambda: 'displacement: [u(r d) - u(r0 d)] / ln(r / r0) = %r for r = %.3g, r0 = %.3g, but %r for r = %.3g, r0 = %.3g'
              % (w, rs[i], rs[i0], w_all[0][2], rs[w_all[0][0]], rs[w_all[0][1]]))
    if len(w_all) >= 2:
        labels.add('log_law')
    # ---- isotropic class: the textbook closed forms at every point
    if S.iso:
        ref = vr.iso_reference(S.mu, S.nu, float(S.b @ S.m), float(S.b @ S.xi), S.m, S.n, S.xi, P)
        for name, sc in (('strain', esc), ('stress', ssc)):
            e = _rel(arr[name], ref[name], sc)
            i = int(np.argmax(e))
            close(e[i], 1e-11, 'dec_iso_' + name, lambda: '%s at r = %.3g differs from the Hirth-Lothe closed form' % (name, rs[i]))
        d = U - ref['disp']
        close(np.abs(d - d[0]).max(), 1e-11 * (usc.max()), 'dec_iso_disp', 'displacement differs from the Hirth-Lothe closed form by more than a constant')
        labels.add('closed_form')
    # ---- elasticity itself at one of the points (same comparisons and tolerances as the kinematics clause)
    k = case['fd'] % n
    x, r = P[k], rs[k]
    _, gg, tol_u, tol_s = fd_tols(S, loc[k])
    G, _ = vr.fd_gradient(lambda q: field(sol, 'displacement', q), x, H_REL * r)
    Efd = (G + G.T) / 2
    close(np.abs(Efd - E[k]).max(), tol_u * esc[k], 'dec_fd_strain',
          lambda: 'strain at r = %.3g is not the symmetric gradient of the displacement:\nstrain\n%r\nsym grad u\n%r' % (r, E[k], Efd))
    Gs, _ = vr.fd_gradient(lambda q: field(sol, 'stress', q), x, H_REL * r)
    div = np.einsum('ijj->i', Gs)
    close(np.abs(div).max(), tol_s * ssc[k] / r * gg, 'dec_fd_div', lambda: 'div(stress) at r = %.3g = %r (|stress| %.3g)' % (r, div, ssc[k]))
    labels.add('fd_far' if r >= 1e3 * g.pow10(case['lk']) else 'fd_near' if r <= 1e-3 * g.pow10(case['lk']) else 'fd_mid')
    # ---- Burgers vector = jump across the cut at the smallest and at the largest radius
    for r in (rs.min(), rs.max()):
        p0 = -r * S.m
        up = field(sol, 'displacement', p0 + DELTA * r * S.n, pl)
        um = field(sol, 'displacement', p0 - DELTA * r * S.n, pl)
        close(np.abs(up - um - S.b).max(), TOL_JUMP * S.bn, 'dec_jump', lambda: 'u(x=-%g, y=0+) - u(x=-%g, y=0-) = %r, Burgers vector %r' % (r, r, up - um, S.b))
    labels.add('ptlist' if pl else 'ptarray')
    labels.add('npts>=6' if n >= 6 else 'npts<6')
    return labels


# ----------------------------------------------------------------------------- clause: history

ARGS = ('b', 'm', 'n', 'T', 'uvw', 'hkl')                    # array-valued arguments, in the order of case['forms']
FORM_NAMES = ('f8', 'strided', 'fortran_or_reversed', 'readonly', 'list', 'tuple')
HIST_KEY_MN = 'C12:history:m-n-array-argument-aliased'


def as_form(a, form, integer=False):
    """the values a in one of the documented array-like forms (see gens_c12, caller-side histories)"""
    a = np.array(a, dtype=int if integer else float)
    if form == 0:
        return a.copy()
    if form == 1:
        if a.ndim == 1:
            v = np.zeros(2 * len(a) + 1, dtype=a.dtype)[1::2]
        else:
            v = np.zeros((a.shape[0], 2 * a.shape[1]), dtype=a.dtype)[:, ::2]
        v[...] = a
        return v
    if form == 2:
        if a.ndim == 1:
            v = np.zeros(len(a), dtype=a.dtype)[::-1]
            v[...] = a
            return v
        return np.asfortranarray(a)
    if form == 3:
        a = a.copy()
        a.setflags(write=False)
        return a
    if form == 4:
        return a.tolist()
    return tuple(tuple(r) for r in a.tolist()) if a.ndim == 2 else tuple(a.tolist())


def overwrite(obj, new):
    """the caller overwrites its own array / list in place; False when the object is immutable (tuple, read-only array, str)"""
    if isinstance(obj, np.ndarray):
        if not obj.flags.writeable:
            return False
        obj[...] = new
        return True
    if isinstance(obj, list):
        new = np.asarray(new).tolist()
        for i, v in enumerate(new):
            if isinstance(obj[i], list):
                obj[i][:] = v
            else:
                obj[i] = v
        return True
    return False


def _perm_voigt(C6, k):
    p = g._PERMS[k % 6]
    idx = [int(el.VI[p[i], p[j]]) for (i, j) in el.PAIRS]
    out = np.empty((6, 6))
    out[np.ix_(idx, idx)] = C6
    return out


def redefine_C(C, how, f, perm, C6, cmax):
    """the caller re-uses its ElasticConstants object for another medium, through one of the public ways of defining it"""
    new = f * _perm_voigt(C6, perm)
    a = f * cmax
    if how == 'Cij':
        C.Cij = new
    elif how == 'Cijkl':
        C.Cijkl = el.voigt_to_tensor(new)
    elif how == 'Sij':
        C.Sij = np.linalg.inv(new)
    elif how == 'Cij9':
        C.Cij9 = new[np.ix_([0, 1, 2, 3, 4, 5, 3, 4, 5], [0, 1, 2, 3, 4, 5, 3, 4, 5])]
    elif how == 'Sijkl':
        C.Sijkl = el.compliance_voigt_to_tensor(np.linalg.inv(new))
    elif how == 'cubic':
        C.cubic(C11=a, C12=0.45 * a, C44=0.3 * a)
    elif how == 'isotropic':
        C.isotropic(E=a, nu=0.29)
    elif how == 'hexagonal':
        C.hexagonal(C11=a, C33=1.1 * a, C12=0.4 * a, C13=0.35 * a, C44=0.25 * a)
    elif how == 'orthorhombic':
        C.orthorhombic(C11=a, C22=1.2 * a, C33=0.9 * a, C12=0.4 * a, C13=0.35 * a, C23=0.3 * a, C44=0.25 * a, C55=0.2 * a, C66=0.3 * a)
    else:
        raise KeyError(how)


def redefine_box(box, how, f, V):
    W = f * np.roll(V, 1, axis=1)[[1, 2, 0]]                 # another right-handed cell
    if how == 'vects':
        box.vects = W
    elif how == 'set_vectors':
        box.set_vectors(avect=W[0], bvect=W[1], cvect=W[2])
    elif how == 'set_abc':
        box.set_abc(a=3.1 * f, b=4.2 * f, c=5.3 * f, alpha=80.0, beta=95.0, gamma=107.0)
    elif how == 'set_lengths':
        box.set_lengths(lx=3.1 * f, ly=4.2 * f, lz=5.3 * f, xy=0.4 * f, xz=-0.3 * f, yz=0.7 * f)
    elif how == 'origin':
        box.origin = [1.5 * f, -2.0, 0.25]
    else:
        raise KeyError(how)


def read_outputs(sol, P, seed):
    """every output of a solution, read in an order fixed by seed.  Returns {name: (object returned, float/complex copy)}"""
    names = ['m', 'n', 'ξ', 'transform', 'burgers', 'C', 'tol', 'K_tensor', 'K_coeff', 'preln', 'characterangle',
             'displacement', 'strain', 'stress', 'stress_single']
    names += ['mu', 'nu'] if type(sol).__name__ == 'IsotropicVolterraDislocation' else ['p', 'A', 'L', 'k']
    order = np.random.default_rng(seed).permutation(len(names))
    out = {}
    for i in order:
        nm = names[int(i)]
        if nm in ('displacement', 'strain', 'stress'):
            raw = getattr(sol, nm)(P)
        elif nm == 'stress_single':
            raw = sol.stress(P[-1])
        elif nm == 'characterangle':
            raw = sol.characterangle()
        elif nm == 'C':
            raw = sol.C.Cij
        else:
            raw = getattr(sol, nm)
        out[nm] = (raw, np.array(raw).copy())
    return out


def same_outputs(base, now, what):
    for nm in sorted(base):
        a, b = base[nm][1], now[nm][1]
        require(a.shape == b.shape and a.dtype.kind == b.dtype.kind, lambda: '%s: %s changed shape / type: %r %s -> %r %s' % (what, nm, a.shape, a.dtype, b.shape, b.dtype))
        sc = float(np.abs(a).max()) if a.size else 0.0
        d = float(np.abs(a - b).max()) if a.size else 0.0
        require(d <= 1e-13 * sc, lambda: '%s: output %s of the solution changed by %.3g (relative %.3g)\nbefore\n%r\nnow\n%r'
                % (what, nm, d, d / sc if sc else float('inf'), a, b))


def ledger_add(ledger, what, outs):
    """result ledger: every array a call RETURNED is kept as the object it is, next to a private copy"""
    for nm in sorted(outs):
        raw = outs[nm][0] if isinstance(outs[nm], tuple) else outs[nm]
        if isinstance(raw, np.ndarray):
            ledger.append((what + ' ' + nm, raw, raw.copy()))


def ledger_check(ledger, when):
    """... and is re-judged, bit for bit, after whatever happens later (calls on the same and on other solutions, operations of
    the caller): a result is a value, not a window on a workspace"""
    for what, raw, cp in ledger:
        require(raw.shape == cp.shape and raw.dtype == cp.dtype and raw.tobytes() == cp.tobytes(),
                lambda: '%s: the array returned earlier by %s has changed:\nas returned\n%r\nnow\n%r' % (when, what, cp, raw))


def _copy_arg(v):
    import copy
    return np.array(v) if isinstance(v, np.ndarray) else copy.deepcopy(v)


def oracle_history(case):
    """the solution is a value: nothing the caller does afterwards with the objects it handed over, and nothing that is done
    with the solution (evaluating it, reading it in any order, building other solutions), changes any of its outputs; and
    solving / evaluating leaves the caller's objects as they were"""
    import atomman as am
    from atomman.defect import Stroh, IsotropicVolterraDislocation, solve_volterra_dislocation
    prob = case['prob']
    S = setup(prob)
    labels = g.labels_of(prob)
    forms = dict(zip(ARGS, case['forms']))
    b0, kw = solver_args(prob, S)
    # ---- the caller's objects
    C = am.ElasticConstants(Cij=np.array(S.C6, dtype=float))
    held = {'b': as_form(b0, forms['b'])}
    for key, arg in (('m', 'm'), ('n', 'n')):
        if arg in kw and not isinstance(kw[arg], str):
            held[key] = kw[arg] = as_form(kw[arg], forms[key])
    for arg in ('transform', 'axes'):
        if arg in kw:
            held['T'] = kw[arg] = as_form(kw[arg], forms['T'])
    if 'ξ_uvw' in kw:
        held['uvw'] = kw['ξ_uvw'] = as_form(kw['ξ_uvw'], forms['uvw'], integer=True)
        held['hkl'] = kw['slip_hkl'] = as_form(kw['slip_hkl'], forms['hkl'], integer=True)
    box = kw.get('box')
    for key in held:
        labels.add('form_%s' % FORM_NAMES[forms[key]])
    ident = bool(np.array_equal(S.T, np.eye(3)))
    if ident:
        labels.add('identity_orientation')

    def snapshot():
        sn = {key: np.array(v).copy() for key, v in held.items()}
        sn['C'] = np.array(C.Cij)
        if box is not None:
            sn['box'] = np.vstack([box.vects, box.origin])
        return sn

    def untouched(sn, when):
        now = snapshot()
        for key in sorted(sn):
            require(sn[key].shape == now[key].shape and np.array_equal(sn[key], now[key]),
                    lambda: '%s changed the caller\'s %s:\nbefore\n%r\nafter\n%r' % (when, key, sn[key], now[key]))

    # ---- solve
    sn = snapshot()
    sol = call_solver(prob['solver'], S.C6, held['b'], kw, S.exact, None if S.iso else S.gap, S.dev, Cobj=C)
    untouched(sn, 'solving')
    if sol is None:
        labels.add('refusal')
        return labels
    labels.add('accepted')
    name = type(sol).__name__
    if prob['solver'] == 'auto' and not S.exact and name == 'IsotropicVolterraDislocation':
        require(S.dev <= BAND_HI, lambda: 'solve_volterra_dislocation returned the isotropic class for a medium whose constants are '
                '%.3g (relative) away from their isotropic average' % S.dev)
        to_iso_mode(S)
        labels.add('auto_fallback')
    labels.add('answer_' + name)
    # the answer is judged where the other clauses judge it (begin()): exact or accepted nearly isotropic media by the closed
    # form in the slip plane, Stroh away from isotropy; the invariance below holds for every answer
    judged = not (S.near and not S.iso) and not (S.iso and not S.exact and S.dev == g.BAND) and not ('auto_fallback' in labels and prob['bsol'][1] != 0.0) \
        and not S.bslack and not left_plane(S)
    P = positions(S, case['pts'])
    Pin = P.copy()
    if judged:
        Cg = check_header(sol, S, prob)
        E = field(sol, 'strain', Pin)
        Sg = field(sol, 'stress', Pin)
        hooke = np.einsum('ijkl,nkl->nij', el.voigt_to_tensor(Cg), E)
        esc = max(float(np.abs(E).max()), S.bn / (2 * math.pi * min(math.hypot(l[0], l[1]) for l in case['pts'])))
        close(np.abs(hooke - Sg).max(), TOL_HOOKE * S.amp * S.cmax * 9 * esc, 'hist_hooke', 'stress is not C:strain (first evaluation)')
        K = np.asarray(sol.K_tensor, dtype=float)
        tr = field(sol, 'stress', 2.0 * S.m) @ S.n
        close(np.abs(tr - K @ S.b / (4 * math.pi)).max(), (1e-7 + 1e-10 * S.amp) * float(np.abs(K).max()) * S.bn / (4 * math.pi), 'hist_traction',
              'traction on the slip plane at x = 2 is not K.b/(2 pi x) (first evaluation)')
        labels.add('judged')
    base = read_outputs(sol, Pin, case['order'])
    untouched(sn, 'evaluating the solution')
    require(np.array_equal(Pin, P), 'the position array was modified by the evaluation')
    again = read_outputs(sol, Pin, case['order'] + 1)
    same_outputs(base, again, 'reading the outputs a second time, in another order')
    ledger = []
    ledger_add(ledger, 'the first solution:', base)
    ledger_add(ledger, 'the first solution (second reading):', again)
    others = []

    # ---- history
    fns = {'stroh': Stroh, 'iso': IsotropicVolterraDislocation, 'auto': solve_volterra_dislocation}
    pending = None
    applied = set()
    C6now = np.array(S.C6, dtype=float)
    for k, op in enumerate(case['ops']):
        kind = op['op']
        what = 'operation %d (%s)' % (k, jshort(op))
        labels.add('op_' + kind)
        if kind == 'C':
            redefine_C(C, op['how'], op['f'], op['perm'], C6now, S.cmax)
            C6now = np.array(C.Cij)
            applied.add('C')
            labels.add('C_via_' + op['how'])
            what += ': the caller re-defined the ElasticConstants object it had handed to the solver'
        elif kind == 'arr':
            keys = [a for a in ARGS + ('m', 'n') if a in held]
            kind = keys[op['which'] % len(keys)]
            labels.add('op_' + kind)
            obj = held[kind]
            old = np.array(obj).copy()
            if kind in ('m', 'n'):
                new = -old if op['f'] < 0 else np.roll(old, 1)
                if np.array_equal(new, old):
                    new = -old
            elif kind in ('uvw', 'hkl'):
                new = 2 * np.roll(old, 1)
            elif kind == 'T':
                new = op['f'] * np.roll(old, 1, axis=0)
            else:
                new = op['f'] * np.roll(old, 1)
            if not overwrite(obj, new):
                labels.add('op_on_immutable')
                continue
            applied.add(kind)
            what += ': the caller overwrote, in place, the %s it had handed to the solver as %s' % (kind, FORM_NAMES[forms[kind]])
            if kind in ('m', 'n') and isinstance(obj, np.ndarray):
                # unchanged tree: a float64 ndarray m / n IS the solution's m / n (numpy.asarray, no copy): known finding,
                # reported at the end of the case; the caller's array is put back so that the rest of the history is judged
                try:
                    same_outputs(base, read_outputs(sol, Pin, case['order'] + 2 + k), what)
                except Violation as e:
                    if np.shares_memory(obj, sol.m) or np.shares_memory(obj, sol.n):
                        pending = pending or Violation(e.detail if hasattr(e, 'detail') else str(e), key=HIST_KEY_MN)
                        overwrite(obj, old)
                        applied.discard(kind)
                        labels.add('mn_alias')
                    else:
                        raise
        elif kind == 'box':
            if box is None:
                labels.add('op_without_object')
                continue
            redefine_box(box, op['how'], op['f'], g.box_vects(prob['orient']['box']))
            applied.add('box')
            what += ': the caller re-defined the Box it had handed to the solver'
        elif kind == 'again':
            fn = fns[prob['solver'] if op['solver'] == 'same' else op['solver']]
            try:
                other = fn(C, held['b'], **kw)
                other.stress(Pin)
                labels.add('again_solved')
            except (ValueError, AssertionError):
                other = None
                labels.add('again_refused')                 # the overwritten arguments need not be a valid problem
            # the caller RE-USES its objects for this next call: the answer must be the answer to what the objects hold NOW -
            # the same as for private copies of them, which no earlier call has seen
            kwc = {k_: (am.Box(vects=v.vects, origin=v.origin) if k_ == 'box' else _copy_arg(v)) for k_, v in kw.items()}
            try:
                fresh = fn(am.ElasticConstants(Cij=np.array(C.Cij)), _copy_arg(held['b']), **kwc)
            except (ValueError, AssertionError):
                fresh = None
            require((other is None) == (fresh is None), lambda: '%s: built from the objects the caller had used before (and changed since), the '
                    'solver %s; built from copies of these objects it %s' % (what, 'refuses' if other is None else 'answers', 'refuses' if fresh is None else 'answers'))
            if other is not None:
                require(type(other) is type(fresh), lambda: '%s: %s from the re-used objects, %s from copies of them' % (what, type(other).__name__, type(fresh).__name__))
                o_out = read_outputs(other, Pin, case['order'] + 50 + k)
                f_out = read_outputs(fresh, Pin, case['order'] + 50 + k)
                ledger_add(ledger, 'the solution of operation %d:' % k, o_out)
                if all(bool(np.all(np.isfinite(v[1]))) for v in f_out.values()):
                    same_outputs(f_out, o_out, what + ': solution built from the re-used objects against the solution built from copies of them')
                    others.append((k, other, o_out, Pin.copy()))
                    labels.add('again_judged')
                else:
                    # what the caller's overwritten arrays hold need not be a problem at all (a Burgers vector along the normal for the
                    # isotropic class, ...): answers that are not finite are not compared
                    labels.add('again_not_finite')
        elif kind == 'eval':
            Q = positions(S, op['pts'])
            for nm in ('displacement', 'strain', 'stress'):
                ledger_add(ledger, 'the evaluation of operation %d:' % k, {nm: field(sol, nm, Q, op['ptlist'])})
        elif kind == 'pos':
            # the caller re-uses its position array for other points (1.5 times as far from the line, shifted along it),
            # evaluates, and puts the first points back
            Pin[...] = positions(S, [[1.5 * l[0], 1.5 * l[1], l[2] + 1.0] for l in case['pts']])[::-1]
            for nm in ('displacement', 'strain', 'stress'):
                require(np.array_equal(np.array(base[nm][0]), base[nm][1]), lambda: '%s: the array returned by %s() earlier changed when the caller '
                        'overwrote the position array' % (what, nm))
                a, b = field(sol, nm, Pin), field(sol, nm, Pin.copy())
                require(np.array_equal(a, b), lambda: '%s: %s() of a position array that was overwritten in place differs from %s() of a fresh '
                        'array with the same values' % (what, nm, nm))
            Pin[...] = P
        elif kind == 'out':
            for nm in sorted(base):
                raw = base[nm][0]
                if isinstance(raw, np.ndarray) and nm not in ('m', 'n', 'ξ', 'transform', 'burgers') and raw.flags.writeable:
                    raw[...] = 0
            # (the ledger follows: what the caller wrote into these arrays has to stay there just the same)
            ledger = [(w_, r_, r_.copy()) for (w_, r_, c_) in ledger]
            base = {nm: (v[1].copy(), v[1]) for nm, v in base.items()}
            what += ': the caller overwrote the arrays that the solution had returned (fields, K_tensor, p, A, L, k, C.Cij)'
        else:
            raise KeyError(kind)
        now = read_outputs(sol, Pin, case['order'] + 2 + k)
        same_outputs(base, now, 'after ' + what)
        ledger_check(ledger, 'after ' + what)
        ledger_add(ledger, 'the first solution (reading after operation %d):' % k, now)
        for (k0, other, o_out, P0) in others:
            if k0 < k:
                same_outputs(o_out, read_outputs(other, P0, case['order'] + 50 + k0), 'after %s: the solution built in operation %d' % (what, k0))
    ledger_check(ledger, 'at the end of the history')
    labels.add('ledger>=60' if len(ledger) >= 60 else 'ledger<60')
    for a in applied:
        labels.add('applied_' + a)
    if applied:
        labels.add('nt')
    if 'C' in applied and name == 'Stroh':
        labels.add('stroh_C_redefined')
        if ident:
            labels.add('identity_stroh_C_redefined')
    if pending is not None:
        raise pending
    return labels


def jshort(op):
    return ', '.join('%s=%r' % (k, v) for k, v in sorted(op.items()) if k != 'pts')


# ----------------------------------------------------------------------------- clause: forms (storage and input dtypes)

KEY_AXES = 'C12:orientation:transform-axes-float32-float16:normalised-in-the-storage-dtype'
NARROW_FLOAT = ('f4', '>f4', 'f2', 'np_f4')
AXES_REFUSALS = ('axes are not orthogonal', 'axes are not right-handed')


def narrow(a, code):
    """the values a, exactly, in the form `code` of gens_c12.DT (an array of that dtype, a nested list of numpy scalars, a nested
    list of Python numbers); None when they are not exactly representable in it"""
    a64 = np.array(a, dtype=float)
    if code == 'list':
        return a64.tolist() if not np.all(a64 == np.round(a64)) else a64.astype(int).tolist()
    if code in ('np_int', 'np_f4'):
        t = narrow(a, 'i8' if code == 'np_int' else 'f4')
        if t is None:
            return None
        return [x for x in t] if t.ndim == 1 else [[x for x in r] for r in t]
    with np.errstate(all='ignore'):
        t = a64.astype(np.dtype(code))
        back = t.astype(float)
    if not (np.all(np.isfinite(back)) and np.array_equal(back, a64)):
        return None
    return t


def _bits(v):
    a = np.asarray(v)
    return (str(a.dtype), a.shape, a.tobytes(), type(v).__name__)


def _forms_run(case, dt, labels):
    import atomman as am
    prob = case['prob']
    S = setup(prob)
    b0, kw0 = solver_args(prob, S)
    if S.bslack:
        labels.add('b_component_on_tol_threshold')
        return
    # ---- every array-valued argument in the form drawn for it (where its values are exactly representable there)
    applied = {}

    def form(key, v):
        t = narrow(v, dt[key])
        if t is None:
            return np.array(v, dtype=float)
        applied[key] = dt[key]
        return t

    args = {'b': form('b', b0)}
    kw = dict(kw0)
    for key in ('m', 'n'):
        if key in kw and not isinstance(kw[key], str):
            args[key] = kw[key] = form(key, kw[key])
    for arg in ('transform', 'axes'):
        if arg in kw:
            args['T'] = kw[arg] = form('T', kw[arg])
    if 'ξ_uvw' in kw:
        args['uvw'] = kw['ξ_uvw'] = form('uvw', kw['ξ_uvw'])
        args['hkl'] = kw['slip_hkl'] = form('hkl', kw['slip_hkl'])
    for key, code in applied.items():
        labels.add('dt_' + code)
        if code not in ('f8', 'list'):
            labels.add('narrow_' + key)
    if any(c not in ('f8', 'list') for c in applied.values()):
        labels.add('narrow_argument')
    if any(c in ('u1', 'u2', 'u8', 'bool') for c in applied.values()):
        labels.add('unsigned_argument')
    before = {k: _bits(v) for k, v in args.items()}
    C = am.ElasticConstants(Cij=np.array(S.C6, dtype=float))
    sol = call_solver(prob['solver'], S.C6, args['b'], kw, S.exact, None if S.iso else S.gap, S.dev, Cobj=C)
    for k in sorted(args):
        require(_bits(args[k]) == before[k], lambda: 'solving changed the caller\'s %s (handed over as %s): %r' % (k, before[k][0], args[k]))
    # the same values as float64 arrays: the reference call
    kwf = {k: (np.array(v, dtype=float) if k in ('m', 'n', 'transform', 'axes') and not isinstance(v, str) else
               np.array(v, dtype=int) if k in ('ξ_uvw', 'slip_hkl') else v) for k, v in kw.items()}
    ref = call_solver(prob['solver'], S.C6, np.array(args['b'], dtype=float), kwf, S.exact, None if S.iso else S.gap, S.dev)
    require((sol is None) == (ref is None), lambda: 'the solver %s the problem with the arguments in the forms %r and %s it with the same values as '
            'float64 / int64 arrays' % ('refuses' if sol is None else 'accepts', applied, 'refuses' if ref is None else 'accepts'))
    if sol is None:
        labels.add('refusal')
        return
    labels.add('accepted')
    name = type(sol).__name__
    if prob['solver'] == 'auto' and not S.exact and name == 'IsotropicVolterraDislocation':
        require(S.dev <= BAND_HI, lambda: 'solve_volterra_dislocation returned the isotropic class for a medium whose constants are '
                '%.3g (relative) away from their isotropic average' % S.dev)
        to_iso_mode(S)
        labels.add('auto_fallback')
    judged = not (S.near and not S.iso) and not (S.iso and not S.exact and S.dev == g.BAND) and not ('auto_fallback' in labels and prob['bsol'][1] != 0.0) \
        and not left_plane(S)
    # ---- field points: Cartesian coordinates as drawn (integers / quarters up to the limits of the dtype), off the line and the cut
    P = np.array([p for p in case['pts'] if not (float(np.dot(p, S.n)) == 0.0 and float(np.dot(p, S.m)) <= 0.0)], dtype=float)
    if len(P) == 0:
        labels.add('no_points')
        return
    Pn = narrow(P, dt['pos'])
    if Pn is None:
        Pn = P.copy()
    else:
        labels.add('dt_pos_' + dt['pos'])
        if dt['pos'] not in ('f8', 'list'):
            labels.add('narrow_positions')
        lim = g.POS_RANGE.get(dt['pos'])
        if lim and (P.max() >= lim[1] - 1 or (lim[0] < 0 and P.min() <= lim[0] + 1)):
            labels.add('positions_at_dtype_limit')
    pb = _bits(Pn)
    if judged:
        Cg = check_header(sol, S, prob)
        labels.add('judged')
    base = read_outputs(sol, P, case['order'])
    same_outputs(read_outputs(ref, P, case['order']), base, 'arguments in the forms %r against the same values as float64 / int64 arrays' % (applied,))
    ledger = []
    ledger_add(ledger, 'the solution:', base)
    rs = np.hypot(P @ S.m, P @ S.n)
    for nm in ('displacement', 'strain', 'stress'):
        want = np.asarray(base[nm][1]).reshape((len(P),) + ((3,) if nm == 'displacement' else (3, 3)))
        if want.dtype.kind == 'c':
            want = want.real
        got = field(sol, nm, P, given=Pn)
        require(_bits(Pn) == pb, lambda: '%s() changed the position array handed over as %s' % (nm, pb[0]))
        require(got.dtype == np.float64, lambda: '%s() of positions handed over as %s returns dtype %s' % (nm, pb[0], got.dtype))
        sc = S.bn * (1.0 + np.abs(np.log(rs))) if nm == 'displacement' else np.maximum(np.abs(want).reshape(len(P), -1).max(axis=1), 1e-300)
        e = _rel(got, want, sc)
        i = int(np.argmax(e))
        close(e[i], 1e-13, 'forms_' + nm, lambda: '%s of the positions %r handed over as %s differs from %s of the same positions as float64 at %r (relative to '
              'that point\'s own magnitude)' % (nm, P.tolist(), pb[0], nm, P[i].tolist()))
        one = field(sol, nm, P[-1], given=Pn[-1])
        close(_rel(one[None], field(sol, nm, P[-1])[None], sc[-1:])[0], 1e-13, 'forms_single_' + nm, lambda: '%s of the single position %r handed over as %s differs from the '
              'float64 evaluation' % (nm, P[-1].tolist(), pb[0]))
        ledger_add(ledger, 'the evaluation of narrow positions:', {nm: got, nm + '_single': one})
    if judged:
        E, Sg = field(sol, 'strain', P, given=Pn), field(sol, 'stress', P, given=Pn)
        hooke = np.einsum('ijkl,nkl->nij', el.voigt_to_tensor(Cg), E)
        esc = np.maximum(np.abs(E).reshape(len(P), -1).max(axis=1), S.bn / (2 * math.pi * rs))
        e = _rel(Sg, hooke, 9 * S.cmax * esc)
        close(e.max(), TOL_HOOKE * S.amp, 'forms_hooke', 'stress is not C:strain')
        K = np.asarray(sol.K_tensor, dtype=float)
        tr = field(sol, 'stress', 2.0 * S.m) @ S.n
        close(np.abs(tr - K @ S.b / (4 * math.pi)).max(), (1e-7 + 1e-10 * S.amp) * float(np.abs(K).max()) * S.bn / (4 * math.pi), 'forms_traction',
              'traction on the slip plane at x = 2 is not K.b/(2 pi x)')
        if S.iso:
            refi = vr.iso_reference(S.mu, S.nu, float(S.b @ S.m), float(S.b @ S.xi), S.m, S.n, S.xi, P)
            for nm, F in (('strain', E), ('stress', Sg)):
                sc = np.abs(refi[nm]).reshape(len(P), -1).max(axis=1) + (S.bn / (2 * math.pi * rs) if nm == 'strain' else 0.0)
                close(_rel(F, refi[nm], sc).max(), 1e-11, 'forms_iso_' + nm, lambda: '%s differs from the Hirth-Lothe closed form' % nm)
            labels.add('closed_form')
    # ---- the caller re-uses what it handed over (and what it got): nothing of the solution moves
    done = 0
    for idx, k in enumerate(sorted(args)):
        v = args[k]
        if isinstance(v, np.ndarray) and v.flags.writeable and (case['mut'] >> (idx % 3)) & 1:
            old = v.copy()
            v[...] = np.roll(old, 1, axis=0)
            if np.array_equal(v, old):
                v[...] = (old == 0)
            done += 1
    if isinstance(Pn, np.ndarray):
        Pn[...] = Pn[::-1].copy() if len(Pn) > 1 else 1
        done += 1
    if done:
        labels.add('caller_overwrote')
    same_outputs(base, read_outputs(sol, P, case['order'] + 1), 'after the caller overwrote the arrays it had handed over (%r)' % (applied,))
    ledger_check(ledger, 'after the later evaluations and the caller\'s overwriting its arrays')
    if g.nontrivial(prob) and judged:
        labels.add('nt')


def oracle_forms(case):
    """arguments and positions in narrow / unsigned / big-endian / half- and single-precision / numpy-scalar forms, values exactly
    representable: the answer is the answer to the same values as float64 arrays (and is judged as such)"""
    prob = case['prob']
    labels = g.labels_of(prob)
    dt = dict(case['dt'])
    try:
        _forms_run(case, dt, labels)
    except (Violation, ValueError) as e:
        # transform / axes as a float32 / float16 array: known finding KEY_AXES when the same case with that one argument as
        # float64 passes everything
        tkey = [a for a in ('transform', 'axes') if a == prob['orient'].get('via')]
        isnarrowT = prob['orient']['kind'] == 'rows' and dt['T'] in NARROW_FLOAT and narrow(np.array(prob['orient']['rows']), dt['T']) is not None
        if not isnarrowT or (isinstance(e, ValueError) and str(e) not in AXES_REFUSALS):
            raise
        lab2 = set()
        _forms_run(case, dict(dt, T='f8'), lab2)
        detail = e.detail if isinstance(e, Violation) and hasattr(e, 'detail') else '%s(%s)' % (type(e).__name__, e)
        raise Violation('%s = integer-valued orthogonal rows %r handed over as %s: %s (with the same rows as float64 everything holds)'
                        % (tkey[0] if tkey else 'transform', prob['orient']['rows'], dt['T'], detail), key=KEY_AXES)
    return labels


# ----------------------------------------------------------------------------- clause: units (working-unit configurations)
# The solvers hold plain numbers in working units and convert nothing; what depends on the configuration are the NUMBERS: a
# stiffness of 100 GPa is 0.62 (default: eV/angstrom^3), 1e11 (SI) or 1e-16 (nm, kg, J).  A case is a PHYSICAL problem (stiffness
# numbers of the case = GPa, lengths = angstrom); under a configuration it is expressed in working units with my own sizes of a
# GPa and an angstrom (products of numericalunits attributes), solved and judged there exactly as elsewhere (header, Hooke,
# traction, closed forms), and compared - made dimensionless - with the same problem solved earlier in the same process under
# `pre` (the default configuration, another one, or nothing).  Everything the earlier stage returned is in the ledger.

from .. import gens_c08 as G8

KEY_UNITS = 'C12:units:stroh-self-checks-absolute-tol:stiffness-numbers-far-from-unity'


def _own_units():
    import numericalunits as nu
    return 1e9 * nu.kg / (nu.m * nu.s ** 2), nu.angstrom       # (GPa, angstrom) in the working units active now


def _restore_units():
    import atomman.unitconvert as uc
    uc.reset_units(length='angstrom', mass='amu', energy='eV', charge='e')


_upre = st.sampled_from(['default', 'default', 'other', 'none'])
# configurations under which stiffness numbers stay within a few decades of unity (until KEY_UNITS is repaired Stroh answers
# under these only): every second W is one of them
_MODERATE = st.sampled_from([{'kind': 'named', 'units': u} for u in (
    {'length': 'nm'}, {'length': 'nm', 'energy': 'eV'}, {'length': 'aBohr'}, {'length': 'pm'}, {'length': 'nm', 'energy': 'kcal'},
    {'length': 'aBohr', 'mass': 'g'}, {'length': 'nm', 'time': 'ps'}, {'length': 'angstrom', 'energy': 'kcal', 'charge': 'C'})])


@st.composite
def units_cases(draw):
    W, pk, Pc, Wm = draw(G8.S_CFG), draw(_upre), draw(G8.S_CFG), draw(_MODERATE)
    if draw(_bool):
        W = Wm
    W = G8._other_than(W, G8.DEFAULT_CFG)
    pre = G8.DEFAULT_CFG if pk == 'default' else G8._other_than(Pc, W) if pk == 'other' else None
    prob = dict(draw(_prob_any))
    prob['cscale'] = 1.0                                     # the case's stiffness numbers are GPa
    return {'prob': prob, 'plan': {'pre': pre, 'W': W}, 'pts': draw(g.local_points(2, 3)), 'order': draw(st.integers(0, 10 ** 6))}


def _cfg_text(cfg):
    if cfg['kind'] == 'named':
        return 'reset_units(%s)' % ', '.join('%s=%r' % kv for kv in cfg['units'].items())
    return 'reset_units(seed=%r)' % ('SI' if cfg['kind'] == 'SI' else cfg['seed'])


def _units_stage(case, cfg, labels, last):
    """the physical problem under the configuration that is active now.  Returns None (refusal) or a dict of the dimensionless
    outputs; raises the keyed finding when Stroh refuses well separated roots under a non-default configuration"""
    import atomman as am
    from atomman.defect import Stroh, IsotropicVolterraDislocation, solve_volterra_dislocation
    prob = case['prob']
    GPa, A = _own_units()
    S = setup(prob)
    b0, kw = solver_args(prob, S)
    # the same problem in working units: stiffness x GPa, Cartesian lengths x angstrom (lattice coordinates stay, the cell scales)
    for nm in ('C6', 'C6s', 'C4s', 'cmax'):
        setattr(S, nm, getattr(S, nm) * GPa)
    if S.iso:
        S.mu = S.mu * GPa
    for nm in ('b', 'b_cart', 'b_raw', 'bn', 'bslack'):
        setattr(S, nm, getattr(S, nm) * A)
    o = prob['orient']
    if 'box' in kw:
        kw['box'] = am.Box(vects=g.box_vects(o['box']) * A)
        bw = b0
    else:
        bw = (np.asarray(b0, dtype=float) * A).tolist() if prob['aslist'] else np.asarray(b0, dtype=float) * A
    fn = {'stroh': Stroh, 'iso': IsotropicVolterraDislocation, 'auto': solve_volterra_dislocation}[prob['solver']]
    default = abs(GPa / 0.006241509074460762 - 1) < 1e-9 and abs(A - 1) < 1e-12
    try:
        sol = fn(am.ElasticConstants(Cij=np.array(S.C6)), bw, **kw)
    except ValueError as e:
        msg = str(e)
        gap = None if S.iso else S.gap
        if prob['solver'] == 'iso' and msg == ISO_REFUSAL and S.dev > BAND_LO:
            return None, S
        refused = (prob['solver'] == 'stroh' and msg in STROH_REFUSALS) or (prob['solver'] == 'auto' and not S.exact and msg == ISO_REFUSAL
                                                                             and S.dev > BAND_LO)
        if not refused:
            raise
        if gap is not None and gap >= GAP_REFUSAL and kw.get('tol', 1e-8) >= 1e-8:
            num = S.cmax
            require(not (default or 1e-3 < num < 1e5),
                    lambda: '%s refused (%s) a positive-definite problem whose roots p are separated by %.3g' % (prob['solver'], msg, gap))
            # known finding: the self-checks (and the realness test of K_tensor) compare quantities that carry the unit of a
            # stiffness or of a compliance with the absolute tol = 1e-8
            raise Violation('%s refuses (%s) the problem under %s, where its stiffness numbers are of order %.3g (1 GPa = %.3g): roots p separated by %.3g; '
                            'the same physical problem is solved under the default working units' % (prob['solver'], msg, _cfg_text(cfg), num, GPa, gap), key=KEY_UNITS)
        return None, S
    name = type(sol).__name__
    if prob['solver'] == 'auto' and not S.exact and name == 'IsotropicVolterraDislocation':
        require(S.dev <= BAND_HI, lambda: 'solve_volterra_dislocation returned the isotropic class for a medium whose constants are '
                '%.3g (relative) away from their isotropic average' % S.dev)
        if not S.near and S.gap >= GAP_REFUSAL:
            # the dispatcher fell back because Stroh refused - the same finding - and the isotropic class took a crystal?  (it
            # cannot: dev > band for crystals; kept for completeness)
            raise Violation('solve_volterra_dislocation answers with the isotropic class under %s' % _cfg_text(cfg), key=KEY_UNITS)
        to_iso_mode(S)
        S.C6s, S.C4s, S.mu = S.C6s, S.C4s, S.mu               # (to_iso_mode works on the scaled S.C6: already in working units)
        labels.add('auto_fallback')
    judged = not (S.near and not S.iso) and not (S.iso and not S.exact and S.dev == g.BAND) and not ('auto_fallback' in labels and prob['bsol'][1] != 0.0) \
        and not S.bslack and not left_plane(S)
    P = positions(S, case['pts']) * A
    out = {'name': name, 'judged': judged, 'sol': sol, 'P': P}
    if judged:
        Cg = check_header(sol, S, prob)
        E, Sg = field(sol, 'strain', P), field(sol, 'stress', P)
        hooke = np.einsum('ijkl,nkl->nij', el.voigt_to_tensor(Cg), E)
        rs = np.array([math.hypot(l[0], l[1]) for l in case['pts']]) * A
        esc = np.maximum(np.abs(E).reshape(len(P), -1).max(axis=1), S.bn / (2 * math.pi * rs))
        close(_rel(Sg, hooke, 9 * S.cmax * esc).max(), TOL_HOOKE * S.amp, 'units_hooke', 'stress is not C:strain')
        K = np.asarray(sol.K_tensor, dtype=float)
        require(K.dtype.kind == 'f' and bool(np.all(np.isfinite(K))) and float(np.linalg.eigvalsh((K + K.T) / 2)[0]) > 0, lambda: 'K_tensor not real positive definite: %r' % (K,))
        x = 2.0 * A
        tr = field(sol, 'stress', x * S.m) @ S.n
        close(np.abs(tr - K @ S.b / (2 * math.pi * x)).max(), (1e-7 + 1e-10 * S.amp) * float(np.abs(K).max()) * S.bn / (2 * math.pi * x), 'units_traction',
              'traction on the slip plane at x = 2 angstrom is not K.b/(2 pi x)')
        if S.iso:
            refi = vr.iso_reference(S.mu, S.nu, float(S.b @ S.m), float(S.b @ S.xi), S.m, S.n, S.xi, P)
            for nm, F in (('strain', E), ('stress', Sg)):
                sc = np.abs(refi[nm]).reshape(len(P), -1).max(axis=1) + (S.bn / (2 * math.pi * rs) if nm == 'strain' else 0.0)
                close(_rel(F, refi[nm], sc).max(), 1e-11, 'units_iso_' + nm, lambda: '%s differs from the Hirth-Lothe closed form' % nm)
    raw = read_outputs(sol, P, case['order'])
    out['raw'] = raw
    u = field(sol, 'displacement', P)
    out['dimless'] = {'burgers': np.asarray(sol.burgers, dtype=float) / A, 'transform': np.asarray(sol.transform, dtype=float),
                      'K_tensor': np.asarray(sol.K_tensor, dtype=float) / GPa, 'K_coeff': np.array(float(sol.K_coeff) / GPa),
                      'preln': np.array(float(sol.preln) / (GPa * A * A)), 'strain': field(sol, 'strain', P), 'stress': field(sol, 'stress', P) / GPa,
                      'du': (u - u[0]) / A, 'C': np.asarray(sol.C.Cij, dtype=float) / GPa}
    return out, S


def oracle_units(case):
    import atomman.unitconvert as uc
    prob = case['prob']
    plan = case['plan']
    labels = g.labels_of(prob)
    labels.add('units_' + plan['W']['kind'])
    ledger = []
    try:
        first = None
        if plan['pre'] is not None:
            G8.apply_units(uc, plan['pre'])
            first, S1 = _units_stage(case, plan['pre'], labels, None)
            labels.add('pre_default' if plan['pre'] == G8.DEFAULT_CFG else 'pre_other')
            if first is not None:
                ledger_add(ledger, 'the solution under %s:' % _cfg_text(plan['pre']), first['raw'])
        G8.apply_units(uc, plan['W'])
        GPa, A = _own_units()
        second, S = _units_stage(case, plan['W'], labels, first)
        num = S.cmax
        labels.add('stiffness_numbers>1e5' if num > 1e5 else 'stiffness_numbers<1e-3' if num < 1e-3 else 'stiffness_numbers_moderate')
        if abs(A - 1) > 1e-6:
            labels.add('angstrom_differs')
        if first is not None:
            # what the earlier stage returned is what it returned: a reset of the units moves no array and no solution
            ledger_check(ledger, 'after %s and the solution there' % _cfg_text(plan['W']))
            same_outputs(first['raw'], read_outputs(first['sol'], first['P'], case['order']), 'the solution built under %s, read again after %s'
                         % (_cfg_text(plan['pre']), _cfg_text(plan['W'])))
            labels.add('ledger_across_reset')
        if second is None:
            labels.add('refusal')
            return labels
        labels.add('accepted')
        labels.add('units_answer_' + second['name'])
        if second['judged']:
            labels.add('judged')
            if g.nontrivial(prob):
                labels.add('nt')
        if first is not None and first['name'] == second['name'] and first['judged'] and second['judged']:
            # the same physical problem under two configurations: dimensionless outputs agree (floors are relative; an entry or a
            # component next to a floor may be kept under one configuration and dropped under the other: covariance's allowance)
            band = (not S.iso and (_floor_band(S.C6) or _floor_band(S.C6s))) or _floor_band(S.b_raw)
            # 10 x the covariance tolerance: the sextic matrix has blocks of dimension stiffness, 1/stiffness and 1, so a change
            # of units re-scales the blocks against each other and moves the eigen-solution by more than a rotation does
            tol = 10 * TOL_COV * S.amp + (2e-7 * float(np.linalg.cond(S.C6)) if band else 0.0)
            a, b = first['dimless'], second['dimless']
            for nm in sorted(a):
                sc = max(float(np.abs(a[nm]).max()), S.bn / A if nm in ('du', 'burgers') else 0.0)
                f = 10.0 if nm == 'du' else 1.0
                close(np.abs(a[nm] - b[nm]).max(), (1.5e-7 if nm in ('K_tensor', 'K_coeff', 'preln', 'C') else 0.0) * sc + f * tol * sc, 'units_cov_' + nm,
                      lambda: '%s (made dimensionless with my own GPa and angstrom) differs between %s and %s' % (nm, _cfg_text(plan['pre']), _cfg_text(plan['W'])))
            labels.add('two_configurations_compared')
    finally:
        _restore_units()
    return labels


# ----------------------------------------------------------------------------- clause: combos (enumerated option combinations)
# The options that write the same state of a solution object - how the orientation is spelled (none / transform / axes / Miller
# indices without a cell, with a cell, with four indices), how m and n are spelled (default / strings / vectors / one of each /
# signed axes; with and without cart_axes), tol - in every ORDERED pair: the object is solved with the first setting, then
# solve() is called on it with the second (another medium, another Burgers vector); it must then be indistinguishable from an
# object built with the second setting alone, which is judged against my own numbers.

ORIENT_OPTS = ('none', 'transform', 'axes', 'miller_unit', 'miller_box', 'miller_box4')
MN_OPTS = ('default', 'str_cart', 'vec', 'sv', 'str', 'axis', 'axis_cart')
TOL_PAIRS = ((None, None), (None, 1e-6), (1e-6, None), (1e-6, 1e-10))


def _combo_problem(cls, oo, mo, tol, v):
    """one of two fixed physical problems (v = 0, 1) of the solver class, spelled with the options (oo, mo, tol)"""
    if cls == 'iso':
        C = [{'kind': 'named', 'system': 'isotropic', 'C': {'E': 211.0, 'nu': 0.29}},
             g._with_eps({'kind': 'neariso', 'E': 130.0, 'nu': 0.34, 'sys': 'cubic', 'perm': 0, 'd': [1.0, 0.0, 0.0, -0.5, 0.0, 0.0, 0.3, 0.0, 0.0], 'q': 0.5})][v]
        bsol = [[1.5, 0.0, -2.0], [-2.5, 0.0, 0.75]][v]
    else:
        C = [{'kind': 'named', 'system': 'cubic', 'C': {'C11': 170.0, 'C12': 120.0, 'C44': 75.0}, 'iso_mix': 0.0},
             {'kind': 'named', 'system': 'orthorhombic', 'C': {'C11': 160.0, 'C22': 190.0, 'C33': 181.0, 'C12': 90.0, 'C13': 66.0, 'C23': 72.0,
                                                               'C44': 46.5, 'C55': 55.0, 'C66': 39.0}, 'iso_mix': 0.0}][v]
        bsol = [[1.5, 0.0, -2.0], [-2.5, 0.7, 0.75]][v]
    if oo == 'none':
        o = {'kind': 'none'}
    elif oo in ('transform', 'axes'):
        o = {'kind': 'transform', 'rot': [[[1, 2, -2], 37.0], [[-3, 1, 1], 112.0]][v], 'rowscale': [[2.0, 0.5, 1.0], [1.0, 3.7, 0.5]][v], 'via': oo}
    else:
        box = {'miller_unit': {'family': 'unit', 'abc': [1.0, 1.0, 1.0, 90.0, 90.0, 90.0]},
               'miller_box': [{'family': 'orthorhombic', 'abc': [3.1, 4.3, 5.2, 90.0, 90.0, 90.0]}, {'family': 'monoclinic', 'abc': [3.3, 4.1, 6.2, 90.0, 104.0, 90.0]}][v],
               'miller_box4': {'family': 'hexagonal', 'abc': [[3.2, 3.2, 5.2, 90.0, 90.0, 120.0], [2.9, 2.9, 4.7, 90.0, 90.0, 120.0]][v]}}[oo]
        uvw, hkl = [([1, 1, -2], [1, 1, 1]), ([1, 0, 1], [0, 2, 0])][v]
        if oo == 'miller_box4':
            uvw, hkl = [([1, 1, 0], [0, 0, 1]), ([1, 0, 1], [1, -2, -1])][v]       # three-index values; handed over with four
        o = {'kind': 'miller', 'box': box, 'uvw': uvw, 'hkl': hkl, 'four': oo == 'miller_box4'}
    if mo == 'default':
        mn = {'kind': 'default'}
    elif mo in ('str', 'str_cart', 'sv'):
        pair = [('z', 'x'), ('y', 'z')][v]
        mn = {'kind': 'str', 'm': pair[0], 'n': pair[1], 'pass': 'sv' if mo == 'sv' else 'ss'}
    elif mo == 'vec':
        mn = {'kind': 'vec', 'rot': [[[1, 1, 3], 40.0], [[2, -1, 0], 115.0]][v]}
    else:
        mn = {'kind': 'axis', 'm': [[0, 1, 0], [0, 0, 1]][v], 'n': [[0, 0, 1], [1, 0, 0]][v]} if mo == 'axis_cart' else \
             {'kind': 'axis', 'm': [[0, -1, 0], [0, 0, 1]][v], 'n': [[0, 0, 1], [-1, 0, 0]][v]}
    prob = {'C': C, 'cscale': [1.0, g.EV_A3][v], 'solver': cls, 'mn': mn, 'orient': o, 'bsol': bsol, 'aslist': bool(v)}
    if mo.endswith('_cart'):
        prob['cart_axes'] = True
    if tol is not None:
        prob['tol'] = tol
    return prob


def combos_enumerate(tier):
    mns = MN_OPTS if tier != 'quick' else MN_OPTS[:4]
    cases = []
    n = 0
    for cls in ('stroh', 'iso'):
        for o1 in ORIENT_OPTS:
            for o2 in ORIENT_OPTS:
                for m1 in mns:
                    for m2 in mns:
                        tps = TOL_PAIRS if tier != 'quick' else (TOL_PAIRS[n % 4],)
                        for (t1, t2) in tps:
                            # the second setting describes the OTHER physical problem (v), so that anything left over from the
                            # first solve shows; which of the two comes first alternates
                            v = n % 2
                            cases.append({'cls': cls, 'first': _combo_problem(cls, o1, m1, t1, v), 'second': _combo_problem(cls, o2, m2, t2, 1 - v),
                                          'opts': [o1, m1, o2, m2]})
                            n += 1
    return cases


def oracle_combos(case):
    import atomman as am
    p1, p2 = case['first'], case['second']
    o1, m1, o2, m2 = case['opts']
    labels = {'cls_' + case['cls'], 'first_' + o1, 'second_' + o2, 'first_mn_' + m1, 'second_mn_' + m2,
              'orient_%s_then_%s' % (o1, o2) if o1 != o2 else 'orient_same', 'tol_%s_then_%s' % (p1.get('tol'), p2.get('tol'))}
    S1, S2 = setup(p1), setup(p2)
    b1, kw1 = solver_args(p1, S1)
    b2, kw2 = solver_args(p2, S2)
    pts = [[1.0, 2.0, 0.5], [-3.0, 1.0, 0.0], [2.0, -2.0, 1.0]]
    P1, P2 = positions(S1, pts), positions(S2, pts)
    # ---- first setting
    sol = call_solver(case['cls'], S1.C6, b1, kw1, S1.exact, None if S1.iso else S1.gap, S1.dev)
    require(sol is not None, 'the first problem is refused')
    check_header(sol, S1, p1)
    out1 = read_outputs(sol, P1, 1)
    ledger = []
    ledger_add(ledger, 'the object solved with the first setting:', out1)
    # ---- second setting on the same object, and alone
    sol.solve(am.ElasticConstants(Cij=np.array(S2.C6, dtype=float)), b2, **kw2)
    out2 = read_outputs(sol, P2, 2)
    b2f, kw2f = solver_args(p2, S2)
    fresh = call_solver(case['cls'], S2.C6, b2f, kw2f, S2.exact, None if S2.iso else S2.gap, S2.dev)
    require(fresh is not None, 'the second problem is refused')
    Cg = check_header(fresh, S2, p2)
    same_outputs(read_outputs(fresh, P2, 2), out2, 'solve() with the second setting (%s, %s, tol %r) on an object first solved with (%s, %s, tol %r), against an object '
                 'built with the second setting alone' % (o2, m2, p2.get('tol'), o1, m1, p1.get('tol')))
    ledger_check(ledger, 'after solve() with the second setting')
    # the fresh object against my own numbers
    E, Sg = field(fresh, 'strain', P2), field(fresh, 'stress', P2)
    hooke = np.einsum('ijkl,nkl->nij', el.voigt_to_tensor(Cg), E)
    rs = np.array([math.hypot(l[0], l[1]) for l in pts])
    esc = np.maximum(np.abs(E).reshape(len(P2), -1).max(axis=1), S2.bn / (2 * math.pi * rs))
    close(_rel(Sg, hooke, 9 * S2.cmax * esc).max(), TOL_HOOKE * S2.amp, 'combo_hooke', 'stress is not C:strain')
    K = np.asarray(fresh.K_tensor, dtype=float)
    tr = field(fresh, 'stress', 2.0 * S2.m) @ S2.n
    close(np.abs(tr - K @ S2.b / (4 * math.pi)).max(), (1e-7 + 1e-10 * S2.amp) * float(np.abs(K).max()) * S2.bn / (4 * math.pi), 'combo_traction',
          'traction on the slip plane at x = 2 is not K.b/(2 pi x)')
    up = field(fresh, 'displacement', -1.5 * S2.m + DELTA * 1.5 * S2.n)
    um = field(fresh, 'displacement', -1.5 * S2.m - DELTA * 1.5 * S2.n)
    close(np.abs(up - um - S2.b).max(), TOL_JUMP * S2.bn, 'combo_jump', lambda: 'u(0+) - u(0-) = %r, Burgers vector %r' % (up - um, S2.b))
    # a second object built with the FIRST setting after all this: nothing of the second setting lives outside the objects
    again = call_solver(case['cls'], S1.C6, b1, kw1, S1.exact, None if S1.iso else S1.gap, S1.dev)
    same_outputs(out1, read_outputs(again, P1, 1), 'an object built with the first setting after the second had been used, against the first one')
    labels.add('nt')
    return labels


# ----------------------------------------------------------------------------- clause: iso_limit

_aniso = g11.tensors(isotropic_too=False)
_prob_iso = g.problems(solver='iso')


@st.composite
def limit_cases(draw):
    return {'prob': draw(_prob_iso), 'aniso': draw(_aniso), 'pts': draw(g.local_points(2, 5))}


def oracle_iso_limit(case):
    from atomman.defect import Stroh
    prob = case['prob']
    S = setup(prob)
    labels = g.labels_of(prob)
    b, kw = solver_args(prob, S)
    bs = prob['bsol']
    P = positions(S, case['pts'])
    if S.bslack or left_plane(S):
        labels.add('b_component_on_tol_threshold' if S.bslack else 'b_left_slip_plane_by_tol')         # see begin()
        return labels
    # (Burgers components below the documented tol = 1e-8 of the largest are dropped by the solver: S.b is the vector that is left)
    ref = vr.iso_reference(S.mu, S.nu, float(S.b @ S.m), float(S.b @ S.xi), S.m, S.n, S.xi, P)
    rmin = min(math.hypot(l[0], l[1]) for l in case['pts'])
    Ke = S.mu / (1 - S.nu)
    Kiso = Ke * (np.outer(S.m, S.m) + np.outer(S.n, S.n)) + S.mu * np.outer(S.xi, S.xi)
    scales = {'strain': float(np.abs(ref['strain']).max()), 'stress': float(np.abs(ref['stress']).max()),
              'disp': S.bn, 'K': Ke}

    def errors(sol):
        """relative distances of a solution from the textbook closed forms (displacement up to its additive constant)"""
        e = {}
        for nm in ('strain', 'stress'):
            e[nm] = float(np.abs(field(sol, nm, P) - ref[nm]).max()) / scales[nm]
        d = field(sol, 'displacement', P) - ref['disp']
        e['disp'] = float(np.abs(d - d[0]).max()) / S.bn
        e['K'] = float(np.abs(np.asarray(sol.K_tensor, dtype=float) - Kiso).max()) / Ke
        return e

    # the isotropic medium: the one drawn, or (nearly isotropic input) its Hill average, which is what the closed-form class
    # solves; isotropic, hence the same matrix in the crystal's and in the solution's frame
    Ciso = S.C6 if S.exact else S.C6s
    lmin = float(np.linalg.eigvalsh(Ciso)[0])
    if not S.exact and S.dev == g.BAND:
        labels.add('neariso_on_zeroing_floor')              # see begin()
        return labels
    # (a) the closed-form class and the dispatcher on the (exactly or nearly) isotropic medium
    for solver in ('iso', 'auto'):
        sol = call_solver(solver, S.C6, b, kw, S.exact, None, S.dev)
        p2 = dict(prob, solver=solver)
        if sol is None:
            labels.add('outside_band_refused_by_' + solver)
            continue
        if type(sol).__name__ == 'Stroh' and solver == 'auto' and not S.exact:
            # the dispatcher's Stroh attempt passed its self-checks: the answer is the anisotropic solution of the input
            # medium, at the distance t = |C - C_iso|_2 / lambda_min from the isotropic one: same bound as in (b), plus
            # the noise floor of the nearly defective eigenproblem stated there
            S2 = setup(p2)
            check_header(sol, S2, p2)
            t = float(np.linalg.norm(S.C6 - Ciso, 2)) / lmin
            for nm, v in errors(sol).items():
                close(v, B_LIMIT * t + 3e-5, 'near_' + nm, lambda: 'dispatcher (Stroh) on a medium %.3g from isotropy: %s is %.3g (relative) away from the isotropic closed form' % (t, nm, v))
            labels.add('auto_stroh_on_neariso')
            continue
        require(S.dev <= BAND_HI, lambda: '%s solver accepted a medium whose constants are %.3g (relative) away from their isotropic average' % (solver, S.dev))
        check_header(sol, S, p2)
        e = errors(sol)
        # rounding only: x, y, r^2 each to a few eps, amplified by r/rmin <= 150 in the displacement differences
        for nm, tol in (('strain', 1e-11), ('stress', 1e-11), ('disp', 1e-11), ('K', TOL_K)):
            close(e[nm], tol, 'iso_' + nm, lambda: '%s solver on the isotropic medium: %s differs from the Hirth-Lothe closed form (relative)' % (solver, nm))
        if not S.exact:
            labels.add('closed_form_on_neariso')
            labels.add('neariso_via_' + solver)
    # (b) Stroh on C_iso + t D, |D|_2 = lambda_min(C_iso): linear approach to the closed form
    Ca = g11.cij(case['aniso'])
    D = Ca / np.abs(Ca).max() * S.cmax - Ciso
    nD = float(np.linalg.norm(D, 2))
    if nD < 1e-3 * S.cmax:
        labels.add('perturbation_isotropic')
        return labels
    D = D / nD * lmin
    errs = {}
    for t in (1e-2, 1e-3):
        sol = call_solver('stroh', Ciso + t * D, b, kw, False)
        if sol is None:
            labels.add('refused_t=%g' % t)
            continue
        require(type(sol).__name__ == 'Stroh', 'Stroh() returned %s' % type(sol).__name__)
        errs[t] = errors(sol)
        for nm, v in errs[t].items():
            close(v, B_LIMIT * t, 'limit_' + nm, lambda: 'Stroh on C_iso + %g D (|D| = lambda_min): %s is %.3g (relative) away from the isotropic closed form' % (t, nm, v))
    if len(errs) == 2:
        labels.add('both_t')
        for nm in ('strain', 'stress', 'disp', 'K'):
            a, c = errs[1e-2][nm], errs[1e-3][nm]
            # error(t) = c1 t + O(t^2): smaller at the smaller t unless both are rounding noise
            # (noise floor: the Stroh eigenproblem is nearly defective in this limit - triple root p = i - so its rounding
            # error is of order eps^(1/3)..eps^(1/2)/gap, observed up to 1e-6 relative; below 3e-5 both distances are noise)
            require(c < a or max(a, c) <= 3e-5, lambda: '%s: distance from the isotropic closed form does not shrink with the anisotropy: %.3g at t=1e-2, %.3g at t=1e-3' % (nm, a, c))
            if _CAL:
                _cal('limit_ratio_' + nm, c, a if a > 0 else 1.0)
        if g.nontrivial(prob):
            labels.add('nt')
    return labels


_ACC = {'accepted': 0.85}
_REF = {'refusal': 0.12}

CLAUSES = [
    Clause('jump', oracle_jump, jump_cases, quick=4800, thorough=96000,
           min_share=dict(_ACC, nt=0.2, solver_stroh=0.24, solver_iso=0.12, solver_auto=0.13, orient_miller=0.19, mn_vec=0.27,
                          mn_str=0.11, mn_str_and_vector=0.04, ray_on_axis=0.27, b_tiny_component=0.025, int_positions=0.06,
                          ptlist=0.19, four_index=0.01, via_axes=0.06, closed_form_on_neariso=0.045, neariso_via_auto=0.004,
                          neariso_via_iso=0.034, neariso_edge=0.015, near_special=0.04, exact_structure=0.08, orient_rows=0.025, mn_axis=0.035,
                          b_exact_fractions=0.035, ray_near_axis=0.03, **{'cut_closer_than_1e-9': 0.15}),
           max_share=_REF,
           desc='Burgers vector = displacement jump across the cut half-plane (limit at +-1e-9 r), continuity across every '
                'other ray, invariance along the line, single point = array row = integer-typed positions, character angle, '
                'header (m, n, xi, transform, burgers, C) against my own numbers'),
    Clause('kinematics', oracle_kinematics, kin_cases, quick=6200, thorough=128000,
           min_share=dict(_ACC, nt=0.2, solver_stroh=0.24, solver_iso=0.13, orient_miller=0.18, pt_on_axis=0.24, ptlist=0.2,
                          b_general=0.035, b_climb=0.013, npts3=0.15, closed_form_on_neariso=0.045, neariso_via_auto=0.004,
                          neariso_via_iso=0.03, neariso_edge=0.02, near_special=0.04, exact_structure=0.08, pt_near_axis=0.03),
           max_share=_REF,
           desc='strain = sym grad u and div stress = 0 by 4th-order central differences (h = 1e-4 r), stress = C:strain, '
                'symmetry, homogeneity of degree -1'),
    Clause('energy', oracle_energy, energy_cases, quick=4000, thorough=80000,
           min_share=dict(_ACC, nt=0.18, BL=0.8, resolved=0.18, solver_stroh=0.26, iso_medium=0.1, mn_vec=0.26,
                          closed_form_on_neariso=0.045, neariso_via_auto=0.004, neariso_via_iso=0.035, neariso_edge=0.025,
                          near_special=0.035, exact_structure=0.08),
           max_share=_REF,
           desc='K_tensor real symmetric positive definite, equal to the Barnett-Lothe angular integral (and to the closed '
                'form for isotropic media); K_coeff, preln; slip-plane traction = K.b/(2 pi x)'),
    Clause('covariance', oracle_covariance, cov_cases, quick=3200, thorough=64000,
           min_share=dict(_ACC, nt=0.22, rotated=0.8, both_generic=0.26, miller_vs_transform=0.2, aniso_medium=0.3,
                          closed_form_on_neariso=0.055, rotated_neariso=0.055, neariso_via_auto=0.003, neariso_edge=0.025,
                          Q_exact_permutation=0.08, R_exact_permutation=0.08, exact_structure=0.07, near_special=0.035),
           max_share=_REF,
           desc='rotating crystal (C, b) by Q and laboratory (transform, m, n, points) by R rotates u, strain, stress, K; '
                'Miller-index orientation = the corresponding transform'),
    Clause('decades', oracle_decades, g.decade_cases, quick=2200, thorough=40000,
           min_share={'accepted': 0.85, 'nt': 0.16, 'span>=8': 0.4, 'lscale': 0.2, 'lscale_SI': 0.04, 'b_scaled': 0.1, 'tol_loose': 0.1,
                      'tol_0.0001': 0.05, 'tol_1e-10': 0.03, 'tol_default': 0.28, 'closed_form': 0.15, 'fd_far': 0.12, 'fd_near': 0.2,
                      'log_law': 0.4, 'npts>=6': 0.17, 'ptlist': 0.13, 'solver_stroh': 0.22, 'aniso_medium': 0.27, 'near_special': 0.04,
                      'exact_structure': 0.08},
           max_share=_REF,
           desc='ONE call of displacement / strain / stress for an array of points 1e-6 .. 1e+6 reference lengths from the line '
                '(reference length 1e-12 .. 1e+6, Burgers vector in the same unit or not; solver tol default, 1e-4 .. 1e-10): array '
                'call = point-by-point calls, stress = C:strain, symmetry, 1/r along every ray, logarithmic law of the displacement, '
                'closed forms (isotropic class), finite-difference compatibility and equilibrium at one of the points, Burgers jump '
                'at the smallest and largest radius - every comparison relative to the magnitude of the field AT THAT POINT'),
    Clause('history', oracle_history, g.history_cases, quick=2400, thorough=45000,
           min_share={'accepted': 0.85, 'nt': 0.3, 'applied_C': 0.3, 'stroh_C_redefined': 0.18, 'identity_stroh_C_redefined': 0.07,
                      'applied_b': 0.1, 'applied_box': 0.022, 'applied_T': 0.025, 'op_m': 0.035, 'op_n': 0.03, 'op_again': 0.08,
                      'op_eval': 0.08, 'op_out': 0.05, 'op_pos': 0.04, 'form_strided': 0.1, 'form_readonly': 0.12, 'form_list': 0.12,
                      'form_tuple': 0.12, 'identity_orientation': 0.2, 'C_via_Sijkl': 0.03, 'C_via_cubic': 0.03, 'C_via_Cij9': 0.03,
                      'solver_stroh': 0.2, 'answer_IsotropicVolterraDislocation': 0.15, 'again_judged': 0.06, 'ledger>=60': 0.3,
                      'exact_structure': 0.06},
           max_share=_REF,
           desc='caller-side histories: arguments in every array-like form (float64, strided, Fortran / reversed, read-only, list, '
                'tuple); solving and evaluating leave the caller\'s objects untouched; after the caller re-defines its ElasticConstants '
                'object (Cij, Cijkl, Sij, Cij9, Sijkl setters, crystal-system methods), overwrites burgers / m / n / transform / Miller '
                'arrays in place, re-defines its Box, builds other solutions from the same objects, evaluates elsewhere, overwrites '
                'the position array or the returned arrays, every output of the first solution (header, K_tensor, K_coeff, preln, '
                'character angle, p A L k / mu nu, fields) is unchanged; identity orientation in a third of the cases'),
    Clause('forms', oracle_forms, g.forms_cases, quick=1200, thorough=30000,
           min_share={'accepted': 0.8, 'judged': 0.42, 'nt': 0.17, 'narrow_argument': 0.39, 'narrow_positions': 0.44, 'positions_at_dtype_limit': 0.13,
                      'unsigned_argument': 0.035, 'narrow_T': 0.1, 'narrow_b': 0.12, 'narrow_m': 0.13, 'narrow_n': 0.13, 'narrow_uvw': 0.09, 'narrow_hkl': 0.09,
                      'dt_f2': 0.08, 'dt_f4': 0.08, 'dt_i1': 0.05, 'dt_>i2': 0.025, 'dt_u1': 0.012, 'dt_bool': 0.005, 'dt_np_int': 0.028, 'caller_overwrote': 0.45,
                      'closed_form': 0.16, 'rows_int': 0.08, 'rows_perm': 0.08, 'mn_axis': 0.18},
           max_share=_REF,
           desc='storage and input dtypes: Burgers vector, m, n, transform / axes, Miller indices and field points as float32 / float16 / '
                'big-endian / int8 .. int64 / unsigned / bool arrays, lists of numpy scalars (values exactly representable: integer '
                'orientation rows, signed axes, eighths, integer and quarter-integer coordinates up to the limits of the dtype): inputs '
                'bit-identical afterwards, every output equal to that of the same values as float64 arrays, fields of narrow positions '
                '= fields of float64 positions point by point (array and single point), header / Hooke / traction / closed forms '
                'as elsewhere, nothing moves when the caller overwrites what it handed over; result ledger'),
    Clause('units', oracle_units, units_cases, quick=900, thorough=20000,
           # (shares on the unchanged tree, where KEY_UNITS excludes Stroh under most configurations; about twice that with the repair)
           min_share={'accepted': 0.25, 'judged': 0.25, 'nt': 0.1, 'two_configurations_compared': 0.18, 'ledger_across_reset': 0.22, 'units_SI': 0.01,
                      'units_seed': 0.008, 'units_named': 0.25, 'stiffness_numbers_moderate': 0.15, 'units_answer_Stroh': 0.1,
                      'units_answer_IsotropicVolterraDislocation': 0.13, 'angstrom_differs': 0.28},
           desc='working-unit configurations (reset_units: named units, integer seed, SI) before / between calls in one process: the '
                'physical problem (GPa, angstrom) expressed in working units with my own products of numericalunits attributes is '
                'judged as elsewhere (header, Hooke, traction, closed forms) and, made dimensionless, equal to the same problem solved '
                'earlier under the default or another configuration; earlier results in the ledger across the reset'),
    Clause('combos', oracle_combos, None, quick=1, thorough=1, enumerate=combos_enumerate,
           min_share={'nt': 0.9, 'cls_stroh': 0.25, 'cls_iso': 0.25, 'orient_same': 0.083},
           desc='enumerated: every ordered pair of orientation spellings (none, transform, axes, Miller indices without cell / with cell / '
                'with four indices) x every ordered pair of m, n spellings (default, strings, vectors, one of each, signed axes; cart_axes) '
                'x tol pairs, for Stroh and the isotropic class: solve() with the second setting on an object solved with the first = an '
                'object built with the second setting alone (judged by header, Hooke, traction, Burgers jump); the first results unmoved'),
    Clause('iso_limit', oracle_iso_limit, limit_cases, quick=2000, thorough=40000,
           min_share={'nt': 0.19, 'both_t': 0.45, 'mn_vec': 0.23, 'orient_miller': 0.17, 'closed_form_on_neariso': 0.13,
                      'neariso_via_auto': 0.041, 'auto_stroh_on_neariso': 0.11, 'neariso_edge': 0.057, 'iso_medium': 0.27, 'near_special': 0.035,
                      'exact_structure': 0.08},
           desc='isotropic class and dispatcher, on exactly and on nearly isotropic media (inside the acceptance band of the '
                'class), against Hirth-Lothe closed forms of the Hill-average medium; Stroh on C_iso + t D approaches them '
                'linearly (t = 1e-2, 1e-3)'),
]
