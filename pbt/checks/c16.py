"""C16 - Miller conversions are lossless; plane normal is the reciprocal-lattice vector; family identification."""
import math
import warnings
from fractions import Fraction

import numpy as np

from ..core import Clause, Violation, require
from .. import gens
from .. import gens_c16 as g16
from ..oracles import miller_ref as ref

RULE = ("Exhaustive part: every integer triple with max|index| <= 6 (thorough 10), zero triple excluded, as blocks of one "
        "(h,k) row (all l; the label 'triples=N' gives the block size, one evaluation = one block) x 12 (thorough 40) fixed "
        "right-handed cells of all seven families with generic parameters, about half rigidly rotated; the induced 4-index "
        "forms in hexagonal cells; all 8 centring settings x all triples; reduce on all triples and induced quadruples. "
        "Random part: triples up to |index| 12 (zero-heavy), leading shapes (), (N,), (M,N), list / int array / "
        "integer-valued float array, random triclinic and family cells (lengths 2-22, angles 35-135 deg, optional rotation), "
        "index strings from the grammar [frac ]?(open)int( int){2,3}(close) with the four bracket kinds and the bare form, "
        "near-miss and random ASCII strings, family constructors with non-coincident parameters (ratios >= 1.15, angles "
        ">= 5 deg from 90 and >= 0.5 deg apart).  Non-trivial: a triple with >= 2 non-zero indices of mixed sign in a "
        "non-orthogonal cell (cell-less clauses: mixed-sign triple, and setting != 'p' for centring / gcd > 1 for reduce); "
        "strings: negative index or a fraction; family: rotated or non-orthogonal family; fuzz: string outside the strict grammar. "
        "Input forms of every index block: nested list / tuple, int64, int32, integer-valued float64, non-contiguous view, Fortran "
        "order, read-only array, list of numpy integer scalars (a conversion must not write into its input); 30 % of the blocks "
        "(label 'narrow') are arrays of another integer dtype - int8, int16, uint8, uint16, uint32, uint64, big-endian int16/32/64, "
        "bool, int32/int64 with large values - whose indices are drawn from the WHOLE range of the dtype (limits included; 32/64-bit "
        "types up to 1e5, unsigned and bool non-negative), so that h*k*l, lcm, -m, 2u-v, 2U+V or the gcd leave the dtype (label "
        "'dt_overflow', also non-trivial); every enumerated block is repeated as a narrow signed array and its non-negative rows as "
        "an unsigned one; all_indices also with maxindex as numpy integer scalar of every width.  History part: "
        "box_history = ONE Box object (half held by a System) built by any constructor route, queried, changed in place by every "
        "public route (vects setter, set(vects|avect,bvect,cvect|a,b,c,..|lx,..|xlo,..), model(), System.box_set with/without "
        "scale, set(), origin only), its handed-in/handed-out arrays overwritten, deep-copied, replaced by a new object, and "
        "queried again for the same planes / vectors / family; non-trivial: a plane or vector asked again after the cell of that "
        "object changed.  call_history = 2-5 complete cases of the clauses random/strings/family in one sequence, every call "
        "judged when made and again when the sequence is repeated in another order; non-trivial as for the member cases.  "
        "Cross-pollination round (generator classes that caught seeded regressions in other properties): ledger = 2-4 complete cases in one "
        "process, every array handed in or out kept and compared bit for bit after each later call, then the caller overwrites its arguments / "
        "the results in place and repeats calls (fresh arguments, same Box), non-trivial: a non-trivial member and an overwrite that took place; "
        "box_history keeps its query results in the same kind of ledger.  Floating index arrays of whole numbers as float32 / float16 / big-endian "
        "(label 'fnarrow', a refinement of the form 'float'; float16 up to 2048), float32 cell vectors, family-constructor parameters as Python ints "
        "and numpy scalars (int8 ... int64, uint8/16, float16/32/64) with whole-number lengths up to the dtype's limit.  units = the same physical "
        "cell (angstrom numbers x my own numericalunits size of the angstrom) under reset_units(named | seed | SI), judged before under the default or "
        "another configuration and after under the restored default, optionally read from a Box data model; non-trivial: angstrom size beyond "
        "10^+-1.5 working units.  near = family parameters with one relation 1e-12..1e-3 (relative) off its higher-symmetry value, default and "
        "explicit rtol / atol; cells with tilts of 1e-12..1e-3 of the cell; plane indices 1e-12..1e-3 off whole numbers; 4-index sums 1e-12..1e-3 off "
        "zero.  decades = 3-6 index rows spanning up to 24 decades (2^-30..2^30; planes x 1..9e4, reduce x 1..9e15) in one array, non-trivial: >= 8 "
        "decades (planes >= 4).  structured = exact signed permutations of lattice vectors and Cartesian axes (cell['sym']; also 30 % of the cells of "
        "ledger / units / decades), non-trivial: mixed-sign block or relabelled lattice vectors.  options_enum = ENUMERATED ordered pairs / triples of "
        "the 16 centring calls, pairs of all_indices calls, pairs of family functions x tolerance options on one near-threshold Box.")
ASSUMPTIONS = ["numpy linear algebra and numpy's text-to-float conversion are correct",
               "cells are right-handed (det > 0); the sense of the plane normal is only claimed for those",
               "R-centring: which of t1/t2 is 'obverse' is not documented, only that each is one of the two and that they differ",
               "for strings outside the documented grammar only 'clean refusal or the numbers shown' is demanded",
               "box_history: Box.model() of a second Box is trusted to write the vectors that Box holds (used only as input of the model() route)",
               "box_history: Box.set(a=..) may build the vectors with other roundings than my cell_matrix: 32 eps relative allowed on that route",
               "index magnitudes: up to the dtype's limits for 8/16-bit arrays, up to 1e5 for wider ones (beyond ~1.3e5 the lcm of the "
               "documented plane algorithm exceeds 2^53 for every input form, Python ints included)",
               "bool arrays are index arrays for the plane / vector / 3<->4 / centring conversions (0/1 indices) but not for reduce_indices ('array of ints')",
               "family tolerances: 'rtol / atol : relative / absolute tolerance for testing box parameters' is read as numpy.isclose does (|x-y| <= atol + "
               "rtol |y|); the is<family> docstring definitions are read literally, 'a != b != c' as all three lengths different - near-threshold cases are "
               "generated only where that reading is unambiguous (one relation a~b, c~a or angle~90/120 perturbed) and nothing is asserted within a factor 3 "
               "of a tolerance",
               "atol is an absolute number in working units of length: under other working units it is passed as 1e-8 angstrom; the default (1e-8 working "
               "units) is only claimed for lengths >= 0.1 working units - under metres the documented default makes every length equal to every other "
               "(Box.tetragonal(4e-10, 5.5e-10).identifyfamily() = 'cubic'): documented behaviour, reported but not a finding",
               "a cell whose lattice vectors were relabelled (tetragonal with the unique axis along a, ...) is not 'made by a family constructor': only "
               "consistency of identifyfamily() with the predicates is asked there",
               "plane indices that are not whole numbers: the documented refusal ('requires that the planar indices be integers') or the normal of the "
               "nearest whole-number plane, nothing else; a 4-index sum off zero by >= 1e-6 of the largest index must be refused, one at rounding "
               "level (64 eps) must be accepted",
               "repeated identical calls return identical bits (numpy / BLAS are deterministic for these sizes)",
               "atheris is not importable in this restore (/verif/.deps absent): the byte-level target is replaced by "
               "Hypothesis text + mutated grammar strings (clause strings_fuzz)"]
LEVEL_TEXT = ("All integer index triples up to |index| 6 (thorough 10) in 12 (40) cells of every crystal family are enumerated "
              "for the plane normal, zone law, 3<->4 index, centring and reduce clauses; random search covers larger indices, "
              "array shapes and input forms (among them every narrow / unsigned / big-endian integer dtype with indices up to the dtype's limits), random cells, index strings and family identification; histories on one Box object "
              "(in-place changes through every public route between repeated queries) and sequences of module-level calls are searched randomly; "
              "result ledgers with caller-side overwrites, float32/float16 index arrays and numpy-scalar lattice parameters, working-unit configurations, "
              "near-threshold parameters / tilts / indices, rows spanning many decades and exactly permuted cells are searched randomly, ordered "
              "combinations of centring calls / all_indices calls / family functions with tolerance options are enumerated.")
TECHNIQUE = ("exhaustive enumeration + Hypothesis (single calls, object histories against an own record of the cell, call sequences); "
             "own reciprocal basis / zone law / a1,a2,a3,c basis / centring sets / gcd / regex grammar / own reading of the documented family definitions; "
             "bit-for-bit result ledger")
WALL = {'quick': 75, 'thorough': 600}

EPS = ref.EPS
K_REDUCE_2D = 'C16:reduce_indices:2d-leading-shape'
# vector3to4 / vector4to3 (and so vector_crystal_to_cartesian with [uvtw] input) form 2u-v, 2v-u / 2U+V, 2V+U in the integer
# dtype of the caller's array: the value wraps when it leaves that dtype (int8, int16; every unsigned dtype as soon as 2u < v)
K_V34_DTYPE = 'C16:vector3to4-vector4to3:integer-dtype-overflow'
# reduce_indices takes the gcd in the caller's signed dtype: gcd = |lowest value of the dtype| is not representable, comes out
# negative, and the reduced vector points the opposite way ([-128, 0, 0] int8 -> [1, 0, 0])
K_REDUCE_MIN = 'C16:reduce_indices:signed-dtype-minimum'
# all_indices(maxindex = numpy unsigned scalar): -maxindex wraps
K_ALLIDX_UNSIGNED = 'C16:all_indices:unsigned-scalar-maxindex'
# cross-pollination round, class C (floating storage dtypes): vector3to4 / vector4to3 convert only INTEGER arrays to float64; a
# float32 / float16 array of whole numbers goes through (2u-v)/3, 2U+V in its own dtype and the float64 result array carries
# float32 (6e-8) / float16 (1e-3, inf beyond 65504) roundings: [uvw] -> [uvtw] -> [uvw] is no longer lossless
K_V34_FLOAT = 'C16:vector3to4-vector4to3:float32-float16-storage-dtype'
# class C (numpy-scalar lattice parameters): Box.set_abc (behind every family constructor and Box(a=, b=, c=, alpha=, ...)) does
# b**2, b*c, c**2 and the cosines in the dtype of numpy-scalar arguments: np.int8(100)**2 wraps, float32 / float16 round
K_SETABC_SCALAR = 'C16:family-constructors:numpy-scalar-parameters:set_abc-arithmetic-in-their-dtype'
NARROWF = ('f32', 'f16', 'f32be')


def _am():
    import atomman as am
    from atomman.tools import miller
    return am, miller


def _vfloor(V):
    """Box.vects zeroes components with |x| <= 1e-9*max|vects|.  My cells have exact zeros where the lattice parameters
    say so; only a rotated cell can carry a component inside that window, and only then do atomman's vectors differ from
    mine (by <= 1e-9 relative).  Returns that relative perturbation bound (0 when no component is in the window)."""
    a = np.abs(V)
    return 2e-9 if bool(np.any((a > 0) & (a <= 4e-9 * a.max()))) else 0.0


def _tolN(cond, nmax, vfloor=0.0):
    """bound on |n_got - n_exp| (max norm) for unit normals: a relative perturbation vfloor of the cell vectors turns the
    normal by <= 2*vfloor*cond; the cross product of two integer combinations of the cell vectors loses eps/sin(theta) with
    sin(theta) >= sin(theta_index)/cond^2 and sin(theta_index) >~ 1/nmax (observed error <= 2e-15 at cond 3, nmax 10)."""
    return 2 * vfloor * cond + 256 * EPS * max(1, nmax) * cond ** 2


def _tolV(V, idxabs_sum, vpert=0.0):
    """bound on |idx.vects - idx.V| per component"""
    return (_vfloor(V) + vpert + 8 * EPS) * float(np.abs(V).max()) * max(1.0, float(idxabs_sum))


def _has_mixed(t):
    nz = [x for x in t if x]
    return len(nz) >= 2 and min(nz) < 0 < max(nz)


def _branch(t):
    return 'br_' + ''.join('n' if x else '0' for x in t[:3])


def _tuplify(x):
    return tuple(_tuplify(y) for y in x) if isinstance(x, (list, tuple)) else x


def _npscalars(x):
    return [_npscalars(y) for y in x] if isinstance(x, (list, tuple)) else np.int64(x)


def _arg(idx, form):
    """the integer index block idx (nested list) in one of the documented array-like forms"""
    if form == 'list':
        return idx
    if form == 'float':
        return np.array(idx, dtype=float)
    if form == 'tuple':
        return _tuplify(idx)
    if form == 'npscalars':
        return _npscalars(idx)
    if form == 'i32':
        return np.array(idx, dtype=np.int32)
    a = np.array(idx, dtype=np.int64)
    if form in g16.FDTYPES:                              # float32 / float16 / big-endian floating array of whole numbers
        f = a.astype(g16.FDTYPES[form][0])
        if not np.array_equal(f.astype(np.float64), a.astype(np.float64)):
            raise RuntimeError('harness: index block %r is not exactly representable as %s' % (idx, g16.FDTYPES[form][0]))
        return f
    if form in g16.DTYPES:                               # narrow / unsigned / big-endian / bool integer array
        if not _fits(a, form):
            raise RuntimeError('harness: index block %r is not representable as %s' % (idx, g16.DTYPES[form][0]))
        return a.astype(g16.DTYPES[form][0])
    if form == 'nc':                                     # non-contiguous view: every other column of a wider array
        big = np.full(a.shape[:-1] + (2 * a.shape[-1],), 99, dtype=np.int64)
        big[..., ::2] = a
        return big[..., ::2]
    if form == 'fortran':
        return np.asfortranarray(a)
    if form == 'ro':
        a.setflags(write=False)
        return a
    return a


def _dt_range(form):
    """(lo, hi) of the integer arithmetic numpy does on an array of that form (bool: 2*b, b*b ... are done in int64)"""
    if form in g16.DTYPES and form != 'bool':
        ii = np.iinfo(np.dtype(g16.DTYPES[form][0]))
        return int(ii.min), int(ii.max)
    ii = np.iinfo(np.int32 if form == 'i32' else np.int64)
    return int(ii.min), int(ii.max)


def _fits(a, form):
    """can the integer block be stored in the dtype of that form"""
    if form in g16.FDTYPES:
        a = np.asarray(a, dtype=np.int64)
        return a.size == 0 or bool(np.array_equal(a.astype(g16.FDTYPES[form][0]).astype(np.float64), a.astype(np.float64)))
    if form not in g16.DTYPES:
        return True
    a = np.asarray(a, dtype=np.int64)
    if form == 'bool':
        lo, hi = 0, 1
    else:
        lo, hi = _dt_range(form)
    return a.size == 0 or (int(a.min()) >= lo and int(a.max()) <= hi)


def _arg_fit(idx, form):
    """the block in that form when its values can be stored in it, else as int64"""
    return _arg(idx, form if _fits(idx, form) else 'int')


def _leaves(form, *vals):
    """does any of the exact integer arrays vals leave the range of the arithmetic of that form"""
    lo, hi = _dt_range(form)
    return any(v.size and (int(v.min()) < lo or int(v.max()) > hi) for v in (np.asarray(x, dtype=np.int64) for x in vals))


def _plane_products_leave(P, form):
    """the plane algorithm forms h*k*l, lcm(h,k,l), -m from the non-zero indices: do they leave the dtype of that form
    (then an implementation working in the caller's dtype wraps around)"""
    if form not in g16.DTYPES or form == 'bool':
        return False
    lo, hi = _dt_range(form)
    for t in np.asarray(P, dtype=np.int64).reshape(-1, 3).tolist():
        nz = [x for x in t if x]
        if len(nz) < 2:
            continue
        if lo == 0:
            return True                                  # -m of an unsigned m
        prod, m = 1, 1
        for x in nz:
            prod *= x
            m = m * abs(x) // math.gcd(m, abs(x))
        if not (lo <= prod <= hi and m <= hi):
            return True
    return False


def _untouched(arg, idx, what):
    """a conversion must not write into the caller's array"""
    if isinstance(arg, np.ndarray):
        require(bool(np.array_equal(arg, np.asarray(idx))), lambda: '%s changed its input array: %r -> %r' % (what, idx, arg.tolist()))


def _shape_labels(case):
    f = case.get('form', 'int')
    labs = {'shape_' + case['shape'], 'form_' + f} | ({'narrow'} if f in g16.DTYPES else set())
    if f in g16.FDTYPES and case.get('den', 1) == 1:
        labs.add('fnarrow')                              # (with a denominator the block goes in as a float64 quotient)
    return labs


_EXH_SIGNED = ('i8', 'i16', 'be16', 'i8', 'be32', 'i32w', 'be64', 'i8', 'i64w')
_EXH_UNSIGNED = ('u8', 'u16', 'u8', 'u32', 'u64')


# ----------------------------------------------------------------------------- normal: shared judgement

def _judge_normals(got, P, V, cond, what, vpert=0.0):
    """got: atomman's normals for integer planes P (...,3) in the cell with rows V.  Returns (G, |G|).
    vpert: relative bound on the difference between atomman's cell vectors and V that comes from building the cell by
    another (equivalent) formula, e.g. Box.set(a=...) against my cell_matrix; 0 when the vectors themselves were passed."""
    P = np.asarray(P, dtype=np.int64)
    got = np.asarray(got)
    require(got.shape == P.shape[:-1] + (3,) and got.dtype.kind == 'f',
            lambda: '%s: returned shape %r dtype %r for planes of shape %r' % (what, got.shape, got.dtype, P.shape))
    require(bool(np.all(np.isfinite(got))), lambda: '%s: non-finite normal %r for planes %r' % (what, got.tolist(), P.tolist()))
    R = ref.reciprocal(V)
    G = P.astype(float) @ R
    Gn = np.linalg.norm(G, axis=-1)
    exp = G / Gn[..., None]
    nrm = np.linalg.norm(got, axis=-1)
    require(float(np.abs(nrm - 1).max()) <= 1e-12, lambda: '%s: normal is not a unit vector (|n| = %r)' % (what, nrm.tolist()))
    tol = _tolN(cond, int(np.abs(P).max()), _vfloor(V) + vpert)
    err = np.abs(got - exp).max(axis=-1)
    if float(err.max()) > tol:
        j = np.unravel_index(int(np.argmax(err)), err.shape)
        raise Violation('%s: plane %r: normal %r, unit reciprocal-lattice vector h a*+k b*+l c* is %r (diff %.3g, tol %.3g, dot %.6f)'
                        % (what, P[j].tolist(), got[j].tolist(), exp[j].tolist(), float(err.max()), tol, float(got[j] @ exp[j])))
    return G, Gn


def _judge_zone(am_vec, got, P, UVW, V, Gn, cond, what, vpert=0.0):
    """the normal is perpendicular to lattice vector [uvw] exactly when hu+kv+lw = 0: n.(uvw.V) = (hu+kv+lw)/|g|"""
    P2 = np.asarray(P, dtype=np.int64).reshape(-1, 3)
    n2 = np.asarray(got).reshape(-1, 3)
    g2 = np.asarray(Gn).reshape(-1)
    UVW = np.asarray(UVW, dtype=np.int64)
    vec = np.asarray(am_vec)
    myvec = UVW.astype(float) @ V
    require(vec.shape == myvec.shape and float(np.abs(vec - myvec).max()) <= _tolV(V, np.abs(UVW).sum(axis=-1).max(), vpert),
            lambda: '%s: vector_crystal_to_cartesian(%r) = %r, expected uvw.vects = %r' % (what, UVW.tolist(), vec.tolist(), myvec.tolist()))
    Z = P2 @ UVW.T                                  # exact integers
    D = n2 @ vec.T
    vn = np.linalg.norm(myvec, axis=-1)
    tol = (_tolN(cond, int(np.abs(P2).max()), _vfloor(V) + vpert) * 3 + (_vfloor(V) + vpert + 16 * EPS) * cond) * vn[None, :]
    expD = Z / g2[:, None]
    bad = np.abs(D - expD) > tol
    if bad.any():
        i, j = np.argwhere(bad)[0]
        raise Violation('%s: plane %r, lattice vector %r: n.v = %.6g but (hu+kv+lw)/|g| = %.6g (hu+kv+lw = %d, tol %.3g)'
                        % (what, P2[i].tolist(), UVW[j].tolist(), D[i, j], expD[i, j], Z[i, j], tol[0, j]))
    # the statement itself: perpendicular <=> zone law (non-zero products are at least 1/|g| away from zero)
    perp = np.abs(D) < 0.5 / g2[:, None]
    require(bool(np.array_equal(perp, Z == 0)), lambda: '%s: perpendicular set differs from zone-law set' % what)
    return int((Z == 0).sum()), int(Z.size)


_UVW3 = np.array([[u, v, w] for u in range(-3, 4) for v in range(-3, 4) for w in range(-3, 4) if (u, v, w) != (0, 0, 0)],
                 dtype=np.int64)


# ----------------------------------------------------------------------------- clause normal_exh

def oracle_normal_exh(case):
    am, miller = _am()
    cell = case['cell']
    V = ref.cell_matrix(cell)
    cond = float(np.linalg.cond(V))
    box = am.Box(vects=V)
    h, k, n = case['h'], case['k'], case['n']
    P = np.array([[h, k, l] for l in range(-n, n + 1) if (h, k, l) != (0, 0, 0)], dtype=np.int64)
    labels = {'triples=%d' % len(P), 'fam_' + cell['family'], 'hk_' + ('n' if h else '0') + ('n' if k else '0')}
    if cell.get('rot'):
        labels.add('rotated')
    got = box.plane_crystal_to_cartesian(P)
    G, Gn = _judge_normals(got, P, V, cond, 'Box.plane_crystal_to_cartesian')
    # one plane at a time (leading shape ()), through the module function
    j = (h * 7 + k * 3) % len(P)
    one = miller.plane_crystal_to_cartesian(P[j].tolist(), box)
    require(np.shape(one) == (3,) and float(np.abs(np.asarray(one) - got[j]).max()) <= 1e-14,
            lambda: 'miller.plane_crystal_to_cartesian(%r) = %r but row of the block call = %r' % (P[j].tolist(), one, got[j]))
    # the same block as an array of a narrow / big-endian signed dtype, its non-negative planes as an unsigned array
    sform = _EXH_SIGNED[(h * 7 + k * 3) % len(_EXH_SIGNED)]
    gotn = box.plane_crystal_to_cartesian(_arg(P.tolist(), sform))
    require(np.shape(gotn) == got.shape and float(np.abs(gotn - got).max()) <= 1e-14,
            lambda: 'planes %r given as %s array: normals %r, as int64 array: %r' % (P.tolist(), g16.DTYPES[sform][0], np.asarray(gotn).tolist(), got.tolist()))
    labels.add('dt_' + sform)
    nn = [j for j, t in enumerate(P.tolist()) if min(t) >= 0]
    if nn:
        uform = _EXH_UNSIGNED[(h * 7 + k * 3) % len(_EXH_UNSIGNED)]
        gotu = box.plane_crystal_to_cartesian(_arg(P[nn].tolist(), uform))
        require(np.shape(gotu) == got[nn].shape and float(np.abs(gotu - got[nn]).max()) <= 1e-14,
                lambda: 'planes %r given as %s array: normals %r, as int64 array: %r' % (P[nn].tolist(), g16.DTYPES[uform][0], np.asarray(gotu).tolist(), got[nn].tolist()))
        labels.add('dt_' + uform)
    vec = box.vector_crystal_to_cartesian(_UVW3)
    nzero, ntot = _judge_zone(vec, got, P, _UVW3, V, Gn, cond, 'zone law')
    if ref.is_hexagonal_cell(cell):
        P4 = np.array([ref.p3to4(*t) for t in P.tolist()], dtype=np.int64)
        got4 = box.plane_crystal_to_cartesian(P4)
        require(np.shape(got4) == got.shape and float(np.abs(got4 - got).max()) <= 1e-14,
                lambda: '(hkil) normals differ from (hkl) normals in a hexagonal cell: %r vs %r' % (got4.tolist(), got.tolist()))
        # g . a3 = i
        a3 = -(V[0] + V[1])
        require(float(np.abs(G @ a3 - P4[:, 2]).max()) <= 1e-9 * n, 'harness: reciprocal vector does not cut a3 at 1/i')
        labels.add('hex4')
    for t in P.tolist():
        labels.add(_branch(t))
    if not ref.is_orthogonal_family(cell) and any(_has_mixed(t) for t in P.tolist()):
        labels.add('nt')
    return labels


# ----------------------------------------------------------------------------- clause conv34_exh

def _check_34(miller, T3, form=None):
    """T3: int array (...,3).  Round trips and explicit formulas for the 3<->4 index maps.  form: the array form of T3 (the
    induced quadruples are then handed over in the same form when their values can be stored in it)."""
    A3 = T3                                          # the caller's form (list, tuple, any array) goes to atomman as it is
    T3 = np.asarray(T3)
    flat = T3.reshape(-1, 3).astype(np.int64)
    amax = max(1, int(np.abs(flat).max()))
    tol = 16 * EPS * amax
    u, v = flat[:, 0], flat[:, 1]
    # known finding: 2u-v, 2v-u (3->4) / 2U+V, 2V+U (4->3) are formed in the dtype of the caller's integer array
    k3 = K_V34_DTYPE if (form is not None and _leaves(form, 2 * u, 2 * u - v, 2 * v, 2 * v - u)) else None
    if form in NARROWF:
        k3 = K_V34_FLOAT                                 # known finding: (2u-v)/3 evaluated in float32 / float16
    # planes
    p4 = miller.plane3to4(A3)
    ep4 = np.array([ref.p3to4(*t) for t in flat.tolist()], dtype=float).reshape(T3.shape[:-1] + (4,))
    require(isinstance(p4, np.ndarray) and p4.shape == ep4.shape and float(np.abs(p4 - ep4).max()) == 0.0,
            lambda: 'plane3to4(%r) = %r, expected (h k -(h+k) l) = %r' % (T3.tolist(), np.asarray(p4).tolist(), ep4.tolist()))
    p3 = miller.plane4to3(p4)
    require(p3.shape == T3.shape and float(np.abs(p3 - flat.reshape(T3.shape)).max()) == 0.0,
            lambda: 'plane4to3(plane3to4(p)) != p: p = %r, back = %r' % (T3.tolist(), p3.tolist()))
    # integer quadruples [U V T W] induced by the triple (U, V, W), T = -(U+V); (h k i l) likewise
    Q = np.stack([flat[:, 0], flat[:, 1], -(flat[:, 0] + flat[:, 1]), flat[:, 2]], axis=-1).reshape(T3.shape[:-1] + (4,))
    Qarg = _arg_fit(Q.tolist(), form) if form is not None else Q
    if form is not None:
        p3q = miller.plane4to3(Qarg)
        require(p3q.shape == T3.shape and float(np.abs(p3q - flat.reshape(T3.shape)).max()) == 0.0,
                lambda: 'plane4to3(%r as %s) = %r, expected %r' % (Q.tolist(), getattr(Qarg, 'dtype', form), p3q.tolist(), T3.tolist()))
    # vectors 3 -> 4
    v4 = miller.vector3to4(A3)
    require(isinstance(v4, np.ndarray) and v4.shape == T3.shape[:-1] + (4,), lambda: 'vector3to4 returned shape %r for input %r' % (np.shape(v4), T3.shape))
    exp4 = np.array([[float(x) for x in ref.v3to4(*t)] for t in flat.tolist()]).reshape(v4.shape)
    require(float(np.abs(v4 - exp4).max()) <= tol, lambda: 'vector3to4(%r%s) = %r, expected [(2u-v)/3,(2v-u)/3,-(u+v)/3,w] = %r'
            % (T3.tolist(), (' as %s array' % T3.dtype) if isinstance(A3, np.ndarray) else '', v4.tolist(), exp4.tolist()), k3)
    require(float(np.abs(v4[..., :3].sum(axis=-1)).max()) <= tol, lambda: 'vector3to4: u+v+t != 0 for %r: %r' % (T3.tolist(), v4.tolist()), k3)
    back = miller.vector4to3(v4)
    require(back.shape == T3.shape and float(np.abs(back - flat.reshape(T3.shape)).max()) <= 2 * tol,
            lambda: 'vector4to3(vector3to4(v)) != v: v = %r, back = %r' % (T3.tolist(), back.tolist()), k3)
    # 4 -> 3 -> 4 on the integer quadruples
    qf = form if (form is not None and _fits(Q, form)) else 'int'
    k4 = K_V34_DTYPE if (form is not None and _leaves(qf, 2 * Q[..., 0], 2 * Q[..., 0] + Q[..., 1], 2 * Q[..., 1], 2 * Q[..., 1] + Q[..., 0])) else None
    if form in NARROWF:
        k4 = K_V34_FLOAT                                 # known finding: 2U+V evaluated in float32 / float16
    q3 = miller.vector4to3(Qarg)
    e3 = np.array([[float(x) for x in ref.v4to3(*[Fraction(y) for y in q])] for q in Q.reshape(-1, 4).tolist()]).reshape(T3.shape)
    require(q3.shape == T3.shape and float(np.abs(q3 - e3).max()) == 0.0,
            lambda: 'vector4to3(%r%s) = %r, expected [U-T, V-T, W] = %r'
            % (Q.tolist(), (' as %s array' % Qarg.dtype) if isinstance(Qarg, np.ndarray) else '', q3.tolist(), e3.tolist()), k4)
    q4 = miller.vector3to4(q3)
    require(float(np.abs(q4 - Q).max()) <= 3 * tol, lambda: 'vector3to4(vector4to3(q)) != q: q = %r, back = %r' % (Q.tolist(), q4.tolist()), k4)
    return v4, Q, p4


def _check_guards(miller, Q, d):
    """a quadruple whose first three indices do not sum to zero must be refused with the documented ValueError"""
    B0 = np.array(Q, dtype=float)
    variants = []
    B = B0.copy(); B[..., 2] += d
    variants.append(B)                                   # every quadruple off by d
    rows = B0.reshape(-1, 4)
    if len(rows) >= 2:
        B = rows.copy(); B[0, 2] += d                    # a single bad quadruple among good ones
        variants.append(B.reshape(B0.shape))
        B = rows.copy(); B[0, 2] += d; B[1, 2] -= d      # two bad quadruples whose excesses cancel
        variants.append(B.reshape(B0.shape))
    for B in variants:
        for fn, name in ((miller.vector4to3, 'u+v+t'), (miller.plane4to3, 'h+k+i')):
            try:
                out = fn(B)
            except ValueError as e:
                require('Invalid indices' in str(e), lambda: '%s refused %r with an undocumented message: %s' % (fn.__name__, B.tolist(), e))
                continue
            raise Violation('%s(%r) (a quadruple with %s != 0) returned %r instead of raising ValueError' % (fn.__name__, B.tolist(), name, np.asarray(out).tolist()))


def oracle_conv34_exh(case):
    am, miller = _am()
    cell = case['cell']
    V = ref.cell_matrix(cell)
    box = am.Box(vects=V)
    require(bool(box.ishexagonal()), 'ishexagonal() is False for a cell with a = b, alpha = beta = 90, gamma = 120')
    h, k, n = case['h'], case['k'], case['n']
    T3 = np.array([[h, k, l] for l in range(-n, n + 1) if (h, k, l) != (0, 0, 0)], dtype=np.int64)
    labels = {'triples=%d' % len(T3)}
    v4, Q, p4 = _check_34(miller, T3)
    sform = _EXH_SIGNED[(h * 7 + k * 3) % len(_EXH_SIGNED)]
    _check_34(miller, _arg(T3.tolist(), sform), sform)           # the same row as a narrow / big-endian signed array
    labels.add('dt_' + sform)
    vmax = float(np.abs(V).max())
    tolc = _tolV(V, 4 * n)
    # same Cartesian direction: 3-index vector, its 4-index form, my own a1,a2,a3,c basis
    c3 = box.vector_crystal_to_cartesian(T3)
    c4 = box.vector_crystal_to_cartesian(v4)
    mine3 = T3.astype(float) @ V
    mine4 = ref.hex_cart_vector(np.array([[float(x) for x in ref.v3to4(*t)] for t in T3.tolist()]), V)
    require(float(np.abs(mine3 - mine4).max()) <= 1e-12 * vmax * n, 'harness: a1,a2,a3,c basis inconsistent')
    require(np.shape(c3) == T3.shape and float(np.abs(c3 - mine3).max()) <= tolc,
            lambda: 'vector_crystal_to_cartesian(uvw) = %r, expected %r' % (np.asarray(c3).tolist(), mine3.tolist()))
    require(np.shape(c4) == T3.shape and float(np.abs(c4 - mine4).max()) <= tolc,
            lambda: 'vector_crystal_to_cartesian([uvtw] = %r) = %r, but U a1+V a2+T a3+W c = %r' % (v4.tolist(), np.asarray(c4).tolist(), mine4.tolist()))
    cq = miller.vector_crystal_to_cartesian(Q.tolist(), box)
    mineq = ref.hex_cart_vector(Q.astype(float), V)
    require(np.shape(cq) == T3.shape and float(np.abs(cq - mineq).max()) <= 3 * tolc,
            lambda: 'vector_crystal_to_cartesian(integer [UVTW] = %r) = %r, but U a1+V a2+T a3+W c = %r' % (Q.tolist(), np.asarray(cq).tolist(), mineq.tolist()))
    # guards
    _check_guards(miller, Q, 1 if (h + k) % 2 == 0 else -2)
    for bad_fn, arg in ((box.vector_crystal_to_cartesian, Q + np.array([0, 0, 1, 0])), (box.plane_crystal_to_cartesian, p4 + np.array([0, 0, -1, 0]))):
        try:
            out = bad_fn(arg)
        except ValueError as e:
            require('Invalid indices' in str(e), lambda: '%s refused with an undocumented message: %s' % (bad_fn.__name__, e))
        else:
            raise Violation('%s(%r) (first three indices do not sum to zero) returned %r' % (bad_fn.__name__, arg.tolist(), np.asarray(out).tolist()))
    if cell.get('rot'):
        labels.add('rotated')
    if any(_has_mixed(t) for t in T3.tolist()):
        labels.add('nt')
    return labels


# ----------------------------------------------------------------------------- centring

def _centring_matrices(miller, s):
    I = np.eye(3)
    C2P = np.asarray(miller.vector_conventional_to_primitive(I, setting=s), dtype=float)
    P2C = np.asarray(miller.vector_primitive_to_conventional(I, setting=s), dtype=float)
    return C2P, P2C


def _check_centring_matrices(miller, s):
    C2P, P2C = _centring_matrices(miller, s)
    require(C2P.shape == (3, 3) and P2C.shape == (3, 3), 'centring conversion of the identity is not 3x3')
    e = float(np.abs(C2P @ P2C - np.eye(3)).max())
    e2 = float(np.abs(P2C @ C2P - np.eye(3)).max())
    require(max(e, e2) <= 8 * EPS, lambda: "setting %r: conventional->primitive and primitive->conventional matrices are not inverse (%.3g)\n%r\n%r" % (s, max(e, e2), C2P, P2C))
    require(float(np.abs(C2P - np.rint(C2P)).max()) == 0.0, lambda: 'setting %r: conventional->primitive matrix is not integer: %r' % (s, C2P))
    d = float(np.linalg.det(C2P))
    require(abs(d - ref.NPOINTS[s]) <= 1e-12, lambda: 'setting %r: det(conventional->primitive) = %.12g, lattice points per conventional cell = %d' % (s, d, ref.NPOINTS[s]))
    return C2P, P2C


def _membership(s, conv, what):
    """conv: conventional coordinates (...,3) of primitive-lattice points: must lie on Z^3 + centring translations"""
    den = 3 if s in ('t1', 't2') else 2
    cls, res = ref.frac_part_class(conv, den)
    require(res <= 1e-9, lambda: '%s: setting %r: conventional coordinates %r are not multiples of 1/%d' % (what, s, np.asarray(conv).tolist(), den))
    names = ['r_obverse', 'r_reverse'] if den == 3 else [s]
    pts = {tuple(r) for r in cls.reshape(-1, 3).tolist()}
    ok = [nm for nm in names if pts <= ref.centring_members(nm, den)]
    require(bool(ok), lambda: '%s: setting %r: primitive-lattice points map to %r (x%d mod %d), not lattice points of that centring'
            % (what, s, sorted(pts - ref.centring_members(names[0], den)), den, den))
    return ok


def _check_centring_block(miller, s, T, integer):
    A = T                                            # the caller's form goes to atomman as it is
    T = np.asarray(T)
    Tf = T.astype(float)
    amax = max(1.0, float(np.abs(Tf).max()))
    tol = 64 * EPS * amax
    prim = miller.vector_conventional_to_primitive(A, setting=s)
    require(isinstance(prim, np.ndarray) and prim.shape == T.shape, lambda: 'conventional_to_primitive returned shape %r for %r' % (np.shape(prim), T.shape))
    back = miller.vector_primitive_to_conventional(prim, setting=s)
    require(back.shape == T.shape and float(np.abs(back - Tf).max()) <= tol,
            lambda: 'setting %r: p2c(c2p(v)) != v for v = %r: got %r' % (s, T.tolist(), back.tolist()))
    conv = miller.vector_primitive_to_conventional(A, setting=s)
    require(isinstance(conv, np.ndarray) and conv.shape == T.shape, lambda: 'primitive_to_conventional returned shape %r for %r' % (np.shape(conv), T.shape))
    back2 = miller.vector_conventional_to_primitive(conv, setting=s)
    require(back2.shape == T.shape and float(np.abs(back2 - Tf).max()) <= tol,
            lambda: 'setting %r: c2p(p2c(v)) != v for v = %r: got %r' % (s, T.tolist(), back2.tolist()))
    if integer:
        require(float(np.abs(prim - np.rint(prim)).max()) <= tol, lambda: 'setting %r: conventional lattice vector %r has non-integer primitive indices %r' % (s, T.tolist(), prim.tolist()))
        return _membership(s, conv, 'primitive_to_conventional')
    return None


SETTINGS_INDEX = {s: i for i, s in enumerate(ref.SETTINGS)}


def oracle_centering_exh(case):
    am, miller = _am()
    s, h, n = case['setting'], case['h'], case['n']
    C2P, P2C = _check_centring_matrices(miller, s)
    which = _membership(s, P2C, 'primitive cell vectors')
    if s in ('t1', 't2'):
        other = 't2' if s == 't1' else 't1'
        which_o = _membership(other, _centring_matrices(miller, other)[1], 'primitive cell vectors')
        require(set(which) != set(which_o) or len(which) != 1, "settings 't1' and 't2' describe the same R-centring (%r)" % which)
    rng = list(range(-n, n + 1))
    grid = np.array([[[h, k, l] for l in rng] for k in rng], dtype=np.int64)           # (M,N,3)
    if h == 0:
        T = grid.reshape(-1, 3)
        T = T[np.abs(T).sum(axis=1) != 0]
    else:
        T = grid
    _check_centring_block(miller, s, T, True)
    sform = _EXH_SIGNED[(h * 7 + SETTINGS_INDEX[s] * 3) % len(_EXH_SIGNED)]
    _check_centring_block(miller, s, _arg(T.tolist(), sform), True)       # the same slab as a narrow / big-endian signed array
    # explicit matrices against the block result (ties the block to the matrices judged above)
    prim = miller.vector_conventional_to_primitive(T, setting=s)
    require(float(np.abs(prim - T.astype(float) @ C2P).max()) <= 64 * EPS * n * 3, 'conversion is not linear in the indices')
    labels = {'triples=%d' % (T.size // 3), 'set_' + s, 'shape_MN' if T.ndim == 3 else 'shape_N', 'dt_' + sform}
    if s != 'p':
        labels.add('nt')
    return labels


# ----------------------------------------------------------------------------- reduce

def _judge_reduce(got, A, key=None):
    A = np.asarray(A, dtype=np.int64)
    got = np.asarray(got)
    require(got.shape == A.shape, lambda: 'reduce_indices returned shape %r for input shape %r' % (got.shape, A.shape), key)
    flatA = A.reshape(-1, A.shape[-1]).tolist()
    exp = np.array([ref.reduced(t) for t in flatA], dtype=np.int64).reshape(A.shape)
    if not np.array_equal(got, exp):
        flatG = got.reshape(-1, A.shape[-1]).tolist()
        for a, r, e in zip(flatA, flatG, exp.reshape(-1, A.shape[-1]).tolist()):
            if list(r) != list(e):
                g = ref.gcd_reduce([int(round(x)) for x in r]) if all(float(x) == int(x) for x in r) else None
                raise Violation('reduce_indices: %r -> %r; coprime indices of the same direction are %r (gcd of result %r)' % (a, r, e, g), key)
    return exp


def oracle_reduce_exh(case):
    am, miller = _am()
    if case['kind'] == 'all_indices':
        m, red = case['maxindex'], case['reduce']
        key, marg, mlabel = None, m, set()
        if case.get('mtype'):
            # maxindex as a numpy integer scalar.  Known finding for the unsigned ones: -maxindex wraps
            marg = getattr(np, case['mtype'])(m)
            mlabel = {'maxindex_' + case['mtype']}
            key = K_ALLIDX_UNSIGNED if case['mtype'].startswith('u') else None
        try:
            with warnings.catch_warnings():
                warnings.simplefilter('ignore')
                got = np.asarray(miller.all_indices(maxindex=marg, reduce=red))
        except TypeError as e:
            if key is None:
                raise
            raise Violation('all_indices(maxindex=numpy.%s(%d), reduce=%r) raised TypeError(%s)' % (case['mtype'], m, red, e), key)
        rng = range(-m, m + 1)
        allt = [(u, v, w) for u in rng for v in rng for w in rng if (u, v, w) != (0, 0, 0)]
        exp = {t for t in allt if ref.gcd_reduce(t) == 1} if red else set(allt)
        require(got.ndim == 2 and got.shape[1] == 3, lambda: 'all_indices returned shape %r' % (got.shape,), key)
        gs = [tuple(int(x) for x in r) for r in got.tolist()]
        require(len(set(gs)) == len(gs), 'all_indices returned duplicate rows', key)
        require(set(gs) == exp, lambda: 'all_indices(maxindex=%r, reduce=%r): %d rows, expected %d; missing %r extra %r'
                % (marg, red, len(gs), len(exp), sorted(exp - set(gs))[:5], sorted(set(gs) - exp)[:5]), key)
        return {'all_indices', 'reduce=%r' % red, 'triples=%d' % len(allt), 'nt'} | mlabel
    h, k, n = case['h'], case['k'], case['n']
    T3 = np.array([[h, k, l] for l in range(-n, n + 1) if (h, k, l) != (0, 0, 0)], dtype=np.int64)
    T4 = np.stack([T3[:, 0], T3[:, 1], -(T3[:, 0] + T3[:, 1]), T3[:, 2]], axis=-1)
    labels = {'triples=%d' % len(T3)}
    for A in (T3, T4):
        got = miller.reduce_indices(A)
        exp = _judge_reduce(got, A)
        again = miller.reduce_indices(got)
        require(np.array_equal(np.asarray(again), exp), lambda: 'reduce_indices is not idempotent: %r -> %r -> %r' % (A.tolist(), np.asarray(got).tolist(), np.asarray(again).tolist()))
        # one vector at a time, list input
        j = (h * 5 + k * 3) % len(A)
        one = miller.reduce_indices(A[j].tolist())
        _judge_reduce(one, A[j])
        # the same block as a narrow / big-endian signed array, its non-negative rows as an unsigned array
        sform = _EXH_SIGNED[(h * 7 + k * 3) % len(_EXH_SIGNED)]
        _judge_reduce(miller.reduce_indices(_arg(A.tolist(), sform)), A)
        labels.add('dt_' + sform)
        nn = [i for i, t in enumerate(A.tolist()) if min(t) >= 0]
        if nn:
            uform = _EXH_UNSIGNED[(h * 7 + k * 3) % len(_EXH_UNSIGNED)]
            _judge_reduce(miller.reduce_indices(_arg(A[nn].tolist(), uform)), A[nn])
            labels.add('dt_' + uform)
    gc = [ref.gcd_reduce(t) for t in T3.tolist()]
    if max(gc) > 1:
        labels.add('gcd>1')
        if any(_has_mixed(t) and g > 1 for t, g in zip(T3.tolist(), gc)):
            labels.add('nt')
    return labels


# ----------------------------------------------------------------------------- random clause

def _hex_or_refusal(fn, arg, hexa, what):
    """4-index input: accepted in a hexagonal cell, refused with the documented ValueError otherwise"""
    try:
        out = fn(arg)
    except ValueError as e:
        require(hexa is not True and 'Hexagonal indices given with non-hexagonal box' in str(e),
                lambda: '%s: 4-index input in a %s cell raised ValueError(%s)' % (what, 'hexagonal' if hexa else 'non-hexagonal', e))
        return None
    require(hexa is not False, lambda: '%s: 4-index input accepted in a non-hexagonal cell' % what)
    return out


def _do_normal(miller, box, V, cond, hexa, idxl, uvwl, via, four, form, labels, vpert=0.0):
    """plane normals of the integer block idxl (nested list) in the cell V held by box, judged against h a*+k b*+l c* and the
    zone law for the lattice vectors uvwl; adds labels (among them 'refusal_nonhex' when a 4-index block is rightly refused)."""
    idx = np.array(idxl, dtype=np.int64)
    fn = box.plane_crystal_to_cartesian if via == 'box' else (lambda a: miller.plane_crystal_to_cartesian(a, box))
    if four:
        P4 = np.stack([idx[..., 0], idx[..., 1], -(idx[..., 0] + idx[..., 1]), idx[..., 2]], axis=-1).tolist()
        arg = _arg(P4, form)
        got = _hex_or_refusal(fn, arg, hexa, 'plane_crystal_to_cartesian')
        _untouched(arg, P4, 'plane_crystal_to_cartesian')
        labels.add('four')
        if got is None:
            labels.add('refusal_nonhex')
            return None
    else:
        arg = _arg(idxl, form)
        got = fn(arg)
        _untouched(arg, idxl, 'plane_crystal_to_cartesian')
    G, Gn = _judge_normals(got, idx, V, cond, 'plane_crystal_to_cartesian' + ((' of a %s array' % arg.dtype) if form in g16.DTYPES else ''), vpert)
    if _plane_products_leave(idx, form):
        labels.add('dt_overflow')
    UVW = np.array(uvwl, dtype=np.int64)
    vec = box.vector_crystal_to_cartesian(_arg_fit(uvwl, form))
    nzero, ntot = _judge_zone(vec, got, idx, UVW, V, Gn, cond, 'zone law', vpert)
    if nzero:
        labels.add('in_zone')
    for t in idx.reshape(-1, 3).tolist():
        labels.add(_branch(t))
    return got


def _do_vector(miller, box, V, hexa, idxl, via, four, form, den, labels, vpert=0.0):
    idx = np.array(idxl, dtype=np.int64)
    fn = box.vector_crystal_to_cartesian if via == 'box' else (lambda a: miller.vector_crystal_to_cartesian(a, box))
    if four:
        Q = np.stack([idx[..., 0], idx[..., 1], -(idx[..., 0] + idx[..., 1]), idx[..., 2]], axis=-1)
        arg = (Q / den) if den != 1 else _arg(Q.tolist(), form)
        got = _hex_or_refusal(fn, arg, hexa, 'vector_crystal_to_cartesian')
        labels.add('four')
        if got is None:
            labels.add('refusal_nonhex')
            return None
        if den == 1:
            _untouched(arg, Q.tolist(), 'vector_crystal_to_cartesian')
        exp = ref.hex_cart_vector(Q.astype(float) / den, V)
    else:
        arg = (idx / den) if den != 1 else _arg(idxl, form)
        got = fn(arg)
        if den == 1:
            _untouched(arg, idxl, 'vector_crystal_to_cartesian')
        exp = (idx.astype(float) / den) @ V
    got = np.asarray(got)
    tol = _tolV(V, 4 * int(np.abs(idx).max()), vpert)
    key = None
    if four and den == 1 and _leaves(form, 2 * Q[..., 0], 2 * Q[..., 0] + Q[..., 1], 2 * Q[..., 1], 2 * Q[..., 1] + Q[..., 0]):
        key = K_V34_DTYPE                                # known finding: vector4to3 works in the dtype of the caller's array
        labels.add('dt_overflow')
    if four and den == 1 and form in NARROWF:
        key = K_V34_FLOAT
    require(got.shape == idx.shape and float(np.abs(got - exp).max()) <= tol,
            lambda: 'vector_crystal_to_cartesian(%r%s) = %r, expected %r (tol %.3g)'
            % (np.asarray(arg).tolist(), (' as %s array' % arg.dtype) if isinstance(arg, np.ndarray) else '', got.tolist(), exp.tolist(), tol), key)
    if den != 1:
        labels.add('fractional')
    return got


def oracle_random(case):
    am, miller = _am()
    op = case['op']
    labels = _shape_labels(case) | {'op_' + op}
    idx = np.array(case['idx'], dtype=np.int64)
    flat = idx.reshape(-1, 3)
    mixed = any(_has_mixed(t) for t in flat.tolist())

    if op in ('normal', 'vector'):
        cell = case['cell']
        V = _cellV(cell)
        cond = float(np.linalg.cond(V))
        box, vpert = _mkbox(am, V, cell)
        hexa = _hexa(cell)
        labels.add('fam_' + cell['family'])
        if cell.get('rot'):
            labels.add('rotated')
        for x in ('sym', 'tilt'):
            if cell.get(x):
                labels.add('cell_' + x)
        nonorth = not ref.is_orthogonal_family(cell)

    if op == 'normal':
        _do_normal(miller, box, V, cond, hexa, case['idx'], case['uvw'], case['via'], case['four'], case['form'], labels, vpert)
        if 'refusal_nonhex' in labels:
            return labels
        if (mixed and nonorth) or 'dt_overflow' in labels:
            labels.add('nt')
        return labels

    if op == 'vector':
        _do_vector(miller, box, V, hexa, case['idx'], case['via'], case['four'], case['form'], case['den'], labels, vpert)
        if 'refusal_nonhex' in labels:
            return labels
        if mixed and nonorth:
            labels.add('nt')
        return labels

    if op == 'conv34':
        arg = _arg(case['idx'], case['form'])
        u, v = flat[:, 0], flat[:, 1]
        if case['form'] in g16.DTYPES and _leaves(case['form'], 2 * u, 2 * u - v, 2 * v, 2 * v - u, 2 * u + v, 2 * v + u):
            labels.add('dt_overflow')
        v4, Q, p4 = _check_34(miller, arg, case['form'])
        _untouched(arg, case['idx'], 'a 3<->4 index conversion')
        if case['bad']:
            _check_guards(miller, Q, case['bad'])
            labels.add('guard')
        if mixed or 'dt_overflow' in labels:
            labels.add('nt')
        return labels

    if op == 'centering':
        s, den = case['setting'], case['den']
        labels.add('set_' + s)
        _check_centring_matrices(miller, s)
        if den == 1:
            arg = _arg(case['idx'], case['form'])
            _check_centring_block(miller, s, arg, True)
            _untouched(arg, case['idx'], 'a centring conversion')
        else:
            _check_centring_block(miller, s, idx / den, False)
            labels.add('fractional')
        if mixed and s != 'p':
            labels.add('nt')
        return labels

    if op == 'reduce':
        m = case['mult']
        A = idx * m
        if case['four']:
            A = np.stack([A[..., 0], A[..., 1], -(A[..., 0] + A[..., 1]), A[..., 2]], axis=-1)
            labels.add('four')
        key = K_REDUCE_2D if A.ndim == 3 else None
        rows = A.reshape(-1, A.shape[-1]).tolist()
        if case['form'] in g16.DTYPES:
            lo, hi = _dt_range(case['form'])
            if lo < 0 and any(ref.gcd_reduce(t) == -lo for t in rows):
                key = K_REDUCE_MIN                       # known finding: gcd = |lowest value of the dtype|
                labels.add('dt_overflow')
        arg = _arg(A.tolist(), case['form'])
        try:
            got = miller.reduce_indices(arg)
        except ValueError as e:
            raise Violation('reduce_indices on an array of shape %r raised ValueError(%s)' % (A.shape, e), key)
        _untouched(arg, A.tolist(), 'reduce_indices')
        exp = _judge_reduce(got, A, key)
        again = miller.reduce_indices(exp)
        require(np.array_equal(np.asarray(again), exp), lambda: 'reduce_indices is not idempotent on %r' % exp.tolist(), key)
        gmax = max(ref.gcd_reduce(t) for t in rows)
        if gmax > 1:
            labels.add('gcd>1')
            if mixed or case['form'] in g16.DTYPES:
                labels.add('nt')
        return labels
    raise ValueError('unknown op %r' % op)


# ----------------------------------------------------------------------------- strings

_REFUSAL_ASSERTS = ('fraction can only have one /', 'array must have 3 or 4 indices')


def _expected_strict(fac, ints):
    return [float(fac * k) for k in ints]


def _cmp_values(got, exp, text):
    got = np.asarray(got)
    require(got.shape == (len(exp),) and got.dtype.kind == 'f',
            lambda: 'fromstring(%r) returned shape %r dtype %r, the string shows %d numbers' % (text, got.shape, got.dtype, len(exp)))
    for gv, ev in zip(got.tolist(), exp):
        require(abs(gv - ev) <= 4 * EPS * abs(ev), lambda: 'fromstring(%r) = %r, the string shows %r' % (text, got.tolist(), exp))


def oracle_strings(case):
    am, miller = _am()
    text = case['text']
    p = ref.parse_strict(text)
    if p is None:
        raise RuntimeError('harness: generated string %r is not in the strict grammar' % text)
    fac, ints = p
    want = Fraction(case['frac'][0], case['frac'][1]) if case['frac'] else Fraction(1)
    if ints != case['ints'] or fac != want:
        raise RuntimeError('harness: reference parser disagrees with the generator on %r' % text)
    got = miller.fromstring(text)
    _cmp_values(got, _expected_strict(fac, ints), text)
    first = [c for c in text if c in '[(<{']
    labels = {'n%d' % len(ints), 'br_' + (first[0] if first else 'bare')}
    if case['frac']:
        labels.add('fraction')
    if any(x < 0 for x in ints):
        labels.add('negative')
    if labels & {'fraction', 'negative'}:
        labels.add('nt')
    return labels


def oracle_fuzz(case):
    am, miller = _am()
    text = case['text']
    strict = ref.parse_strict(text)
    if strict is not None:
        got = miller.fromstring(text)
        _cmp_values(got, _expected_strict(*strict), text)
        return {'strict'}
    wide = ref.parse_wide(text)
    labels = {'nt', 'wide' if wide is not None else 'malformed'}
    try:
        got = miller.fromstring(text)
    except ValueError:
        return labels | {'refused', 'refused_ValueError'}
    except ZeroDivisionError:
        return labels | {'refused', 'refused_ZeroDivision'}
    except AssertionError as e:
        require(str(e) in _REFUSAL_ASSERTS, lambda: 'fromstring(%r) raised AssertionError(%r)' % (text, str(e)))
        return labels | {'refused', 'refused_Assertion'}
    got = np.asarray(got)
    require(got.ndim == 1 and got.shape[0] in (3, 4) and got.dtype.kind == 'f',
            lambda: 'fromstring(%r) returned %r' % (text, got))
    if wide is not None and wide[0] is not None:
        fac, nums = wide
        exp = [fac * x for x in nums]
        require(got.shape == (len(exp),), lambda: 'fromstring(%r) returned %r, the string shows %r' % (text, got.tolist(), exp))
        for gv, ev in zip(got.tolist(), exp):
            same = math.isnan(gv) if math.isnan(ev) else (gv == ev if math.isinf(ev) else abs(gv - ev) <= 8 * EPS * abs(ev))
            require(same, lambda: 'fromstring(%r) = %r, the string shows %r' % (text, got.tolist(), exp))
        return labels | {'accepted_shown'}
    return labels | {'accepted_partial'}


# ----------------------------------------------------------------------------- family

_PRED = ('cubic', 'hexagonal', 'tetragonal', 'rhombohedral', 'orthorhombic', 'monoclinic', 'triclinic')


def _judge_family(box, expected, via, descr, kw=None):
    """identifyfamily() names the family `expected` and exactly that is<family> predicate holds (expected None: the cell was
    not made from family parameters; only consistency of the name with the predicates is asked).  descr: callable -> str.
    kw: the documented tolerance arguments (rtol, atol) to pass, None = defaults"""
    am, miller = _am()
    from atomman.tools import crystalsystem as cs
    kw = kw or {}
    with warnings.catch_warnings():
        warnings.simplefilter('ignore')
        if via == 'method':
            name = box.identifyfamily(**kw)
            preds = {f: bool(getattr(box, 'is' + f)(**kw)) for f in _PRED}
        else:
            name = cs.identifyfamily(box, **kw)
            preds = {f: bool(getattr(cs, 'is' + f)(box, **kw)) for f in _PRED}
    true = sorted(f for f, v in preds.items() if v)
    if expected is None:
        require(name is None or (name in _PRED and preds[name]), lambda: '%s: identifyfamily() = %r but predicates true for %r' % (descr(), name, true))
        return name
    require(name == expected, lambda: '%s: identifyfamily() = %r, expected %r (a,b,c,alpha,beta,gamma = %r)'
            % (descr(), name, expected, [float(getattr(box, q)) for q in ('a', 'b', 'c', 'alpha', 'beta', 'gamma')]))
    require(true == [expected], lambda: '%s: predicates true for %r, expected exactly [%r]' % (descr(), true, expected))
    return name


_NLEN = {'cubic': 1, 'tetragonal': 2, 'hexagonal': 2, 'trigonal': 1, 'orthorhombic': 3, 'monoclinic': 3, 'triclinic': 3}
_PT = {'pyint': int, 'int8': np.int8, 'uint8': np.uint8, 'int16': np.int16, 'uint16': np.uint16, 'int32': np.int32, 'int64': np.int64,
       'f32': np.float32, 'f16': np.float16, 'f64': np.float64}


def _ctor_abc(ctor, p):
    """the six lattice parameters the documented constructor arguments stand for"""
    if ctor == 'cubic':
        return [p[0], p[0], p[0], 90.0, 90.0, 90.0]
    if ctor == 'tetragonal':
        return [p[0], p[0], p[1], 90.0, 90.0, 90.0]
    if ctor == 'hexagonal':
        return [p[0], p[0], p[1], 90.0, 90.0, 120.0]
    if ctor == 'trigonal':
        return [p[0], p[0], p[0], p[1], p[1], p[1]]
    if ctor == 'orthorhombic':
        return [p[0], p[1], p[2], 90.0, 90.0, 90.0]
    if ctor == 'monoclinic':
        return [p[0], p[1], p[2], 90.0, p[3], 90.0]
    return list(p)


def oracle_family(case):
    am, miller = _am()
    from atomman.tools import crystalsystem as cs
    ctor, p = case['ctor'], list(case['params'])
    scale = case.get('scale')                            # working-unit plans: lengths are angstrom numbers x the size of the angstrom
    if scale is not None:
        p = [x * scale if i < _NLEN[ctor] else x for i, x in enumerate(p)]
    expected = 'rhombohedral' if ctor == 'trigonal' else ctor
    labels = {'fam_' + expected}
    pt = case.get('ptype')
    if pt:
        # class C: whole-number parameters as Python ints / numpy scalars.  Premise of the family claim: the constructor built
        # the cell with the lattice parameters it was given
        labels.update({'ptyped', 'ptype_' + pt})
        key = None if pt in ('pyint', 'f64') else K_SETABC_SCALAR
        args = [_PT[pt](x) for x in p]
        what = 'Box.%s(%s)' % (ctor, ', '.join('%s(%r)' % (pt, x) for x in p))
        try:
            with warnings.catch_warnings():
                warnings.simplefilter('ignore')
                box = getattr(am.Box, ctor)(*args)
                got = [float(getattr(box, q)) for q in ('a', 'b', 'c', 'alpha', 'beta', 'gamma')]
        except Exception as e:
            if key is None:
                raise
            raise Violation('%s raised %s(%s)' % (what, type(e).__name__, e), key)
        want = [float(x) for x in _ctor_abc(ctor, p)]
        ok = all(abs(g - w) <= 1e-10 * w for g, w in zip(got[:3], want[:3])) and all(abs(g - w) <= 1e-8 for g, w in zip(got[3:], want[3:]))
        require(ok, lambda: '%s has a, b, c, alpha, beta, gamma = %r, not the parameters given %r' % (what, got, want), key)
    else:
        box = getattr(am.Box, ctor)(*p)
    if case['rot']:
        R = gens.rotation_matrix(*case['rot'])
        box = am.Box(vects=np.asarray(box.vects) @ R.T)
        labels.add('rotated')
    if case.get('via_model'):
        box = am.Box(model=box.model())
    labels.add('via_' + case['via'])
    descr = lambda: 'Box.%s(%s)%s' % (ctor, ', '.join(repr(x) for x in p), ' rotated' if case['rot'] else '')
    if scale is None:
        _judge_family(box, expected, case['via'], descr)
    else:
        # the documented absolute tolerance is a number in working units of LENGTH (it is applied to a, b, c as they are): passed
        # as 1e-8 angstrom.  With the default (1e-8 working units) the claim is only made where that is still small against
        # rtol x the lengths, i.e. for lengths >= 0.1 working units - under metres every length equals every other within 1e-8,
        # which is what the docstring's 'atol : absolute tolerance for testing box parameters, default 1e-8' says it does
        _judge_family(box, expected, case['via'], descr, {'atol': 1e-8 * scale})
        if min(p[:_NLEN[ctor]]) >= 0.1:
            _judge_family(box, expected, case['via'], descr)
            labels.add('default_atol')
    if case['rot'] or expected in ('hexagonal', 'rhombohedral', 'monoclinic', 'triclinic'):
        labels.add('nt')
    return labels


# ----------------------------------------------------------------------------- histories on one Box object

_HOW_VECTS = ('vects_attr', 'set_vects', 'set_avect', 'model', 'model_json')
_HOW_ALL = ('set_abc', 'set_lengths', 'set_hilo', 'vects_attr', 'set_vects', 'set_avect', 'model', 'model_json', 'set_abc', 'set_hilo')
_READ = ('reciprocal_vects', 'a', 'alpha', 'volume', 'vects', 'b', 'is_lammps_norm', 'c', 'beta', 'gamma', 'avect', 'origin')
# (lx, ly, lz, xy, xz, yz are documented to assert on a box that is not in the LAMMPS orientation: not read)
_VPERT_ABC = 32 * EPS     # Box.set(a=...) builds xy, xz, yz, lz with other (equivalent) expressions than my cell_matrix


def _cellV(cell):
    """my matrix (rows a, b, c) of a cell: whole-number vectors or family parameters (+ rotation), then - cross-pollination
    round - tiny tilts ('tilt': fractions of the largest entry added off the diagonal), an exact signed permutation of lattice
    vectors and Cartesian axes ('sym'), an overall length factor ('scale': the size of the angstrom in the working units)"""
    if 'vects' in cell:
        V = np.array(cell['vects'], dtype=float)
    else:
        V = ref.cell_matrix(cell)
    t = cell.get('tilt')
    if t:
        m = float(np.abs(V).max())
        V = V.copy()
        for (i, j), d in zip(((1, 0), (2, 0), (2, 1), (0, 1), (0, 2), (1, 2)), t):
            V[i, j] += d * m
    sy = cell.get('sym')
    if sy:
        V = (V[sy['rp'], :] * np.array(sy['rs'], dtype=float)[:, None])[:, sy['cp']] * np.array(sy['cs'], dtype=float)[None, :]
        if not np.linalg.det(V) > 0:
            raise RuntimeError('harness: sym %r makes the cell left-handed' % (sy,))
    if cell.get('scale') is not None:
        V = V * float(cell['scale'])
    return V


def _rows_relabelled(cell):
    sy = cell.get('sym')
    return bool(sy) and (list(sy['rp']) != [0, 1, 2] or list(sy['rs']) != [1, 1, 1])


def _hexa(cell):
    """is the cell hexagonal in the documented sense (a = b, alpha = beta = 90, gamma = 120): by construction for plain family
    cells; for relabelled lattice vectors / tiny tilts from my own lattice parameters and the documented tolerances - such cells
    inside the factor-3 band around a tolerance the answer is None (4-index input may then be accepted or refused)"""
    if 'abc' not in cell:
        return False
    if not (_rows_relabelled(cell) or cell.get('tilt')):
        return ref.is_hexagonal_cell(cell)
    return _model_preds(_params_of(_cellV(cell)), 1e-5, 1e-8)['hexagonal']       # None: inside the band, either answer is accepted


def _mkbox(am, V, cell):
    """the Box of the cell; with cell['via_model'] through the data model of another Box (-> 4 eps relative on the vectors)"""
    if cell.get('via_model'):
        return am.Box(model=am.Box(vects=V).model()), 8 * EPS
    return am.Box(vects=V), 0.0


def _params_of(V):
    """lattice parameters a, b, c, alpha, beta, gamma (degrees) of the rows of V, my own formulas"""
    L = [math.sqrt(float(V[i] @ V[i])) for i in range(3)]
    ang = [math.degrees(math.acos(max(-1.0, min(1.0, float(V[i] @ V[j]) / (L[i] * L[j]))))) for i, j in ((1, 2), (0, 2), (0, 1))]
    return L + ang


def _cl(x, y, rtol, atol):
    """x = y within the documented relative / absolute tolerance (numpy.isclose reading: |x-y| <= atol + rtol |y|): True / False
    outside a factor-3 band around the threshold, None inside it"""
    d, t = abs(x - y), atol + rtol * abs(y)
    return True if d <= t / 3 else (False if d >= 3 * t else None)


def _and(*v):
    if any(x is False for x in v):
        return False
    return None if any(x is None for x in v) else True


def _not(x):
    return None if x is None else (not x)


def _model_preds(p, rtol=1e-5, atol=1e-8):
    """the seven documented family definitions (docstrings of Box.is<family>) applied to lattice parameters p with the documented
    tolerance arguments; values True / False / None (= too close to a tolerance to call)"""
    a, b, c, al, be, ga = p
    ab, ac, bc = _cl(a, b, rtol, atol), _cl(a, c, rtol, atol), _cl(b, c, rtol, atol)
    a90, b90, g90 = (_cl(x, 90.0, rtol, atol) for x in (al, be, ga))
    alldiff = _and(_not(ab), _not(ac), _not(bc))
    return {'cubic': _and(ab, ac, a90, b90, g90),
            'hexagonal': _and(ab, a90, b90, _cl(ga, 120.0, rtol, atol)),
            'tetragonal': _and(ab, _not(ac), a90, b90, g90),
            'rhombohedral': _and(ab, ac, _cl(al, be, rtol, atol), _cl(al, ga, rtol, atol), _not(a90)),
            'orthorhombic': _and(alldiff, a90, b90, g90),
            'monoclinic': _and(alldiff, a90, _not(b90), g90),
            'triclinic': _and(alldiff, _not(a90), _not(b90), _not(g90))}


def _model_name(pr):
    """identifyfamily(): the first documented family (cubic, hexagonal, tetragonal, rhombohedral, orthorhombic, monoclinic, triclinic)
    whose definition holds, None if none does; 'undecided' when a test before the first match is too close to call"""
    for f in _PRED:
        if pr[f] is None:
            return 'undecided'
        if pr[f]:
            return f
    return None


def _vects_arg(V, form, cell):
    """the 3x3 vectors in one of the array-like forms; whole-number cells go in as integers (list/tuple/int array)"""
    whole = 'vects' in cell
    if form in ('list', 'tuple'):
        l = [list(r) for r in cell['vects']] if whole else V.tolist()
        return l if form == 'list' else _tuplify(l)
    a = np.array(cell['vects'], dtype=np.int64) if (whole and form == 'int') else np.array(V, dtype=float)
    if form == 'f32':
        return a.astype(np.float32)                      # the caller's V is already rounded to float32 (_plan_mod)
    if form == 'fortran':
        return np.asfortranarray(a)
    if form == 'nc':
        big = np.full((3, 6), 99.0)
        big[:, ::2] = a
        return big[:, ::2]
    if form == 'ro':
        a.setflags(write=False)
    return a


def _spoil(arg):
    """after the call the caller re-uses its own array: the Box must have kept a copy"""
    if isinstance(arg, np.ndarray) and arg.flags.writeable:
        arg[...] = 7.25
    elif isinstance(arg, list):
        for r in arg:
            if isinstance(r, list):
                r[:] = [7.25] * len(r)
            elif isinstance(r, np.ndarray) and r.flags.writeable:
                r[...] = 7.25


def _plan_mod(am, step):
    """-> (route, payload, V, vpert, description).  route 'attr': box.vects = payload; 'set': box.set(**payload) /
    System.box_set(**payload); 'model': box.model(model=payload).  V is MY matrix of the new cell."""
    cell = step['cell']
    V = _cellV(cell)
    hows = _HOW_VECTS if (cell.get('rot') or 'vects' in cell) else _HOW_ALL
    how = hows[step['how'] % len(hows)]
    form, origin, omit = step['form'], step.get('origin'), step.get('omit')
    if form == 'f32' and how in ('vects_attr', 'set_vects', 'set_avect'):
        V = V.astype(np.float32).astype(np.float64)      # class C: the vectors are handed over as a float32 array (exact values)
    if how == 'vects_attr':
        return 'attr', _vects_arg(V, form, cell), V, 0.0, how
    if how == 'set_vects':
        kw = {'vects': _vects_arg(V, form, cell)}
        if origin is not None:
            kw['origin'] = list(origin)
        return 'set', kw, V, 0.0, how
    if how == 'set_avect':
        A = _vects_arg(V, form, cell)
        kw = {'avect': A[0], 'bvect': A[1], 'cvect': A[2]}
        if origin is not None:
            kw['origin'] = np.array(origin, dtype=float)
        return 'set', kw, V, 0.0, how
    if how in ('model', 'model_json'):
        # the data model of another Box of that cell (Box.model() is trusted to write the vectors it holds: checked below
        # through the vectors read back, never through the judged functions)
        m = am.Box(vects=V, origin=(origin if origin is not None else [0.0, 0.0, 0.0])).model()
        return 'model', (m.json() if how == 'model_json' else m), V, 0.0, how
    a, b, c, al, be, ga = (float(x) for x in cell['abc'])
    if how == 'set_abc':
        kw = {'a': a, 'b': b, 'c': c}
        for nm, x in (('alpha', al), ('beta', be), ('gamma', ga)):
            if not (omit and x == 90.0):
                kw[nm] = x
        if origin is not None:
            kw['origin'] = list(origin)
        return 'set', kw, V, _VPERT_ABC, how
    tilts = {'xy': float(V[1, 0]), 'xz': float(V[2, 0]), 'yz': float(V[2, 1])}
    kw = {nm: x for nm, x in tilts.items() if not (omit and x == 0.0)}
    if how == 'set_lengths':
        kw.update(lx=float(V[0, 0]), ly=float(V[1, 1]), lz=float(V[2, 2]))
        if origin is not None:
            kw['origin'] = list(origin)
        return 'set', kw, V, 0.0, how
    o = [float(x) for x in (origin if origin is not None else [0.0, 0.0, 0.0])]
    V = V.copy()
    for i, nm in enumerate('xyz'):
        hi = o[i] + float(V[i, i])
        kw[nm + 'lo'], kw[nm + 'hi'] = o[i], hi
        V[i, i] = hi - o[i]                              # what the documented lx = xhi - xlo gives in floating point
    return 'set', kw, V, 0.0, how


class _Held:
    """one Box under test with my own record of its cell"""
    def __init__(self, box, system, V, cell, vpert):
        self.box, self.system = box, system
        self.ver = 0
        self.seen = {'normal': {}, 'vector': {}, 'family': {}}
        self.fresh = True
        self.ledger = None          # shared _Ledger of the history (set by the oracle)
        self.put(V, cell, vpert, True)

    def put(self, V, cell, vpert, changed):
        self.V, self.cell, self.vpert = V, cell, vpert
        self.cond = float(np.linalg.cond(V))
        self.hexa = 'abc' in cell and ref.is_hexagonal_cell(cell)
        self.fam = cell['family'] if 'abc' in cell else None
        if changed:
            self.ver += 1

    def mark(self, kind, keys, labels):
        seen = self.seen[kind]
        for k in keys:
            if k in seen and seen[k] < self.ver:
                labels.add('requery_' + kind)
            seen[k] = self.ver


def _build_held(am, step, holder):
    """a new Box of step['cell'] through one of the constructor routes (the same routes as the in-place changes)"""
    route, payload, V, vpert, how = _plan_mod(am, step)
    if route == 'attr':
        box = am.Box()
        box.vects = payload
    elif route == 'model':
        box = am.Box(model=payload)
    else:
        box = am.Box(**payload)
        payload = list(payload.values())
    _spoil(payload)
    system = None
    if holder == 'system':
        system = am.System(atoms=am.Atoms(pos=[[0.125, 0.25, 0.375], [0.5, 0.625, 0.75]]), box=box, scale=True)
        box = system.box
    return _Held(box, system, V, step['cell'], vpert), 'Box<%s>' % how


def _sel(planes, sel):
    if sel == 0:
        return list(planes)
    out = [p for i, p in enumerate(planes) if (sel >> i) & 1]
    return out or [planes[sel % len(planes)]]


def _shaped(rows, shape, perm):
    if shape == '0':
        return rows[0]
    if shape == 'MN':
        return [rows] if perm % 2 == 0 else [[r] for r in rows]
    return rows


def _judge_read(h, perm):
    box, V = h.box, h.V
    rel = 4 * (_vfloor(V) + h.vpert) + 1e-12
    n = len(_READ)
    val = {}
    for i in range(n):                                   # reading order: a rotation of _READ, backwards for odd perm
        nm = _READ[(perm + (i if perm % 2 == 0 else -i)) % n]
        v = getattr(box, nm)
        val[nm] = v() if nm == 'is_lammps_norm' else v
    R = np.asarray(val['reciprocal_vects'], dtype=float)
    e = float(np.abs(R @ V.T - np.eye(3)).max())
    require(R.shape == (3, 3) and e <= (rel + 64 * EPS) * h.cond * 3,
            lambda: 'Box.reciprocal_vects %r is not the reciprocal basis of the cell %r (|R.V^T - 1| = %.3g)' % (R.tolist(), V.tolist(), e))
    L = np.linalg.norm(V, axis=1)
    for i, nm in enumerate('abc'):
        require(abs(float(val[nm]) - L[i]) <= rel * L[i] * 4, lambda: 'Box.%s = %r, the cell has %r' % (nm, val[nm], L[i]))
    for nm, (i, j) in (('alpha', (1, 2)), ('beta', (0, 2)), ('gamma', (0, 1))):
        ang = math.degrees(math.acos(max(-1.0, min(1.0, float(V[i] @ V[j]) / (L[i] * L[j])))))
        require(abs(float(val[nm]) - ang) <= 1e-6, lambda: 'Box.%s = %r, the cell has %r' % (nm, val[nm], ang))
    vol = float(np.linalg.det(V))
    require(abs(float(val['volume']) - vol) <= 16 * rel * vol * h.cond, lambda: 'Box.volume = %r, the cell has %r' % (val['volume'], vol))
    got = np.asarray(val['vects'], dtype=float)
    require(float(np.abs(got - V).max()) <= _tolV(V, 1, h.vpert), lambda: 'Box.vects = %r, the cell is %r' % (got.tolist(), V.tolist()))


def _query_held(miller, h, q, planes, uvw, labels):
    what = q['what']
    labels.add('q_' + what)
    if what == 'read':
        _judge_read(h, q['perm'])
        return
    if what == 'family':
        _judge_family(h.box, h.fam, 'method' if q['via'] == 'box' else 'function', lambda: 'the Box')
        h.mark('family', ['f'], labels)
        if h.fam is None:
            labels.add('family_unasserted')
        return
    rows = _sel(planes, q['sel'])
    four = q['four'] == 1 or (q['four'] == 2 and h.hexa)
    if q['form'] in g16.UNSIGNED:
        # unsigned array: the planes / vectors of the pool with their signs dropped; 3-index only (-(h+k) is not representable)
        rows = [[abs(x) for x in r] for r in rows]
        four = False
    if q['form'] in g16.DTYPES:
        labels.add('narrow')
    if q['form'] in g16.FDTYPES:
        labels.add('fnarrow')
    if q['shape'] == '0':
        rows = rows[:1]
    idxl = _shaped(rows, q['shape'], q['perm'])
    labels.add('form_' + q['form'])
    if what == 'normal':
        got = _do_normal(miller, h.box, h.V, h.cond, h.hexa, idxl, uvw, q['via'], four, q['form'], labels, h.vpert)
    else:
        got = _do_vector(miller, h.box, h.V, h.hexa, idxl, q['via'], four, q['form'], q['den'], labels, h.vpert)
    if got is None:
        return
    h.mark(what, [tuple(r) for r in rows], labels)
    if q['perm'] % 3 == 0 and isinstance(got, np.ndarray) and got.flags.writeable:
        got[...] = 9.75                                  # the caller re-uses the result array
        labels.add('result_overwritten')
    elif h.ledger is not None and h.ledger.add('%s_crystal_to_cartesian(%r)' % ('plane' if what == 'normal' else 'vector', idxl), got) is not None:
        labels.add('ledger')                             # class A: kept, and compared bit for bit after every later step


def _final_pass(miller, h, planes, uvw, labels):
    lab = set()
    _do_normal(miller, h.box, h.V, h.cond, h.hexa, [list(p) for p in planes], uvw, 'box', False, 'int', lab, h.vpert)
    h.mark('normal', [tuple(r) for r in planes], labels)
    _do_vector(miller, h.box, h.V, h.hexa, [list(p) for p in planes], 'box', False, 'int', 1, lab, h.vpert)
    h.mark('vector', [tuple(r) for r in planes], labels)
    _judge_family(h.box, h.fam, 'method', lambda: 'the Box')
    h.mark('family', ['f'], labels)
    labels.update(x for x in lab if x.startswith('br_'))


def oracle_box_history(case):
    am, miller = _am()
    import copy
    planes, uvw = case['planes'], case['uvw']
    labels = {'holder_' + case['holder'], 'steps=%d' % min(len(case['steps']), 12)}
    trail = []
    others = []
    led = _Ledger()
    try:
        h, d = _build_held(am, {'cell': case['cell'], 'how': case.get('how0', 1), 'form': case['form0'], 'origin': None, 'omit': False},
                           case['holder'])
        trail.append(d)
        if case['form0'] == 'f32':
            labels.add('vform_f32')
        nmod = 0
        for stp in case['steps']:
            k = stp['k']
            h.ledger = led
            led.check(' -> '.join(trail[-2:]))
            if stp.get('form') == 'f32' and k in ('mod', 'new'):
                labels.add('vform_f32')
            if k == 'q':
                trail.append('%s%s(%s)' % (stp['what'], {0: '', 1: '/4-index', 2: '/4-index if hexagonal'}[stp['four']] if stp['what'] in ('normal', 'vector') else '', stp['via']))
                _query_held(miller, h, stp, planes, uvw, labels)
            elif k == 'origin':
                trail.append('origin')
                if stp['via'] == 'box':
                    h.box.origin = list(stp['o'])
                else:
                    h.box.set(origin=np.array(stp['o'], dtype=float))
                labels.add('origin_only')
            elif k == 'scribble':
                trail.append('scribble')
                v = h.box.vects
                v[...] = 3.5
                a = h.box.avect
                a[...] = -1.5
                o = h.box.origin
                o[...] = 2.5
                labels.add('scribble')
            elif k == 'default':
                trail.append('set()')
                Vold = h.V
                h.box.set()
                h.put(np.eye(3), {'family': 'cubic', 'abc': [1.0, 1.0, 1.0, 90.0, 90.0, 90.0], 'rot': None}, 0.0, not np.array_equal(Vold, np.eye(3)))
                labels.add('mod_default')
                nmod += 1
            elif k == 'new':
                old = h
                h, d = _build_held(am, {'cell': stp['cell'], 'how': stp.get('how', 1), 'form': stp['form'], 'origin': None, 'omit': False},
                                   case['holder'])
                # what was asked of the dropped object counts as asked before (an id-keyed memo would meet the id again)
                for kind in h.seen:
                    h.seen[kind] = {key: 0 for key in old.seen[kind]}
                del old
                trail.append('new ' + d)
                labels.add('new_object')
            elif k == 'copy':
                trail.append('deepcopy')
                old = h
                if old.system is not None:
                    sysc = copy.deepcopy(old.system)
                    h = _Held(sysc.box, sysc, old.V, old.cell, old.vpert)
                else:
                    h = _Held(copy.deepcopy(old.box), None, old.V, old.cell, old.vpert)
                h.ver = old.ver
                h.seen = {kind: dict(d) for kind, d in old.seen.items()}
                others.append(old)
                labels.add('copy')
            elif k == 'mod':
                route, payload, V, vpert, how = _plan_mod(am, stp)
                sysmode = stp['sys'] if h.system is not None else 0
                trail.append(how + ('' if not sysmode else ('/box_set' if sysmode == 1 else '/box_set(scale)')))
                tgt = h.system.box if sysmode else h.box
                Vold = h.V
                if route == 'attr':
                    tgt.vects = payload
                elif route == 'model':
                    tgt.model(model=payload)
                elif sysmode:
                    h.system.box_set(scale=(sysmode == 2), **payload)
                    payload = list(payload.values())
                    labels.add('via_box_set')
                else:
                    h.box.set(**payload)
                    payload = list(payload.values())
                _spoil(payload)
                changed = not np.array_equal(V, Vold)
                hex_before = h.hexa
                h.put(V, stp['cell'], vpert, changed)
                labels.add('mod_' + how)
                labels.add('changed' if changed else 'mod_same_cell')
                if stp['cell'].get('rel'):
                    labels.add('rel_' + stp['cell']['rel'])
                if hex_before != h.hexa:
                    labels.add('hex_toggled')
                if stp['cell'].get('rot'):
                    labels.add('rotated')
                labels.add('fam_' + stp['cell']['family'])
                nmod += 1
            else:
                raise ValueError('unknown step %r' % (stp,))
        trail.append('final')
        led.check(' -> '.join(trail[-2:]))
        _final_pass(miller, h, planes, uvw, labels)
        led.check('the final queries')
        for o in others:
            trail.append('final(original of the copy)')
            _final_pass(miller, o, planes, uvw, set())
    except Violation as e:
        raise Violation('history [%s]: %s' % (' -> '.join(trail), e.detail), e.key)
    if 'requery_normal' in labels and 'four' in labels:
        labels.add('requery_with_four')
    if labels & {'requery_normal', 'requery_vector'}:
        labels.add('nt')
    return labels


# ----------------------------------------------------------------------------- histories of module-level calls

_SUB = {'random': oracle_random, 'strings': oracle_strings, 'family': oracle_family}


def oracle_call_history(case):
    """every call is a complete case of another clause and is judged by that clause's oracle - when first made, and again
    when all calls are repeated in another order (so each call is preceded by every other one at least once)"""
    ops = case['ops']
    n = len(ops)
    labels = {'len=%d' % n, 'related' if case['related'] else 'mixed'}
    first = []
    order = list(range(n)) + [(case['order'] + i * (n - 1 if n > 2 and case['order'] % 2 else 1)) % n for i in range(n)]
    # second round: a rotation (or, for odd 'order', a reversed rotation) of the first
    done = []
    for pos, i in enumerate(order):
        kind, sub = ops[i]
        try:
            lab = _SUB[kind](sub)
        except Violation as e:
            raise Violation('call %d of the sequence [%s] (%s): %s' % (pos + 1, ', '.join(done), 'a repeat' if pos >= n else 'first time', e.detail), e.key)
        done.append(_opname(kind, sub))
        if pos < n:
            first.append(lab)
            labels.update(x for x in lab if x.startswith(('op_', 'form_', 'set_', 'fam_')) or x in ('four', 'refusal_nonhex', 'rotated', 'fractional', 'narrow', 'fnarrow', 'dt_overflow'))
            if kind != 'random':
                labels.add('op_' + kind)
    kinds = {_opname(k, s) for k, s in ops}
    if len(kinds) > 1:
        labels.add('several_kinds')
    sets = [s.get('setting') for k, s in ops if k == 'random' and s['op'] == 'centering']
    if len(set(sets)) > 1:
        labels.add('settings_mixed')
    if {'t1', 't2'} <= set(sets):
        labels.add('t1_and_t2')
    cells = [jd(s['cell']) for k, s in ops if k == 'random' and 'cell' in s]
    if len(set(cells)) > 1:
        labels.add('cells_mixed')
    if any('nt' in l for l in first):
        labels.add('nt')
    return labels


def _opname(kind, sub):
    if kind != 'random':
        return kind
    return sub['op'] + ('/' + sub['setting'] if sub['op'] == 'centering' else '')


def jd(x):
    import json
    return json.dumps(x, sort_keys=True)


# ============================================================================= cross-pollination round (classes A-H)
#
#  A result ledger            clause `ledger` (module functions, several Box objects) and box_history (label 'ledger'): every array
#                             a call returned is kept with a private copy and compared bit for bit after every later call
#  B caller-side mutation     clause `ledger` 'post' steps: the caller overwrites the arrays it handed in / got back, then repeats
#                             the calls (fresh arguments, same Box object); box_history already spoils handed-in vectors and results
#  C storage / input dtypes   integer dtypes: round 4 ('narrow'); now float32 / float16 / big-endian floating index arrays of whole
#                             numbers ('fnarrow', all clauses drawing a form), float32 cell vectors (box_history 'vform_f32'),
#                             lattice parameters as Python ints / numpy scalars up to the dtype's limit (family 'ptyped')
#  D working-unit configuration  clause `units`: the same physical cell under reset_units(named | seed | SI), before / after the default
#  E near-threshold values    clause `near`: family parameters 1e-12 ... 1e-3 off a higher-symmetry family (own reading of the documented
#                             definitions + tolerances), tiny tilts, almost-integer plane indices, 4-index sums almost zero
#  F many decades in one call clause `decades`
#  G exactly structured inputs  cells with exact signed permutations of lattice vectors / Cartesian axes (cell['sym']; clause `structured`
#                             and a share of the cells of ledger / units / near / decades), mirrored and cyclically relabelled cases
#  H enumerated option combinations  clause `options_enum`

def _bits(a):
    a = np.asarray(a)
    return (a.shape, a.dtype.str, a.tobytes())


class _Ledger:
    """every array handed out by atomman (and every array handed in) with a private copy; check() demands bit-for-bit identity"""
    def __init__(self):
        self.rows = []          # [what, object, bits, kind('out'|'in'), alive]

    def add(self, what, obj, kind='out'):
        if isinstance(obj, np.ndarray):
            self.rows.append([what, obj, _bits(obj), kind, True])
            return len(self.rows) - 1
        return None

    def drop(self, i):
        if i is not None:
            self.rows[i][4] = False

    def check(self, after):
        for what, obj, bits, kind, alive in self.rows:
            if alive and _bits(obj) != bits:
                old = np.frombuffer(bits[2], dtype=np.dtype(bits[1])).reshape(bits[0])
                if kind == 'out':
                    raise Violation('the array returned by %s changed after %s: was %r, is now %r' % (what, after, old.tolist(), np.asarray(obj).tolist()))
                raise Violation('the array handed to %s was changed by %s: was %r, is now %r' % (what, after, old.tolist(), np.asarray(obj).tolist()))


def _four_of(idx):
    idx = np.asarray(idx, dtype=np.int64)
    return np.stack([idx[..., 0], idx[..., 1], -(idx[..., 0] + idx[..., 1]), idx[..., 2]], axis=-1)


def _raw_calls(am, miller, kind, sub, keep):
    """the atomman calls of one complete sub-case of the clauses random / strings, NOT judged here (the clause oracle has judged
    the case just before): -> [(description, [arrays handed in], array returned), ...].  keep: {'box': Box} re-used when present."""
    if kind == 'strings':
        return [('fromstring(%r)' % sub['text'], [], miller.fromstring(sub['text']))]
    op, form = sub['op'], sub['form']
    out = []
    if op in ('normal', 'vector'):
        box = keep.get('box')
        if box is None:
            box = keep['box'] = _mkbox(am, _cellV(sub['cell']), sub['cell'])[0]
        den = sub.get('den', 1) if op == 'vector' else 1
        l = _four_of(sub['idx']).tolist() if sub['four'] else sub['idx']
        arg = (np.array(l, dtype=np.int64) / den) if den != 1 else _arg(l, form)
        name = ('plane' if op == 'normal' else 'vector') + '_crystal_to_cartesian'
        fn = getattr(box, name) if sub['via'] == 'box' else (lambda a: getattr(miller, name)(a, box))
        try:
            got = fn(arg)
        except ValueError:
            return out                                   # documented refusal of 4-index input (judged by the clause oracle)
        out.append(('%s(%r)' % (name, l), [arg], got))
        if op == 'normal':
            u = _arg_fit(sub['uvw'], form)
            out.append(('vector_crystal_to_cartesian(%r)' % (sub['uvw'],), [u], box.vector_crystal_to_cartesian(u)))
        return out
    if op == 'conv34':
        arg = _arg(sub['idx'], form)
        p4 = miller.plane3to4(arg)
        out.append(('plane3to4(%r)' % (sub['idx'],), [arg], p4))
        out.append(('plane4to3(plane3to4(%r))' % (sub['idx'],), [p4], miller.plane4to3(p4)))
        v4 = miller.vector3to4(arg)
        out.append(('vector3to4(%r)' % (sub['idx'],), [arg], v4))
        out.append(('vector4to3(vector3to4(%r))' % (sub['idx'],), [v4], miller.vector4to3(v4)))
        return out
    if op == 'centering':
        s, den = sub['setting'], sub['den']
        arg = (np.array(sub['idx'], dtype=np.int64) / den) if den != 1 else _arg(sub['idx'], form)
        for fn in (miller.vector_conventional_to_primitive, miller.vector_primitive_to_conventional):
            out.append(('%s(%r/%d, setting=%r)' % (fn.__name__, sub['idx'], den, s), [arg], fn(arg, setting=s)))
        I = np.eye(3)
        for fn in (miller.vector_conventional_to_primitive, miller.vector_primitive_to_conventional):
            out.append(('%s(identity, setting=%r)' % (fn.__name__, s), [I], fn(I, setting=s)))
        return out
    if op == 'reduce':
        A = np.array(sub['idx'], dtype=np.int64) * sub['mult']
        if sub['four']:
            A = _four_of(A)
        arg = _arg(A.tolist(), form)
        out.append(('reduce_indices(%r)' % (A.tolist(),), [arg], miller.reduce_indices(arg)))
        return out
    raise ValueError('unknown op %r' % op)


def _overwrite(a, v):
    """the caller re-uses an array of its own: True if something was written"""
    if isinstance(a, np.ndarray) and a.flags.writeable and a.size:
        a[...] = (True if a.dtype.kind == 'b' else v)
        return True
    return False


def oracle_ledger(case):
    am, miller = _am()
    ops = case['ops']
    labels = {'len=%d' % len(ops)}
    led = _Ledger()
    calls = []                  # per op: [(what, [ledger index of ins], ledger index of out, bits of the first result), ...]
    keeps = []
    trail = []
    nt = False

    def run(i, keep, tag):
        kind, sub = ops[i]
        lab = _SUB[kind](sub)                            # judged by the clause the sub-case belongs to
        rec = []
        for what, ins, got in _raw_calls(am, miller, kind, sub, keep):
            for a in ins:
                # class B: the result must be the caller's to keep - an array that IS (or views) the argument moves when the caller re-uses that
                require(not (isinstance(a, np.ndarray) and isinstance(got, np.ndarray) and np.shares_memory(a, got)),
                        lambda: '%s returned an array that shares memory with its argument (the caller overwriting one changes the other)' % what)
            rec.append((what, [led.add(what, a, 'in') for a in ins], led.add(what, got, 'out'), _bits(got)))
        trail.append('%s%s' % (_opname(kind, sub), tag))
        led.check(trail[-1])
        return lab, rec

    try:
        for i in range(len(ops)):
            keep = {}
            lab, rec = run(i, keep, '')
            calls.append(rec)
            keeps.append(keep)
            nt = nt or 'nt' in lab
            labels.update(x for x in lab if x.startswith(('op_', 'form_')) or x in ('four', 'refusal_nonhex', 'narrow', 'fnarrow', 'cell_sym', 'cell_tilt', 'fractional'))
            if ops[i][0] == 'strings':
                labels.add('op_strings')
        for what, j in case['post']:
            j = j % len(ops)
            rec = calls[j]
            if what == 0:
                # the caller overwrites, in place, the arrays it handed in: no result may move
                done = False
                for w, ins, o, b in rec:
                    for k in ins:
                        if k is not None and led.rows[k][4] and _overwrite(led.rows[k][1], 7):
                            # (an argument can itself be an earlier result - plane4to3(p4): it is then the caller's to overwrite)
                            for r in led.rows:
                                if r[1] is led.rows[k][1]:
                                    r[4] = False
                            done = True
                if done:
                    labels.add('spoil_in')
                    trail.append('caller overwrites the arguments of call %d' % (j + 1))
                    led.check(trail[-1])
            elif what == 1:
                done = False
                for w, ins, o, b in rec:
                    if o is not None and led.rows[o][4] and _overwrite(led.rows[o][1], 9.75):
                        for r in led.rows:
                            if r[1] is led.rows[o][1]:
                                r[4] = False
                        done = True
                if done:
                    labels.add('spoil_out')
                    trail.append('caller overwrites the results of call %d' % (j + 1))
                    led.check(trail[-1])
            else:
                same = what == 3 and 'box' in keeps[j]
                lab, rec2 = run(j, keeps[j] if same else {}, ' again' + (' on the same Box' if same else ''))
                labels.add('recall_same_box' if same else 'recall')
                for (w, ins, o, b), (w2, ins2, o2, b2) in zip(rec, rec2):
                    require(b == b2, lambda: 'the same call, %s, returned %r the first time and %r after [%s]'
                            % (w, np.frombuffer(b[2], dtype=np.dtype(b[1])).reshape(b[0]).tolist(),
                               np.frombuffer(b2[2], dtype=np.dtype(b2[1])).reshape(b2[0]).tolist(), ' -> '.join(trail)))
        # every call once more, in reverse order, with fresh arguments and objects: judged, and bit-identical to its first result
        for i in reversed(range(len(ops))):
            lab, rec2 = run(i, {}, ' (final)')
            for (w, ins, o, b), (w2, ins2, o2, b2) in zip(calls[i], rec2):
                require(b == b2, lambda: 'the same call, %s, returned %r the first time and %r at the end of [%s]'
                        % (w, np.frombuffer(b[2], dtype=np.dtype(b[1])).reshape(b[0]).tolist(),
                           np.frombuffer(b2[2], dtype=np.dtype(b2[1])).reshape(b2[0]).tolist(), ' -> '.join(trail)))
    except Violation as e:
        raise Violation('ledger [%s]: %s' % (' -> '.join(trail), e.detail), e.key)
    labels.add('arrays=%d' % min(20, 5 * (len(led.rows) // 5)))
    if len({_opname(k, s) for k, s in ops}) > 1:
        labels.add('several_kinds')
    if nt and labels & {'spoil_in', 'spoil_out'}:
        labels.add('nt')
    return labels


# ----------------------------------------------------------------------------- clause units (class D)

def oracle_units(case):
    """the sub-case (plane normals + zone law / vectors in one cell, or family identification) for the same PHYSICAL cell under the
    working units of the plan: first `pre` (when given), then W, then (back) the restored default - one process, same oracles.
    The size of the angstrom in the working units is my own numericalunits product, not a unitconvert call."""
    am, miller = _am()
    import atomman.unitconvert as uc
    import numericalunits as nu
    plan, kind = case['plan'], case['kind']
    labels = {'kind_' + kind, 'W_' + plan['W']['kind']}

    def run():
        L = float(nu.angstrom)
        if kind == 'family':
            sub = dict(case['sub'], scale=L, via_model=case['via_model'])
            lab = oracle_family(sub)
        else:
            sub = dict(case['sub'], cell=dict(case['sub']['cell'], scale=L, via_model=case['via_model']))
            lab = oracle_random(sub)
        return L, lab

    stage = 'start'
    try:
        if plan['pre'] is not None:
            stage = 'under pre = %r' % (plan['pre'],)
            g16.apply_units(uc, plan['pre'])
            run()
            labels.add('pre_default' if plan['pre'] == g16.DEFAULT_CFG else 'pre_other')
        stage = 'under W = %r%s' % (plan['W'], '' if plan['pre'] is None else ' after pre = %r' % (plan['pre'],))
        g16.apply_units(uc, plan['W'])
        L, lab = run()
        labels.add('L_1e%d' % (3 * int(math.floor(math.log10(L) / 3.0))))
        labels.update(x for x in lab if x.startswith(('op_', 'fam_')) or x in ('four', 'refusal_nonhex', 'rotated', 'cell_sym', 'cell_tilt', 'default_atol', 'fnarrow'))
        if plan['back']:
            stage = 'under the default units after W = %r' % (plan['W'],)
            g16.restore_units(uc)
            run()
            labels.add('back')
    except Violation as e:
        raise Violation('%s: %s' % (stage, e.detail), e.key)
    finally:
        g16.restore_units(uc)
    if case['via_model']:
        labels.add('via_model')
    if 'refusal_nonhex' not in lab and (abs(math.log10(L)) >= 1.5):
        labels.add('nt')
    return labels


# ----------------------------------------------------------------------------- clause near (class E)

def _near_abc(case):
    """lattice parameters of a `near` family case: the generic parameters with ONE relation replaced by 'equal up to delta'"""
    a, b, c, al, be, ga = case['abc']
    d, base = case['delta'], case['base']
    if base == 'tetragonal':
        return 'tetragonal', [a, a * (1 + d)], [a, a, a * (1 + d), 90.0, 90.0, 90.0]
    if base == 'trigonal':
        x = 90.0 * (1 + d)
        return 'trigonal', [a, x], [a, a, a, x, x, x]
    if base == 'orthorhombic':
        return 'orthorhombic', [a, a * (1 + d), c], [a, a * (1 + d), c, 90.0, 90.0, 90.0]
    if base == 'monoclinic':
        return 'monoclinic', [a, b, c, 90.0 * (1 + d)], [a, b, c, 90.0, 90.0 * (1 + d), 90.0]
    if base == 'triclinic':
        return 'triclinic', [a, a * (1 + d), c, al, be, ga], [a, a * (1 + d), c, al, be, ga]
    if base == 'hex_ab':
        return None, None, [a, a * (1 + d), c, 90.0, 90.0, 120.0]
    return None, None, [a, a, c, 90.0, 90.0, 120.0 * (1 + d)]


def _judge_family_model(box, p, via, kw, descr, labels):
    """every is<family> predicate and identifyfamily() against my own reading of the documented definitions and tolerance arguments,
    wherever that reading is not within a factor 3 of a tolerance"""
    am, miller = _am()
    from atomman.tools import crystalsystem as cs
    kw = kw or {}
    pr = _model_preds(p, kw.get('rtol', 1e-5), kw.get('atol', 1e-8))
    with warnings.catch_warnings():
        warnings.simplefilter('ignore')
        if via == 'method':
            name = box.identifyfamily(**kw)
            got = {f: bool(getattr(box, 'is' + f)(**kw)) for f in _PRED}
        else:
            name = cs.identifyfamily(box, **kw)
            got = {f: bool(getattr(cs, 'is' + f)(box, **kw)) for f in _PRED}
    for f in _PRED:
        if pr[f] is None:
            labels.add('band')
            continue
        require(got[f] == pr[f], lambda: '%s: is%s(%s) = %r; with a, b, c, alpha, beta, gamma = %r the documented definition and tolerances give %r'
                % (descr(), f, ', '.join('%s=%r' % kv for kv in sorted(kw.items())), got[f], p, pr[f]))
    want = _model_name(pr)
    if want != 'undecided':
        require(name == want, lambda: '%s: identifyfamily(%s) = %r; with a, b, c, alpha, beta, gamma = %r the documented definitions and tolerances give %r'
                % (descr(), ', '.join('%s=%r' % kv for kv in sorted(kw.items())), name, p, want))
        labels.add('name_' + str(want))
    require(name is None or (name in _PRED and got[name]), lambda: '%s: identifyfamily() = %r but that predicate is False' % (descr(), name))
    return pr


def oracle_near(case):
    am, miller = _am()
    kind = case['kind']
    labels = {'kind_' + kind}
    if kind == 'tilt':
        lab = oracle_random(case['sub'])
        t = [abs(x) for x in case['sub']['cell']['tilt'] if x]
        labels.update(x for x in lab if x.startswith(('op_', 'form_', 'br_')) or x in ('cell_sym', 'in_zone'))
        labels.add('tilt_1e%d' % int(math.floor(math.log10(min(t)))))
        if min(t) <= 4e-9:
            labels.add('in_cleanup_window')
        if 'nt' in lab or min(t) >= 1e-8:
            labels.add('nt')
        return labels

    if kind == 'family':
        ctor, cp, p = _near_abc(case)
        d = case['delta']
        labels.update({'base_' + case['base'], 'build_' + case['build'], 'delta_1e%d' % int(math.floor(math.log10(abs(d))))})
        cell = {'family': 'near', 'abc': p, 'rot': case['rot'] if case['build'] == 'vects_rot' else None}
        V = ref.cell_matrix(cell)
        if case['build'] == 'ctor':
            box = getattr(am.Box, ctor)(*cp) if ctor else am.Box(a=p[0], b=p[1], c=p[2], alpha=p[3], beta=p[4], gamma=p[5])
            vpert = _VPERT_ABC
        else:
            box = am.Box(vects=V)
            vpert = 0.0
        descr = lambda: 'Box %s with a, b, c, alpha, beta, gamma = %r' % (case['build'], p)
        kw = case['opts']
        if kw:
            labels.add('opts')
        # the parameters the tests see: recomputed from my vectors (rounding of the construction included: 1e-16, far inside a band)
        pr = _judge_family_model(box, _params_of(V), case['via'], kw, descr, labels)
        if abs(d) <= 3e-6:
            labels.add('coincident')
        elif abs(d) >= 3e-5:
            labels.add('distinct')
        # plane normals and vectors in that cell; 4-index input is accepted exactly when the cell is hexagonal (default tolerances)
        hexa = _model_preds(_params_of(V))['hexagonal']
        cond = float(np.linalg.cond(V))
        four = case['base'].startswith('hex') and case['sel'] % 4 != 3
        sub = set()
        if case['sel'] < 5:
            _do_normal(miller, box, V, cond, hexa, case['idx'], case['uvw'], 'box', four, 'int', sub, vpert)
        else:
            _do_vector(miller, box, V, hexa, case['idx'], 'miller', four, 'int', 1, sub, vpert)
        if four:
            labels.add('four_refused' if 'refusal_nonhex' in sub else ('four_band' if hexa is None else 'four_accepted'))
        labels.add('nt')
        return labels

    if kind == 'almost_int':
        cell = case['cell']
        V = _cellV(cell)
        cond = float(np.linalg.cond(V))
        box = am.Box(vects=V)
        idx = np.array(case['idx'], dtype=np.int64)
        eps = np.array(case['eps'], dtype=float).reshape(idx.shape)
        arg = idx + eps * np.maximum(1, np.abs(idx))
        fn = box.plane_crystal_to_cartesian if case['via'] == 'box' else (lambda a: miller.plane_crystal_to_cartesian(a, box))
        emax = float(np.abs(eps).max())
        labels.add('eps_0' if emax == 0 else 'eps_1e%d' % int(math.floor(math.log10(emax))))
        try:
            got = fn(arg)
        except ValueError as e:
            require('Indices must be integers' in str(e), lambda: 'plane_crystal_to_cartesian(%r) raised ValueError(%s)' % (arg.tolist(), e))
            require(emax > 0, lambda: 'plane_crystal_to_cartesian refused the whole-number float indices %r' % (arg.tolist(),))
            labels.add('refused')
            return labels | {'nt'}
        # accepted: the planes meant are the whole numbers next to the values given
        _judge_normals(got, idx, V, cond, 'plane_crystal_to_cartesian(%r) (accepted as integer planes)' % (arg.tolist(),))
        labels.add('accepted')
        if emax > 0:
            labels.add('nt')
        return labels

    if kind == 'guard':
        idx = np.array(case['idx'], dtype=np.int64)
        Q = _four_of(idx).astype(float) / case['den']
        amax = max(1.0, float(np.abs(Q).max()))
        d = case['delta'] * amax
        B = Q.copy()
        rows = B.reshape(-1, 4)
        rows[case['where'] % len(rows), case['where'] % 3] += d
        rel = abs(case['delta'])
        labels.add('delta_1e%d' % int(math.floor(math.log10(rel))))
        box = am.Box(a=case['hexcell'][0], b=case['hexcell'][1], c=case['hexcell'][2], alpha=90.0, beta=90.0, gamma=120.0)
        for fn, name in ((miller.vector4to3, 'u+v+t'), (miller.plane4to3, 'h+k+i'), (box.vector_crystal_to_cartesian, 'u+v+t')):
            try:
                out = np.asarray(fn(B))
            except ValueError as e:
                require('Invalid indices' in str(e), lambda: '%s refused %r with an undocumented message: %s' % (fn.__name__, B.tolist(), e))
                # an excess at the level of floating-point rounding of the indices themselves is not '!= 0'
                require(abs(d) > 64 * EPS * amax, lambda: '%s(%r) refused a quadruple whose first three indices sum to %.3g (rounding level)' % (fn.__name__, B.tolist(), d))
                labels.add('refused')
                continue
            require(rel < 1e-6, lambda: '%s(%r): %s = %.3g (%.1e of the largest index) but the quadruple was accepted: %r'
                    % (fn.__name__, B.tolist(), name, d, rel, out.tolist()))
            # accepted: the answer is that of the exact quadruple up to what the excess explains
            exact = np.asarray(fn(Q))
            scale = float(np.abs(exact).max()) / amax
            if fn is not miller.vector4to3 and fn is not miller.plane4to3:
                # Cartesian output: the excess enters through the in-plane cell vectors, whatever direction the exact answer has
                scale = max(scale, float(max(case['hexcell'])))
            require(float(np.abs(out - exact).max()) <= 4 * abs(d) * max(scale, 1.0) + 64 * EPS * float(np.abs(exact).max()),
                    lambda: '%s: quadruple %r (sum off by %.3g) -> %r, exact quadruple -> %r' % (fn.__name__, B.tolist(), d, out.tolist(), exact.tolist()))
            labels.add('accepted')
        labels.add('nt')
        return labels
    raise ValueError('unknown kind %r' % kind)


# ----------------------------------------------------------------------------- clause decades (class F)

def oracle_decades(case):
    """one array argument whose rows span many orders of magnitude: each row judged relative to ITS OWN magnitude and against the
    call made with that row alone"""
    am, miller = _am()
    op = case['op']
    labels = {'op_' + op, 'shape_' + case['shape']}
    T = np.array([t for t, e in case['rows']], dtype=np.int64)
    if op in ('normal', 'reduce'):
        G = [int(e) for t, e in case['rows']]
        A = np.array([[x * g for x in t] for (t, e), g in zip(case['rows'], G)], dtype=np.int64)
        mags = np.array([float(g) for g in G])
    else:
        S = np.array([2.0 ** e for t, e in case['rows']])
        A = T.astype(float) * S[:, None]
        mags = S
    span = math.log10(float(mags.max() / mags.min()))
    labels.add('span>=%d' % (4 * int(span // 4)))
    four = bool(case.get('four'))
    if four:
        A = np.stack([A[..., 0], A[..., 1], -(A[..., 0] + A[..., 1]), A[..., 2]], axis=-1)
        labels.add('four')
    shape = (lambda X: X[None, ...]) if case['shape'] == 'MN' else (lambda X: X)
    unshape = (lambda X: np.asarray(X)[0]) if case['shape'] == 'MN' else np.asarray
    n = len(A)

    def each(fn, what, judge, ulps=4):
        """fn on the whole array and on every row alone; judge(i, row_result) raises for a wrong row"""
        whole = unshape(fn(shape(A)))
        require(whole.shape[0] == n, lambda: '%s returned shape %r for %d rows' % (what, whole.shape, n))
        for i in range(n):
            one = np.asarray(fn(A[i]))
            judge(i, whole[i], '%s, row %d of %r' % (what, i, A.tolist()))
            m = float(np.abs(one).max())
            require(float(np.abs(whole[i] - one).max()) <= ulps * EPS * m,
                    lambda: '%s: row %d of the array %r -> %r, the same row alone -> %r' % (what, i, A.tolist(), whole[i].tolist(), one.tolist()))
        return whole

    if op in ('vector', 'normal'):
        cell = case['cell']
        V = _cellV(cell)
        cond = float(np.linalg.cond(V))
        box = am.Box(vects=V)
        hexa = _hexa(cell)
        for x in ('sym', 'tilt'):
            if cell.get(x):
                labels.add('cell_' + x)
        if op == 'vector':
            fn = box.vector_crystal_to_cartesian if case['via'] == 'box' else (lambda a: miller.vector_crystal_to_cartesian(a, box))
            exp = ref.hex_cart_vector(A, V) if four else A @ V
            vmax = float(np.abs(V).max())

            def judge(i, r, what):
                tol = (_vfloor(V) + 8 * EPS) * vmax * float(np.abs(A[i]).sum()) * (3 if four else 1)
                require(float(np.abs(r - exp[i]).max()) <= tol, lambda: '%s = %r, expected %r (tol %.3g: relative to that row)' % (what, r.tolist(), exp[i].tolist(), tol))
            each(fn, 'vector_crystal_to_cartesian', judge)
        else:
            fn = box.plane_crystal_to_cartesian if case['via'] == 'box' else (lambda a: miller.plane_crystal_to_cartesian(a, box))
            P = A[..., [0, 1, 3]] if four else A

            def judge(i, r, what):
                _judge_normals(r, P[i], V, cond, what)          # tolerance from |indices| of that row alone
            each(fn, 'plane_crystal_to_cartesian', judge, ulps=0)
    elif op == 'centering':
        s = case['setting']
        labels.add('set_' + s)
        C2P, P2C = _check_centring_matrices(miller, s)
        for fn, M in ((miller.vector_conventional_to_primitive, C2P), (miller.vector_primitive_to_conventional, P2C)):
            exp = A @ M

            def judge(i, r, what):
                tol = 8 * EPS * float(np.abs(A[i]).sum())
                require(float(np.abs(r - exp[i]).max()) <= tol, lambda: '%s = %r, expected %r (tol %.3g: relative to that row)' % (what, r.tolist(), exp[i].tolist(), tol))
            each(lambda a: fn(a, setting=s), '%s(setting=%r)' % (fn.__name__, s), judge)
    elif op == 'conv34':
        if four:
            # quadruples [U V T W] with U+V+T = 0 exactly (dyadic scaling of integers)
            def judge_v(i, r, what):
                e = np.array([2 * A[i, 0] + A[i, 1], 2 * A[i, 1] + A[i, 0], A[i, 3]])
                require(float(np.abs(r - e).max()) == 0.0, lambda: '%s = %r, expected [2U+V, 2V+U, W] = %r' % (what, r.tolist(), e.tolist()))
            each(miller.vector4to3, 'vector4to3', judge_v, ulps=0)

            def judge_p(i, r, what):
                require(float(np.abs(r - A[i, [0, 1, 3]]).max()) == 0.0, lambda: '%s = %r, expected (h k l)' % (what, r.tolist()))
            each(miller.plane4to3, 'plane4to3', judge_p, ulps=0)
        else:
            def judge_v(i, r, what):
                u, v, w = A[i]
                e = np.array([(2 * u - v) / 3, (2 * v - u) / 3, -(u + v) / 3, w])
                tol = 8 * EPS * float(np.abs(A[i]).max())
                require(float(np.abs(r - e).max()) <= tol, lambda: '%s = %r, expected %r (tol %.3g: relative to that row)' % (what, r.tolist(), e.tolist(), tol))
                back = miller.vector4to3(r)
                require(float(np.abs(back - A[i]).max()) <= 2 * tol, lambda: 'vector4to3(%s) = %r' % (what, back.tolist()))
            w4 = each(miller.vector3to4, 'vector3to4', judge_v)
            back = unshape(miller.vector4to3(shape(w4)))
            for i in range(n):
                require(float(np.abs(back[i] - A[i]).max()) <= 32 * EPS * float(np.abs(A[i]).max()),
                        lambda: 'vector4to3(vector3to4(A)) row %d = %r, A = %r' % (i, back[i].tolist(), A[i].tolist()))

            def judge_p(i, r, what):
                e = np.array([A[i, 0], A[i, 1], -(A[i, 0] + A[i, 1]), A[i, 2]])
                require(float(np.abs(r - e).max()) == 0.0, lambda: '%s = %r, expected %r' % (what, r.tolist(), e.tolist()))
            each(miller.plane3to4, 'plane3to4', judge_p, ulps=0)
    elif op == 'reduce':
        def judge(i, r, what):
            _judge_reduce(r, A[i])
        each(miller.reduce_indices, 'reduce_indices', judge, ulps=0)
    else:
        raise ValueError('unknown op %r' % op)
    if span >= (8 if op not in ('normal',) else 4):
        labels.add('nt')
    return labels


# ----------------------------------------------------------------------------- clause structured (class G)

def oracle_structured(case):
    am, miller = _am()
    cell = case['cell']
    sy = cell['sym']
    V = _cellV(cell)
    cond = float(np.linalg.cond(V))
    vform = case['vform']
    if vform == 'f32':
        V = V.astype(np.float32).astype(np.float64)
        Vin = V.astype(np.float32)
    elif vform == 'list':
        Vin = V.tolist()
    elif vform == 'fortran':
        Vin = np.array(V, order='F')
    else:
        Vin = V.copy()
    box = am.Box(vects=Vin)
    _spoil(Vin)
    relab = _rows_relabelled(cell)
    labels = {'fam_' + cell['family'], 'rows_relabelled' if relab else 'axes_only', 'vform_' + vform}
    low = bool(V[0, 1] == 0 and V[0, 2] == 0 and V[1, 2] == 0)
    upp = bool(V[1, 0] == 0 and V[2, 0] == 0 and V[2, 1] == 0)
    labels.add('diagonal' if (low and upp) else ('lower_triangular' if low else ('upper_triangular' if upp else 'zeros_elsewhere' if (V == 0).any() else 'full')))
    if low and (np.diag(V) < 0).any():
        labels.add('negative_diagonal')
    hexa = _hexa(cell)
    idxl = case['idx']
    idx = np.array(idxl, dtype=np.int64)
    sub = set()
    got = _do_normal(miller, box, V, cond, hexa, idxl, case['uvw'], case['via'], False, case['form'], sub)
    labels.update(x for x in sub if x.startswith('br_') or x == 'in_zone')
    # mirrored: (-h -k -l) is the same plane seen from the other side
    neg = _do_normal(miller, box, V, cond, hexa, (-idx).tolist(), case['uvw'], case['via'], False, 'int', set())
    require(float(np.abs(np.asarray(neg) + np.asarray(got)).max()) <= 4 * EPS, lambda: 'normal of (-h -k -l) = %r is not minus the normal of (h k l) = %r for %r'
            % (np.asarray(neg).tolist(), np.asarray(got).tolist(), idxl))
    # cyclically relabelled: (k l h) in the cell (b, c, a) is the same plane
    Vc = V[[1, 2, 0], :]
    boxc = am.Box(vects=Vc)
    gotc = _do_normal(miller, boxc, Vc, cond, _model_preds(_params_of(Vc))['hexagonal'], idx[..., [1, 2, 0]].tolist(), [[t[1], t[2], t[0]] for t in case['uvw']],
                      case['via'], False, 'int', set())
    tol = 2 * _tolN(cond, int(np.abs(idx).max()), _vfloor(V))
    require(float(np.abs(np.asarray(gotc) - np.asarray(got)).max()) <= tol, lambda: 'normal of (k l h) in the cell (b, c, a) = %r differs from the normal of (h k l) in (a, b, c) = %r'
            % (np.asarray(gotc).tolist(), np.asarray(got).tolist()))
    # vectors, among them exact halves / quarters
    _do_vector(miller, box, V, hexa, idxl, case['via'], False, case['form'], case['den'], sub)
    if case['den'] != 1:
        labels.add('fractional')
    # family: unchanged by a signed permutation of the Cartesian axes; after relabelling a, b, c my reading of the documented definitions
    # (a relabelled cell - e.g. a tetragonal lattice with its unique axis along a - is not 'made by a family constructor': the property's
    # quantifier leaves it out, and the docstrings' "a != b != c" does not say which pairs are meant; only consistency is asked there)
    _judge_family(box, None if relab else cell['family'], case['via_f'], lambda: 'the cell %r' % (V.tolist(),))
    if hexa:
        labels.add('hexagonal_now')
        got4 = _do_normal(miller, box, V, cond, True, idxl, case['uvw'], case['via'], True, 'int', set())
        require(float(np.abs(np.asarray(got4) - np.asarray(got)).max()) <= 4 * EPS, lambda: '(hkil) normals %r differ from (hkl) normals %r' % (np.asarray(got4).tolist(), np.asarray(got).tolist()))
    if any(_has_mixed(t) for t in idx.reshape(-1, 3).tolist()) or relab:
        labels.add('nt')
    return labels


# ----------------------------------------------------------------------------- clause options_enum (class H)

_OPT_BLOCK = np.array([[1, 0, 0], [0, 1, 0], [0, 0, 1], [1, -2, 3], [-4, 5, 6], [2, 2, -2], [3, -3, 0], [-1, -1, -1]], dtype=np.int64)


def oracle_options(case):
    """ENUMERATED ordered combinations of calls that could share state: every call judged when made, the arrays of the earlier calls
    re-compared bit for bit after the later ones, the first call repeated at the end"""
    am, miller = _am()
    kind = case['kind']
    labels = {'kind_' + kind}
    led = _Ledger()
    if kind == 'centring':
        calls = [g16.CENTRING_CALLS[i] for i in case['calls']]
        first = None
        seq = calls + [calls[0]]
        for n, (s, d) in enumerate(seq):
            fn, inv = (miller.vector_conventional_to_primitive, miller.vector_primitive_to_conventional)
            if d == 'p2c':
                fn, inv = inv, fn
            what = '%s(setting=%r) as call %d of %r' % (fn.__name__, s, n + 1, seq)
            T = _OPT_BLOCK.copy()
            r = fn(T, setting=s)
            M = fn(np.eye(3), setting=s)
            # judged by the centring oracles: inverse pair, integer c2p with det = lattice points per cell, membership, round trip
            C2P, P2C = _check_centring_matrices(miller, s)
            _membership(s, P2C, 'primitive cell vectors')
            want = C2P if d == 'c2p' else P2C
            require(np.array_equal(M, want) and float(np.abs(r - T.astype(float) @ want).max()) <= 64 * EPS * 6 * 3,
                    lambda: '%s = %r is not the block times its own matrix %r' % (what, r.tolist(), want.tolist()))
            back = inv(r, setting=s)
            require(float(np.abs(back - T).max()) <= 64 * EPS * 6, lambda: '%s: round trip gives %r' % (what, back.tolist()))
            _untouched(T, _OPT_BLOCK, what)
            if n == 0:
                first = (_bits(r), _bits(M))
            if n == len(seq) - 1:
                require((_bits(r), _bits(M)) == first, lambda: '%s: result differs from the first time the same call was made' % what)
            led.add(what, r)
            led.add(what + ' (matrix)', M)
            led.check(what)
        sets = [s for s, d in calls]
        labels.add('settings=%d' % len(set(sets)))
        if {'t1', 't2'} <= set(sets):
            labels.add('t1_and_t2')
        if len({s[0] for s in sets}) < len(sets):
            labels.add('shared_table')
        if any(s != 'p' for s in sets):
            labels.add('nt')
        return labels
    if kind == 'all_indices':
        seq = case['calls'] + [case['calls'][0]]
        first = None
        for n, (m, red) in enumerate(seq):
            got = miller.all_indices(maxindex=m, reduce=red)
            rng = range(-m, m + 1)
            allt = [(u, v, w) for u in rng for v in rng for w in rng if (u, v, w) != (0, 0, 0)]
            exp = {t for t in allt if ref.gcd_reduce(t) == 1} if red else set(allt)
            gs = [tuple(int(x) for x in r) for r in np.asarray(got).tolist()]
            require(len(set(gs)) == len(gs) and set(gs) == exp, lambda: 'all_indices(maxindex=%d, reduce=%r) as call %d of %r: %d rows, expected %d' % (m, red, n + 1, seq, len(gs), len(exp)))
            if n == 0:
                first = _bits(got)
            if n == len(seq) - 1:
                require(_bits(got) == first, 'all_indices: result differs from the first time the same call was made')
            led.add('all_indices(%d, %r)' % (m, red), got)
            led.check('all_indices(%d, %r)' % (m, red))
        return labels | {'nt'}
    # family predicates with and without tolerance arguments, in both orders, on ONE Box object 1e-3 away from a higher-symmetry family
    from atomman.tools import crystalsystem as cs
    name, p = g16.FAM_BOXES[case['box']]
    labels.add('box_' + name)
    if name == 'hex_ab':
        box = am.Box(a=p[0], b=p[1], c=p[2], alpha=90.0, beta=90.0, gamma=120.0)
        abc = [p[0], p[1], p[2], 90.0, 90.0, 120.0]
    else:
        box = getattr(am.Box, name)(*p)
        abc = [float(x) for x in _ctor_abc(name, p)]
    seq = case['calls'] + [case['calls'][0]]
    answers = []
    for n, (f, o, via) in enumerate(seq):
        fname, kw = g16.FAM_FUNCS[f], (g16.FAM_OPTS[o] or {})
        pr = _model_preds(abc, kw.get('rtol', 1e-5), kw.get('atol', 1e-8))
        want = _model_name(pr) if fname == 'identifyfamily' else pr[fname[2:]]
        if want is None and fname != 'identifyfamily' or want == 'undecided':
            raise RuntimeError('harness: enumerated family box %r is inside a tolerance band' % (name,))
        with warnings.catch_warnings():
            warnings.simplefilter('ignore')
            got = getattr(box, fname)(**kw) if via == 'method' else getattr(cs, fname)(box, **kw)
        got = got if fname == 'identifyfamily' else bool(got)
        require(got == want, lambda: '%s(%s) [%s] as call %d of %r on one Box with a, b, c, alpha, beta, gamma = %r: %r, the documented definition and tolerances give %r'
                % (fname, ', '.join('%s=%r' % kv for kv in sorted(kw.items())), via, n + 1, [(g16.FAM_FUNCS[a], g16.FAM_OPTS[b], c) for a, b, c in seq], abc, got, want))
        answers.append(got)
    if len({jd(g16.FAM_OPTS[o]) for f, o, v in case['calls']}) > 1:
        labels.add('options_differ')
        if answers[0] != answers[1] or g16.FAM_FUNCS[case['calls'][0][0]] != g16.FAM_FUNCS[case['calls'][1][0]]:
            labels.add('nt')
    return labels


# ----------------------------------------------------------------------------- clauses

CLAUSES = [
    Clause('normal_exh', oracle_normal_exh, enumerate=g16.enum_normal, min_share={'nt': 0.35, 'hex4': 0.08, 'rotated': 0.18, 'dt_i8': 0.17, 'dt_u8': 0.06},
           desc='EXHAUSTIVE, one case = one (h,k) row of 12-13 (thorough 20-21) planes in one cell: plane normal is the unit vector along '
                'h a*+k b*+l c* (own reciprocal basis), same sense; n.[uvw] = (hu+kv+lw)/|g| for all 342 lattice vectors with |uvw|<=3 '
                '(perpendicular exactly when the zone law holds); (hkil) = (hkl) in hexagonal cells'),
    Clause('conv34_exh', oracle_conv34_exh, enumerate=g16.enum_conv34, min_share={'nt': 0.39},
           desc='EXHAUSTIVE, one case = one (h,k) row in one hexagonal cell: 3<->4 index round trips for vectors and planes in both directions, '
                'explicit formulas, u+v+t=0, Cartesian vector of the 4-index form in the a1,a2,a3,c basis, guards raise on a non-zero sum'),
    Clause('centering_exh', oracle_centering_exh, enumerate=g16.enum_centering,
           desc='EXHAUSTIVE, one case = one setting x one h slab ((2n+1)^2 triples, leading shape (M,N)): p2c(c2p(v)) = v = c2p(p2c(v)), '
                'matrices inverse, c2p integer with det = lattice points per cell (1,2,2,2,2,4,3,3), primitive lattice points land on Z^3 + centring translations'),
    Clause('reduce_exh', oracle_reduce_exh, enumerate=g16.enum_reduce,
           desc='EXHAUSTIVE, one case = one (h,k) row of triples and induced quadruples: reduce_indices = v/gcd (coprime, same sense), idempotent; '
                'all_indices(maxindex, reduce) equals the set of all / all coprime non-zero triples'),
    Clause('random', oracle_random, g16.random_cases, quick=14500, thorough=300000,
           min_share={'nt': 0.25, 'op_normal': 0.18, 'op_reduce': 0.08, 'shape_MN': 0.15, 'shape_0': 0.09, 'in_zone': 0.027,
                      'refusal_nonhex': 0.05, 'four': 0.1, 'form_list': 0.089, 'fam_monoclinic': 0.035, 'fam_rhombohedral': 0.035,
                      'fam_triclinic': 0.08, 'fractional': 0.045, 'form_tuple': 0.018, 'form_i32': 0.023, 'form_nc': 0.019,
                      'form_fortran': 0.021, 'form_ro': 0.023, 'form_npscalars': 0.018,
                      'narrow': 0.15, 'dt_overflow': 0.035, 'form_i8': 0.024, 'form_u8': 0.024, 'form_i16': 0.02, 'form_u16': 0.008,
                      'form_u32': 0.008, 'form_u64': 0.008, 'form_i32w': 0.0094, 'form_i64w': 0.0098, 'form_be16': 0.009, 'form_be32': 0.011,
                      'form_be64': 0.0096, 'form_bool': 0.0059, 'fnarrow': 0.01},
           max_share={'refusal_nonhex': 0.25},
           desc='one operation per case (normal+zone law, vector, 3<->4, centring, reduce) on index arrays of leading shape (), (N,), (M,N), '
                'indices up to 12, list/int/float input, random cells, 4-index input accepted exactly in hexagonal cells; 30 % of the blocks are '
                'int8/int16/uint8-64/big-endian/bool/large-valued int32/int64 arrays with indices over the whole range of the dtype'),
    Clause('box_history', oracle_box_history, g16.box_history_cases, quick=2300, thorough=60000,
           min_share={'nt': 0.33, 'requery_normal': 0.28, 'requery_vector': 0.13, 'requery_family': 0.08, 'requery_with_four': 0.13,
                      'changed': 0.33, 'hex_toggled': 0.17, 'holder_system': 0.22, 'via_box_set': 0.08, 'mod_set_abc': 0.1,
                      'mod_vects_attr': 0.09, 'mod_set_vects': 0.065, 'mod_set_avect': 0.08, 'mod_model': 0.08, 'mod_model_json': 0.07,
                      'mod_set_hilo': 0.04, 'mod_set_lengths': 0.029, 'mod_default': 0.055, 'copy': 0.055, 'new_object': 0.053,
                      'rel_rotated_prev': 0.12, 'rel_same': 0.049, 'fam_intvects': 0.055, 'scribble': 0.075, 'origin_only': 0.15,
                      'result_overwritten': 0.33, 'q_read': 0.14, 'q_family': 0.12, 'rotated': 0.2,
                      'narrow': 0.35, 'dt_overflow': 0.11, 'form_i8': 0.17, 'form_u8': 0.055, 'form_i16': 0.03, 'form_u16': 0.03,
                      'form_u32': 0.025, 'form_u64': 0.025, 'form_be16': 0.022, 'form_be32': 0.02, 'form_be64': 0.023, 'form_i64w': 0.029,
                      'ledger': 0.37, 'vform_f32': 0.08, 'fnarrow': 0.035},
           desc='HISTORY on one Box object (half of them held by a System): built through any constructor route, queried (normals + zone law, '
                'vectors, family, derived attributes in varying order; 3- and 4-index, every input form), changed IN PLACE through every public route '
                '(box.vects = ..., set(vects|avect..|a..|lx..|xlo..), model(), System.box_set with and without scale, set()), origin-only changes, '
                'overwriting arrays handed in or out, deepcopy, replacement by a new object - and the SAME planes/vectors/family queried again: every '
                'answer is judged against the cell as it is now'),
    Clause('call_history', oracle_call_history, g16.call_history_cases, quick=1400, thorough=40000,
           min_share={'nt': 0.34, 'related': 0.3, 'mixed': 0.13, 'several_kinds': 0.25, 'settings_mixed': 0.1, 't1_and_t2': 0.025,
                      'cells_mixed': 0.092, 'op_centering': 0.19, 'op_normal': 0.14, 'op_strings': 0.04, 'op_family': 0.035,
                      'narrow': 0.14, 'dt_overflow': 0.03, 'fnarrow': 0.008},
           desc='HISTORY of module-level calls in one process: 2-5 complete cases of the clauses random / strings / family (half of the sequences: '
                'one index block through the same operation with another centring setting / the same lattice in another orientation / another '
                'lattice in the same orientation / the identical call), each judged by its own oracle, then all repeated in another order'),
    Clause('ledger', oracle_ledger, g16.ledger_cases, quick=700, thorough=25000,
           min_share={'nt': 0.33, 'spoil_in': 0.3, 'spoil_out': 0.2, 'recall': 0.18, 'recall_same_box': 0.04, 'several_kinds': 0.38, 'op_normal': 0.28,
                      'op_vector': 0.18, 'op_centering': 0.18, 'op_conv34': 0.12, 'op_reduce': 0.097, 'op_strings': 0.09, 'cell_sym': 0.18, 'narrow': 0.2,
                      'fnarrow': 0.03},
           desc='RESULT LEDGER + CALLER-SIDE MUTATION: 2-4 complete cases of the clauses random / strings in one process (plane normals, vectors, 3<->4, '
                'centring, reduce, fromstring; several Box objects, shared and different cells), each judged by its own oracle; every array handed in or out '
                'is kept with a private copy and compared bit for bit after every later call; then the caller overwrites in place the arrays it handed in / '
                'got back and repeats calls with fresh arguments or on the same Box: nothing else may move, repeated calls return the same bits'),
    Clause('units', oracle_units, g16.units_cases, quick=600, thorough=20000,
           min_share={'nt': 0.35, 'W_SI': 0.08, 'W_seed': 0.08, 'W_named': 0.3, 'back': 0.2, 'pre_default': 0.26, 'pre_other': 0.06, 'via_model': 0.2,
                      'kind_family': 0.15, 'kind_normal': 0.16, 'kind_vector': 0.12, 'cell_sym': 0.16},
           desc='WORKING UNITS: plane normals + zone law / vectors / family identification for one physical cell under reset_units(named units | integer '
                'seed | SI), judged before under the default or another configuration and afterwards under the restored default in the same process; '
                'the cell optionally read from a Box data model written under those units; documented atol passed as 1e-8 angstrom'),
    Clause('near', oracle_near, g16.near_cases, quick=2000, thorough=60000,
           min_share={'nt': 0.42, 'kind_family': 0.17, 'kind_tilt': 0.16, 'kind_almost_int': 0.07, 'kind_guard': 0.06, 'coincident': 0.099, 'distinct': 0.06,
                      'opts': 0.07, 'in_cleanup_window': 0.08, 'refused': 0.1, 'accepted': 0.035, 'four_accepted': 0.015, 'four_refused': 0.005,
                      'name_cubic': 0.025, 'name_tetragonal': 0.025, 'name_hexagonal': 0.03, 'name_None': 0.02},
           desc='NEAR-THRESHOLD: family parameters 1e-12 ... 1e-3 (relative) off a higher-symmetry family, default and explicit rtol / atol, judged by my own '
                'reading of the documented definitions outside a factor-3 band around each tolerance (4-index acceptance included); cells with tilts of '
                '1e-12 ... 1e-3 of the cell; plane indices almost whole numbers (documented refusal or the rounded plane); quadruples with h+k+i almost 0'),
    Clause('decades', oracle_decades, g16.decades_cases, quick=1200, thorough=40000,
           min_share={'nt': 0.42, 'op_vector': 0.11, 'op_normal': 0.14, 'op_centering': 0.06, 'op_conv34': 0.052, 'op_reduce': 0.08, 'four': 0.056,
                      'span>=16': 0.2, 'cell_sym': 0.14, 'shape_MN': 0.15},
           desc='MANY DECADES IN ONE CALL: index rows spanning up to 24 orders of magnitude (planes 4-5, reduce 15) in one array: every row judged relative '
                'to its own magnitude and against the call with that row alone'),
    Clause('structured', oracle_structured, g16.structured_cases, quick=900, thorough=30000,
           min_share={'nt': 0.39, 'rows_relabelled': 0.16, 'axes_only': 0.29, 'lower_triangular': 0.13, 'negative_diagonal': 0.06, 'upper_triangular': 0.025,
                      'diagonal': 0.014, 'fractional': 0.26, 'hexagonal_now': 0.05, 'vform_f32': 0.06, 'vform_list': 0.09},
           desc='EXACTLY STRUCTURED CELLS: exact signed permutations of the lattice vectors and of the Cartesian axes of a family cell (upper / lower '
                'triangular, negative diagonal, zeros in unusual places; list / int / float32 / Fortran vectors): normals + zone law, the mirrored and the '
                'cyclically relabelled case, vectors with exact halves, family identification'),
    Clause('options_enum', oracle_options, enumerate=g16.enum_options,
           min_share={'nt': 0.3, 'kind_family': 0.35, 'kind_centring': 0.08, 'options_differ': 0.24, 't1_and_t2': 0.01, 'shared_table': 0.05},
           desc='ENUMERATED ordered combinations of calls sharing a table or an object: every ordered pair and (thorough: every; quick: table-sharing) '
                'ordered triple of the 16 centring calls (8 settings x 2 directions), ordered pairs of all_indices(maxindex, reduce), ordered pairs of the 8 '
                'family functions x 3 tolerance options x method / function on one Box 1e-3 away from a higher-symmetry family; first call repeated last'),
    Clause('strings', oracle_strings, g16.string_cases, quick=5500, thorough=100000,
           min_share={'nt': 0.39, 'fraction': 0.2, 'br_bare': 0.084, 'br_{': 0.09, 'n4': 0.17},
           desc='index strings of the documented grammar parse to fraction x the integers shown'),
    Clause('strings_fuzz', oracle_fuzz, g16.fuzz_cases, quick=3600, thorough=150000,
           min_share={'nt': 0.25, 'refused': 0.18, 'strict': 0.2, 'wide': 0.08, 'accepted_shown': 0.06},
           desc='random ASCII and mutated grammar strings: strict-grammar strings parse to what they show; others are refused cleanly '
                '(ValueError, the two documented assertion messages, ZeroDivisionError) or return 3/4 floats equal to the numbers shown when a wider reading exists'),
    Clause('family', oracle_family, g16.family_cases, quick=3600, thorough=80000,
           min_share={'nt': 0.42, 'rotated': 0.25, 'via_function': 0.2, 'fam_rhombohedral': 0.09, 'fam_monoclinic': 0.1, 'fam_cubic': 0.03,
                      'ptyped': 0.1, 'ptype_pyint': 0.05},
           desc='Box.<family>(generic parameters), optionally rigidly rotated: identifyfamily() names that family and exactly that is<family>() predicate holds '
                '(Box methods and the stand-alone functions)'),
]
