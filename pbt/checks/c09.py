"""C09 - Unit conversion is invertible, precedence-correct and working-unit independent."""
import json
import math
import os
import subprocess
import sys

import numpy as np

from ..core import Clause, Violation, HarnessError, require, derive_seed, VERIF
from .. import gens_c09 as g9
from ..oracles import unitexpr as ux

RULE = ("unit expressions are ASTs of the grammar E := F (('*'|'/') F)*, F := A | A^x, A := name | number | (E), "
        "x := [-]number | (number) | (number/number), group nesting <= 4, names from my table of numericalunits names "
        "(common atomistic units weighted, all 165 classified names, digits/underscore/non-ASCII names), rendered with a "
        "drawn whitespace string (spaces, tabs, newlines, carriage returns) in every token gap; every case is evaluated "
        "under a drawn working-unit configuration (random seed, 'SI', or one of the non-over-determined named choices with its "
        "keywords passed in a drawn order). "
        "Non-trivial: precedence/identity - the expression has >= 2 operators of different precedence or a parenthesised "
        "sub-expression raised to a power; invariance - the two expressions differ and >= 2 distinct configurations; "
        "named - a chosen unit is not an SI unit (also the seed='SI' and integer-seed cases), every choice with all permutations of "
        "its keywords; history - a walk with >= 2 named choices and >= 1 transition that changes exactly one quantity; lammps_dims - a judged entry "
        "(style other than lj, key present); atheris - a campaign that ran.")
ASSUMPTIONS = ["numericalunits assigns dimensionally consistent values to its names for every seed (its values are the leaves "
               "of my evaluator; my dimension table was verified against it by regression)",
               "Python float arithmetic and float(str) define the meaning of numeric literals",
               "lammps_dims evaluates table entries with uc.parse (decided by clause precedence) and with my own text parser"]
LEVEL_TEXT = ("Property-based exploration: grammar-generated unit expressions (depth <= 4, random whitespace) under random, SI "
              "and named working units judged by an independent AST evaluator, set/get/set_literal round trips on scalars and "
              "arrays, same-dimension expression pairs compared across three configurations, exhaustive enumeration of the "
              "named working-unit choices in every keyword order and of the LAMMPS style tables (dimension by regression over random seeds); "
              "walks through named choices differing in one quantity at a time with a fixed battery of compound expressions of every "
              "dimension class re-evaluated after each reset; optional byte-level atheris campaign on uc.parse.")
TECHNIQUE = "property-based testing (Hypothesis, 16 seeded shards): independent AST evaluator, dimension algebra, exhaustive named-choice x keyword-order enumeration, single-quantity reset histories, atheris grammar fuzzing"
WALL = {'quick': 58, 'thorough': 600}

EPS = 2.220446049250313e-16
DEFAULT = dict(length='angstrom', mass='amu', energy='eV', charge='e')


def _uc():
    import atomman.unitconvert as uc
    return uc


def _restore(uc):
    uc.reset_units(**DEFAULT)


def _ordered(units, order=None):
    """the keyword dict of a named choice with its keys in the given order (dicts keep insertion order, ** passes it on)"""
    if order is None:
        order = [q for q in g9.QUANT if q in units]
    if sorted(order) != sorted(units):
        raise HarnessError('order %r is not a permutation of the chosen quantities %r' % (order, sorted(units)))
    return {q: units[q] for q in order}


def _kw(units, order=None):
    return ', '.join('%s=%r' % (q, n) for q, n in _ordered(units, order).items())


def apply_cfg(uc, cfg):
    k = cfg['kind']
    if k == 'seed':
        uc.reset_units(seed=int(cfg['seed']))
    elif k == 'SI':
        uc.reset_units(seed='SI')
    elif k == 'named':
        uc.reset_units(**_ordered(cfg['units'], cfg.get('order')))
    else:
        raise HarnessError('bad cfg %r' % (cfg,))
    return 'cfg_' + k


def _rel(a, b):
    return abs(a - b) / abs(b)


# ----------------------------------------------------------------------------- precedence

def oracle_precedence(case):
    uc = _uc()
    E, ws = case['ast'], case['ws']
    labels = ux.features(E, ws)
    text = ux.render(E, ws)
    try:
        labels.add(apply_cfg(uc, case['cfg']))
        leaf = dict(uc.unit)
        try:
            exp = ux.evaluate(E, leaf)
        except ux.RangeSkip:
            labels.discard('nt')
            labels.add('range_skip')
            return labels
        try:
            mine = ux.parse_text(text, leaf)
        except (ux.Reject, ux.RangeSkip) as e:
            raise HarnessError('own text parser disagrees with own renderer on %r: %r' % (text, e))
        if mine != exp and _rel(mine, exp) > 1e-13:
            raise HarnessError('own text parser %r != own AST evaluator %r on %r' % (mine, exp, text))
        got = uc.parse(text)
        require(isinstance(got, (float, int)) and not isinstance(got, bool),
                lambda: 'parse(%r) returned %r (%s), not a float' % (text, got, type(got).__name__))
        require(np.isfinite(got) and _rel(float(got), exp) <= 1e-12,
                lambda: 'parse(%r) = %r, but parentheses > powers > left-to-right * / gives %r (rel. diff %.3g)'
                % (text, got, exp, _rel(float(got), exp) if np.isfinite(got) else float('nan')))
    finally:
        _restore(uc)
    return labels


# ----------------------------------------------------------------------------- identity

def _build_value(spec):
    v, how = spec['v'], spec['as']
    if how == 'array':
        return np.array(v, dtype=float)
    if how == 'intarray':
        return np.array(v, dtype=int)
    if how == 'tuple':
        def tup(x):
            return tuple(tup(y) for y in x) if isinstance(x, list) else x
        return tup(v)
    return json.loads(json.dumps(v))


def oracle_identity(case):
    uc = _uc()
    mode = case['mode']
    spec = case['value']
    ref = np.array(spec['v'], dtype=float)
    labels = {'mode_' + mode, 'as_' + spec['as'], 'ndim%d' % ref.ndim}
    if ref.size == 0:
        labels.add('empty')
    vmax = float(np.abs(ref).max()) if ref.size else 0.0
    nz = np.abs(ref[ref != 0])
    vmin = float(nz.min()) if nz.size else 1.0
    try:
        labels.add(apply_cfg(uc, case['cfg']))
        leaf = dict(uc.unit)
        if mode in ('units', 'literal'):
            E, ws = case['ast'], case['ws']
            labels |= ux.features(E, ws)
            text = ux.render(E, ws)
            try:
                f = ux.evaluate(E, leaf)
            except ux.RangeSkip:
                labels.discard('nt')
                labels.add('range_skip')
                return labels
            if not (1e-290 < vmin * f and vmax * f < 1e290):
                labels.discard('nt')
                labels.add('range_skip')
                return labels
        else:
            text, f = (None if mode == 'none' else 'scaled'), 1.0

        if mode == 'literal':
            if case.get('nounit'):
                term, fexp = repr(spec['v']), 1.0
                labels.add('literal_nounit')
            else:
                term, fexp = repr(spec['v']) + case['sep'] + text, f
            try:
                got = uc.set_literal(term)
            except ValueError as e:      # documented refusal for unparsable terms; this term is 'value unit' with a valid expression
                raise Violation('set_literal(%r) refused a well-formed "value unit" term: %r' % (term, e))
            ga = np.asarray(got)
            require(ga.shape == ref.shape, lambda: 'set_literal(%r) has shape %r, value has shape %r' % (term, ga.shape, ref.shape))
            err = np.abs(ga - ref * fexp)
            require(bool(np.all(err <= 1e-12 * np.abs(ref * fexp))),
                    lambda: 'set_literal(%r) = %r, expected value*factor = %r' % (term, got, (ref * fexp).tolist()))
            if ref.ndim:
                labels.add('literal_list')
            return labels

        value = _build_value(spec)
        snap = np.array(value, dtype=float) if ref.size else None
        w = uc.set_in_units(value, text)
        wa = np.asarray(w)
        require(wa.shape == ref.shape, lambda: 'set_in_units(value, %r) has shape %r, value has shape %r' % (text, wa.shape, ref.shape))
        # direction and factor: into working units = value * factor
        require(bool(np.all(np.abs(wa - ref * f) <= 1e-12 * np.abs(ref * f))),
                lambda: 'set_in_units(%r, %r) = %r, expected value*%r = %r' % (spec['v'], text, w, f, (ref * f).tolist()))
        back = uc.get_in_units(w, text)
        ba = np.asarray(back)
        require(ba.shape == ref.shape, lambda: 'get_in_units(..., %r) has shape %r, value has shape %r' % (text, ba.shape, ref.shape))
        # (v*f)(1+d1)/f(1+d2): two roundings <= 1 eps; allowed 4 eps
        require(bool(np.all(np.abs(ba - ref) <= 4 * EPS * np.abs(ref))),
                lambda: 'get_in_units(set_in_units(v, u), u) != v for u=%r: v=%r back=%r (max rel. err %.3g)'
                % (text, spec['v'], back, float(np.max(np.abs(ba - ref) / np.where(ref == 0, 1, np.abs(ref))))))
        if mode in ('none', 'scaled'):
            require(bool(np.all(wa == ref)), lambda: 'set_in_units(v, %r) changed the value: %r -> %r' % (text, spec['v'], w))
        if snap is not None:
            require(bool(np.array_equal(np.array(value, dtype=float), snap)), 'set_in_units/get_in_units modified their input value')
    finally:
        _restore(uc)
    return labels


# ----------------------------------------------------------------------------- invariance

def oracle_invariance(case):
    uc = _uc()
    A, B = case['A'], case['B']
    dA, dB = ux.dim(A), ux.dim(B)
    if max(abs(a - b) for a, b in zip(dA, dB)) > 1e-9:
        raise HarnessError('generator produced expressions of different dimension: %r vs %r' % (dA, dB))
    tA, tB = ux.render(A, case['wsA']), ux.render(B, case['wsB'])
    labels = set()
    fa = ux.features(A, case['wsA'])
    if ux.tokens(A) != ux.tokens(B):
        labels.add('differ')
    if any(abs(d) > 1e-12 for d in dA):
        labels.add('dimensional')
    if len([t for t in ux.tokens(B) if t == '(']) > len([t for t in ux.tokens(A) if t == '(']):
        labels.add('expanded')
    if 'frac_exp' in fa:
        labels.add('frac_exp')
    x = case['x']
    xr = np.array(x, dtype=float)
    xnz = np.abs(xr[xr != 0])
    xlo, xhi = (float(xnz.min()), float(xnz.max())) if xnz.size else (1.0, 1.0)
    cfgs = case['cfgs']
    distinct = len({json.dumps({k: v for k, v in c.items() if k != 'order'}, sort_keys=True) for c in cfgs})
    if any(c.get('order') not in (None, [q for q in g9.QUANT if q in c['units']]) for c in cfgs if c['kind'] == 'named'):
        labels.add('kw_reordered')
    labels.add('distinct_cfgs_%d' % distinct)
    results = []
    try:
        for cfg in cfgs:
            labels.add(apply_cfg(uc, cfg))
            leaf = dict(uc.unit)
            try:
                va, vb = ux.evaluate(A, leaf), ux.evaluate(B, leaf)
                if not (1e-280 < xlo * va and xhi * va < 1e280 and 1e-280 < xlo * va / vb and xhi * va / vb < 1e280):
                    raise ux.RangeSkip()
            except ux.RangeSkip:
                return {'range_skip'}
            r = np.asarray(uc.get_in_units(uc.set_in_units(x, tA), tB), dtype=float)
            require(r.shape == xr.shape, lambda: 'conversion changed the shape %r -> %r' % (xr.shape, r.shape))
            results.append(r)
        r0 = results[0]
        for k in range(1, len(results)):
            require(bool(np.all(np.abs(results[k] - r0) <= 1e-10 * np.abs(r0))),
                    lambda: 'converting %r from %r to %r gives %r under %r but %r under %r'
                    % (x, tA, tB, r0.tolist(), cfgs[0], results[k].tolist(), cfgs[k]))
    finally:
        _restore(uc)
    if 'differ' in labels and distinct >= 2:
        labels.add('nt')
    return labels


# ----------------------------------------------------------------------------- named (exhaustive)

KEY_MTE = 'C09:reset_units:mass-time-energy'
SI_ONE = {'m', 'kg', 's', 'J', 'C'}


def named_enumerate(tier):
    import itertools
    table = g9.NAMED_QUICK if tier == 'quick' else g9.NAMED_MORE
    cases = []
    i = 0
    for sub in g9.SUBSETS:
        for names in itertools.product(*[table[q] for q in sub]):
            i += 1
            pre = [{'kind': 'seed', 'seed': 7919 * i}, {'kind': 'SI'}, None,
                   {'kind': 'named', 'units': {'length': 'nm', 'mass': 'g', 'time': 'fs', 'charge': 'mC'}}][i % 4]
            cases.append({'kind': 'choice', 'units': dict(zip(sub, names)), 'pre': pre, 'orders': g9.orders_of(sub)})
    # over-determined but consistent choices ("any consistent choice of up to four")
    for names in (('m', 'kg', 's', 'J'), ('cm', 'g', 's', 'erg'), ('um', 'pg', 'us', 'fJ'), ('mm', 'g', 'ms', 'mJ')):
        cases.append({'kind': 'choice', 'units': dict(zip(('length', 'mass', 'time', 'energy'), names)), 'pre': {'kind': 'seed', 'seed': 11},
                      'orders': g9.orders_of(('length', 'mass', 'time', 'energy'))})
    # seed='SI' and integer seeds
    for j in range(8):
        cases.append({'kind': 'si', 'units': {}, 'pre': [{'kind': 'seed', 'seed': 31 * j + 1}, None][j % 2]})
    for j in range(24 if tier == 'quick' else 200):
        cases.append({'kind': 'seed', 'units': {}, 'seed': derive_seed('C09-named-seed', j) % (2 ** 31),
                      'other': derive_seed('C09-named-other', j) % (2 ** 31)})
    # documented refusals
    for j, names in enumerate(itertools.product(*[table[q][:2] for q in g9.QUANT])):
        cases.append({'kind': 'refuse5', 'units': dict(zip(g9.QUANT, names))})
    for j, sub in enumerate(g9.SUBSETS):
        cases.append({'kind': 'refuse_seed', 'units': {q: table[q][j % len(table[q])] for q in sub}, 'seed': [5, 'SI', 0][j % 3]})
    return cases


PRE_CYCLE = [{'kind': 'seed', 'seed': 4242}, None, {'kind': 'SI'},
             {'kind': 'named', 'units': {'length': 'nm', 'mass': 'g', 'time': 'fs', 'charge': 'mC'}, 'order': ['charge', 'time', 'mass', 'length']}]


def _chosen_are_one(uc, units, order, blocked=False):
    """each chosen unit has the value one (1e-12) through unit[], parse and get_in_units"""
    table = uc.unit
    for q in g9.QUANT:          # fixed order; energy is judged after the base units
        if q not in units:
            continue
        name = units[q]
        for how, val in (('unit[%r]' % name, table[name]), ('parse(%r)' % name, uc.parse(name)),
                         ('get_in_units(1.0, %r)' % name, float(uc.get_in_units(1.0, name)))):
            ok = bool(np.isfinite(val)) and abs(val - 1.0) <= 1e-12
            if not ok:
                raise Violation('after reset_units(%s) the chosen %s unit is not one: %s = %r' % (_kw(units, order), q, how, val),
                                key=KEY_MTE if (blocked and q == 'energy') else None)


def _same_table(uc, units, order, t1, when, other):
    t2 = uc.unit
    require(set(t1) == set(t2), 'unit table has different names after the same reset_units call')
    for name in sorted(t1):
        require(abs(t1[name] - t2[name]) <= 1e-12 * abs(t2[name]),
                lambda: 'reset_units(%s) is not a function of the choice alone: unit[%r] = %r when %s, but %r %s'
                % (_kw(units, order), name, t2[name], when, t1[name], other))


def oracle_named(case):
    uc = _uc()
    units = case['units']
    labels = {'n%d' % len(units)}
    try:
        if case['kind'] in ('refuse5', 'refuse_seed'):
            _restore(uc)
            before = dict(uc.unit)
            try:
                if case['kind'] == 'refuse5':
                    uc.reset_units(**units)
                else:
                    uc.reset_units(seed=case['seed'], **units)
            except ValueError as e:
                fam = 'Only four working units' if case['kind'] == 'refuse5' else 'seed cannot be given'
                require(fam in str(e), lambda: 'reset_units refusal with an undocumented message: %r' % (e,))
                require(dict(uc.unit) == before, 'refused reset_units call changed the unit table')
                return labels | {'refusal', case['kind']}
            raise Violation('reset_units(%s%r) did not raise ValueError'
                            % ('' if case['kind'] == 'refuse5' else 'seed=%r, ' % (case['seed'],), units))
        if case.get('pre'):
            apply_cfg(uc, case['pre'])
            labels.add('after_' + case['pre']['kind'])
        if case['kind'] == 'si':
            # "seed='SI' will use SI units"
            uc.reset_units(seed='SI')
            for name in ('m', 'kg', 's', 'C', 'K', 'J', 'N', 'Pa', 'V', 'W', 'Hz'):
                require(uc.unit[name] == 1.0 and uc.parse(name) == 1.0,
                        lambda: "after reset_units(seed='SI') unit[%r] = %r" % (name, uc.unit[name]))
            require(abs(uc.unit['angstrom'] - 1e-10) <= 1e-22 and abs(uc.unit['g'] - 1e-3) <= 1e-15,
                    lambda: "after reset_units(seed='SI') angstrom = %r, g = %r" % (uc.unit['angstrom'], uc.unit['g']))
            return labels | {'si', 'nt'}
        if case['kind'] == 'seed':
            # a seed determines the working units; the table is rebuilt consistently from the new base units
            uc.reset_units(seed=int(case['seed']))
            t1 = dict(uc.unit)
            uc.reset_units(seed=int(case['other']))
            t3 = dict(uc.unit)
            uc.reset_units(seed=int(case['seed']))
            t2 = dict(uc.unit)
            require(t1 == t2, lambda: 'reset_units(seed=%d) gave two different unit tables' % case['seed'])
            require(any(t1[b] != t3[b] for b in ('m', 'kg', 's', 'C', 'K')),
                    lambda: 'reset_units with seeds %d and %d gave the same base units' % (case['seed'], case['other']))
            for t in (t1, t3):
                e = t['kg'] * t['m'] ** 2 / t['s'] ** 2
                require(abs(t['J'] - e) <= 1e-13 * e and abs(t['angstrom'] - 1e-10 * t['m']) <= 1e-23 * t['m'],
                        lambda: 'unit table not rebuilt from the base units of seed %d: J = %r, kg*m^2/s^2 = %r' % (case['seed'], t['J'], e))
            return labels | {'seed', 'nt'}
        # the keywords are passed in every order (orders[0] is length, mass, time, energy, charge; orders[-1] its reverse)
        orders = case.get('orders') or [[q for q in g9.QUANT if q in units]]
        blocked = {'mass', 'time', 'energy'} <= set(units) and 'length' not in units
        if blocked:
            labels.add('mass_time_energy')
        uc.reset_units(**_ordered(units, orders[0]))
        _chosen_are_one(uc, units, orders[0], blocked)
        # the table is a function of the choice only ("the specified working units and SI"), not of what was in force before
        t1 = dict(uc.unit)
        uc.reset_units(seed='SI')
        uc.reset_units(**_ordered(units, orders[-1]))
        _chosen_are_one(uc, units, orders[-1], blocked)
        _same_table(uc, units, orders[-1], t1, 'called after SI', 'after %r with the keywords in the order %s' % (case.get('pre'), ', '.join(orders[0])))
        # ... nor of the order in which the keywords are written
        for k, order in enumerate(orders[1:-1]):
            if k % 2 == 0 and PRE_CYCLE[(k // 2) % len(PRE_CYCLE)] is not None:
                apply_cfg(uc, PRE_CYCLE[(k // 2) % len(PRE_CYCLE)])
            uc.reset_units(**_ordered(units, order))
            _chosen_are_one(uc, units, order, blocked)
            _same_table(uc, units, order, t1, 'the keywords are given in this order', 'with the keywords in the order %s' % ', '.join(orders[0]))
        if len(orders) > 1:
            labels.add('kw_orders_%d' % len(orders))
        if any(n not in SI_ONE for n in units.values()):
            labels.add('nt')
        if 'energy' in units:
            labels.add('energy_solves_' + ('mass' if 'mass' not in units else 'time' if 'time' not in units else 'length'))
    finally:
        _restore(uc)
    return labels


# ----------------------------------------------------------------------------- history (walks through named choices)

def _u(name, x=None):
    return ['u', name, None if x is None else ['x', x]]


def _n(lit, x=None):
    return ['n', lit, None if x is None else ['x', x]]


def _g(E, x=None):
    return ['g', E, None if x is None else ['x', x]]


def _E(*a):
    fs = [_u(f) if isinstance(f, str) else f for f in a[0::2]]
    return ['E', fs, ''.join(a[1::2])]


# dimensions (m, kg, s, C, K) of battery names that are not in the table of pbt/oracles/unitexpr.py
EXTRA_DIM = {'debye': (1, 0, 0, 1, 0), 'kB': (2, 1, -2, 0, -1), 'Rgas': (2, 1, -2, 0, -1), 'F': (-2, -1, 2, 2, 0),
             'ohm': (2, 1, -1, -2, 0), 'T': (0, 1, -1, -1, 0)}
BATTERY_DIM = dict(ux.DIM, **EXTRA_DIM)

# fixed battery of compound expressions, several of every dimension class (the same strings at every step of a walk)
BATTERY = [
    # dipole moment
    _E('e', '*', 'angstrom'), _E('C', '*', 'm'), _E('debye'), _E('mC', '*', 'nm'),
    # surface charge density
    _E('C', '/', _u('m', '2')), _E('e', '/', _u('angstrom', '2')), _E('mC', '/', _u('cm', '2')),
    # pressure / energy density
    _E('eV', '/', _u('angstrom', '3')), _E('GPa'), _E('J', '/', _u('m', '3')), _E('N', '/', _u('m', '2')),
    _E('kg', '/', _g(_E('m', '*', _u('s', '2')))), _E('amu', '/', 'angstrom', '/', _u('ps', '2')),
    # energy
    _E('amu', '*', _u('angstrom', '2'), '/', _u('ps', '2')), _E('kg', '*', _u('m', '2'), '/', _u('s', '2')), _E('eV'),
    _E('e', '*', 'V'), _E('kcal', '/', 'mol'), _E('N', '*', 'm'), _E('C', '*', 'V'),
    # momentum
    _E('kg', '*', 'm', '/', 's'), _E('amu', '*', 'angstrom', '/', 'ps'), _E('N', '*', 's'),
    # electric field
    _E('V', '/', 'cm'), _E('V', '/', 'angstrom'), _E('GV', '/', 'm'), _E('N', '/', 'C'), _E('eV', '/', _g(_E('e', '*', 'angstrom'))),
    # entropy / heat capacity
    _E('J', '/', _g(_E('mol', '*', 'K'))), _E('eV', '/', 'K'), _E('kcal', '/', _g(_E('mol', '*', 'K'))), _E('kB'),
    # force
    _E('eV', '/', 'angstrom'), _E('nN'), _E('kg', '*', 'm', '/', _u('s', '2')), _E('e', '*', 'V', '/', 'nm'),
    # velocity (one with a fractional power)
    _E('angstrom', '/', 'ps'), _E('m', '/', 's'), _E(_g(_E('eV', '/', 'amu'), '0.5')), _E('c0'),
    # frequency, current
    _E(_n('1'), '/', 'ps'), _E('THz'), _E(_u('s', '-1')), _E('C', '/', 's'), _E('A'), _E('e', '/', 'fs'),
    # action, power
    _E('eV', '*', 'fs'), _E('hbar'), _E('J', '*', 's'), _E('eV', '/', 'ps'), _E('W'), _E('V', '*', 'A'),
    # mass density, surface energy
    _E('g', '/', _u('cm', '3')), _E('amu', '/', _u('angstrom', '3')), _E('mJ', '/', _u('m', '2')), _E('eV', '/', _u('angstrom', '2')),
    _E('N', '/', 'm'),
    # capacitance, resistance, magnetic flux density
    _E('C', '/', 'V'), _E(_u('e', '2'), '/', 'eV'), _E('F'), _E('V', '/', 'A'), _E('ohm'), _E('V', '*', 's', '/', _u('m', '2')), _E('T'),
]
BATTERY_TEXT = [ux.render(E) for E in BATTERY]
assert len(BATTERY) <= g9.NBATTERY and len(set(BATTERY_TEXT)) == len(BATTERY)


def _battery_pairs():
    groups = {}
    for i, E in enumerate(BATTERY):
        groups.setdefault(tuple(round(v, 9) for v in ux.dim(E, BATTERY_DIM)), []).append(i)
    pairs = []
    for idx in groups.values():
        if len(idx) < 2:
            raise HarnessError('battery expression %r has no partner of equal dimension' % BATTERY_TEXT[idx[0]])
        pairs += [(idx[k], idx[(k + 1) % len(idx)]) for k in range(len(idx))]       # a ring through the class: A->B, B->C, ..., Z->A
    return pairs, len(groups)


BATTERY_PAIRS, BATTERY_NCLASS = _battery_pairs()
ONLY = ('change_', 'drop_', 'add_')


def _next_choice(cur, step):
    """the choice after `step` from the choice `cur` in force: differs from it in exactly one quantity (or is the same choice
    for 'reorder'/'seed'/'SI'); an impossible step (adding a fifth or over-determining unit, dropping the last) changes a name"""
    op = step['op']
    if op in ('reorder', 'seed', 'SI'):
        return dict(cur), op
    q = g9.QUANT[step['q'] % len(g9.QUANT)]
    new = dict(cur)
    if op == 'add' and q not in cur and len(cur) < 4 and frozenset(cur) | {q} != g9.OVERDETERMINED:
        new[q] = g9.NAMED_MORE[q][step['name'] % len(g9.NAMED_MORE[q])]
        return new, 'add_' + q
    if op == 'drop' and q in cur and len(cur) > 1:
        del new[q]
        return new, 'drop_' + q
    if q not in cur:
        have = [p for p in g9.QUANT if p in cur]
        q = have[step['q'] % len(have)]
    names = g9.NAMED_MORE[q]
    if cur[q] in names:
        new[q] = names[(names.index(cur[q]) + 1 + step['name'] % (len(names) - 1)) % len(names)]
    else:
        new[q] = names[step['name'] % len(names)]
    return new, 'change_' + q


def _close(got, exp, tol):
    if isinstance(exp, float):           # scalar fast path (numpy.float64 is a float)
        return bool(math.isfinite(got) and abs(got - exp) <= tol * abs(exp))
    return bool(np.all(np.isfinite(got)) and np.all(np.abs(got - exp) <= tol * np.abs(exp)))


def oracle_history(case):
    uc = _uc()
    labels = set()
    x = case['x']
    xr = np.array(x, dtype=float)
    cur = dict(case['start']['units'])
    extras = [(e['ast'], ux.render(e['ast'], e['ws'])) for e in case['extra']]
    if extras:
        labels.add('extra_exprs')
    tables = {}           # choice -> unit table at its first visit
    conv0 = {}            # (A, B) -> (result at the first evaluation, description of that step)
    trail = []
    nnamed, ntrans = 0, 0
    steps = [{'op': 'start', 'mask': case['mask']}] + list(case['steps'])
    try:
        for k, step in enumerate(steps):
            op = step['op']
            if op == 'start':
                order, what = case['start'].get('order'), 'start'
            else:
                cur, what = _next_choice(cur, step)
                allo = g9.orders_of(tuple(cur))
                order = allo[step['perm'] % len(allo)]
            if op == 'seed':
                seed = int(step['name']) % (2 ** 31)
                here = 'reset_units(seed=%d)' % seed
                uc.reset_units(seed=seed)
                key = 'seed %d' % seed
            elif op == 'SI':
                here = "reset_units(seed='SI')"
                uc.reset_units(seed='SI')
                key = 'SI'
            else:
                here = 'reset_units(%s)' % _kw(cur, order)
                uc.reset_units(**_ordered(cur, order))
                key = json.dumps(cur, sort_keys=True)
                nnamed += 1
            labels.add(what)
            if what.startswith(ONLY):
                ntrans += 1
                labels.add('only_' + what.split('_')[1])
            trail.append(here)
            hist = lambda: ' [step %d of the walk %s]' % (k, ' ; '.join(trail))

            # (a) each chosen unit is one; the table is a function of the choice alone (same choice revisited, other keyword order)
            if op not in ('seed', 'SI'):
                try:
                    _chosen_are_one(uc, cur, order)
                except Violation as v:
                    raise Violation(v.detail + hist(), key=v.key)
            leaf = dict(uc.unit)
            if key in tables:
                labels.add('revisit')
                t0 = tables[key]
                for name in sorted(t0):
                    require(abs(t0[name] - leaf[name]) <= 1e-12 * abs(t0[name]),
                            lambda: '%s gives unit[%r] = %r, earlier in the same walk the same choice gave %r%s'
                            % (here, name, leaf[name], t0[name], hist()))
            else:
                tables[key] = leaf

            # (b) the battery (and the drawn expressions) against my evaluator over the CURRENT leaf values
            mask = int(step['mask'])
            val = {}
            todo = [(i, BATTERY[i], BATTERY_TEXT[i]) for i in range(len(BATTERY)) if (mask >> i) & 1]
            todo += [(-1 - j, E, t) for j, (E, t) in enumerate(extras)]
            for i, E, text in todo:
                try:
                    f = ux.evaluate(E, leaf)
                except ux.RangeSkip:
                    labels.add('range_skip_entry')
                    continue
                if not 1e-200 < f < 1e200:
                    labels.add('range_skip_entry')
                    continue
                got = uc.parse(text)
                require(isinstance(got, (float, int)) and not isinstance(got, bool) and _close(got, f, 1e-12),
                        lambda: 'after %s parse(%r) = %r, but the unit table in force gives %r%s' % (here, text, got, f, hist()))
                w = np.asarray(uc.set_in_units(x, text), dtype=float)
                require(w.shape == xr.shape and _close(w, xr * f, 1e-12),
                        lambda: 'after %s set_in_units(%r, %r) = %r, but value*factor = %r%s' % (here, x, text, w.tolist(), (xr * f).tolist(), hist()))
                o = np.asarray(uc.get_in_units(x, text), dtype=float)
                require(o.shape == xr.shape and _close(o, xr / f, 1e-12),
                        lambda: 'after %s get_in_units(%r, %r) = %r, but value/factor = %r%s' % (here, x, text, o.tolist(), (xr / f).tolist(), hist()))
                if i >= 0:
                    val[i] = f

            # (c) conversions between battery expressions of equal dimension: right now, and unchanged along the walk
            for a, b in BATTERY_PAIRS:
                if a not in val or b not in val:
                    continue
                tA, tB = BATTERY_TEXT[a], BATTERY_TEXT[b]
                r = np.asarray(uc.get_in_units(uc.set_in_units(x, tA), tB), dtype=float)
                require(r.shape == xr.shape and _close(r, xr * (val[a] / val[b]), 1e-12),
                        lambda: 'after %s converting %r from %r to %r gives %r, expected %r%s'
                        % (here, x, tA, tB, r.tolist(), (xr * (val[a] / val[b])).tolist(), hist()))
                if (a, b) in conv0:
                    r0, then = conv0[(a, b)]
                    require(_close(r, r0, 1e-10),
                            lambda: 'converting %r from %r to %r gives %r after %s but gave %r after %s%s'
                            % (x, tA, tB, r.tolist(), here, r0.tolist(), then, hist()))
                else:
                    conv0[(a, b)] = (r, here)
            if mask != -1:
                labels.add('partial_battery')
    finally:
        _restore(uc)
    if ntrans >= 1 and nnamed >= 2:
        labels.add('nt')
    labels.add('steps_%d' % min(len(steps), 8))
    return labels


# ----------------------------------------------------------------------------- lammps_dims (exhaustive)

STYLES = ('lj', 'real', 'metal', 'si', 'cgs', 'electron', 'micro', 'nano')
MECH = {                       # exponents of (m, kg, s, C, K)
    'mass': (0, 1, 0, 0, 0), 'length': (1, 0, 0, 0, 0), 'time': (0, 0, 1, 0, 0), 'energy': (2, 1, -2, 0, 0),
    'velocity': (1, 0, -1, 0, 0), 'force': (1, 1, -2, 0, 0), 'torque': (2, 1, -2, 0, 0), 'pressure': (-1, 1, -2, 0, 0),
    'dynamic viscosity': (-1, 1, -1, 0, 0), 'density': (-3, 1, 0, 0, 0), 'ang-mom': (2, 1, -1, 0, 0), 'ang-vel': (0, 0, -1, 0, 0),
    'volume': (3, 0, 0, 0, 0),
}
NSEED = 12


def lammps_enumerate(tier):
    nsets = 6 if tier == 'quick' else 24
    cases = []
    for s in range(nsets):
        seeds = [derive_seed('C09-lammps', s, j) % (2 ** 31) for j in range(NSEED)]
        for style in STYLES:
            for key in MECH:
                cases.append({'style': style, 'key': key, 'seeds': seeds})
    return cases


def oracle_lammps(case):
    uc = _uc()
    import atomman.lammps as lmp
    style, key = case['style'], case['key']
    table = lmp.style.unit(style)
    labels = {'style_' + style}
    if key not in table:
        return labels | {'absent'}
    if style == 'lj':
        require(table[key] is None, lambda: "style.unit('lj')[%r] = %r, expected None" % (key, table[key]))
        return labels | {'lj_none'}
    entry = table[key]
    require(isinstance(entry, str), lambda: "style.unit(%r)[%r] = %r is not a unit expression" % (style, key, entry))
    rows, vals = [], []
    try:
        for s in case['seeds']:
            uc.reset_units(seed=int(s))
            leaf = dict(uc.unit)
            got = float(uc.parse(entry))
            try:
                mine = ux.parse_text(entry, leaf)
            except ux.Reject as e:
                raise Violation("style.unit(%r)[%r] = %r is not a well-formed unit expression: %s" % (style, key, entry, e))
            require(_rel(got, mine) <= 1e-12, lambda: 'parse(%r) = %r but ordinary precedence gives %r' % (entry, got, mine))
            require(got > 0 and np.isfinite(got), lambda: 'parse(%r) = %r' % (entry, got))
            rows.append([np.log(leaf['m']), np.log(leaf['kg']), np.log(leaf['s']), np.log(leaf['C']), np.log(leaf['K']), 1.0])
            vals.append(np.log(got))
    finally:
        _restore(uc)
    A = np.array(rows)
    if np.linalg.cond(A) > 1e3:
        raise HarnessError('ill-conditioned seed set for the dimension regression')
    sol, res, rank, sv = np.linalg.lstsq(A, np.array(vals), rcond=None)
    resid = float(np.abs(A @ sol - np.array(vals)).max())
    require(resid <= 1e-9, lambda: "style.unit(%r)[%r] = %r is not a monomial in the base units (fit residual %.3g): value depends "
            "on the working units in a non-dimensional way" % (style, key, entry, resid))
    expd = np.array(MECH[key], dtype=float)
    require(float(np.abs(sol[:5] - expd).max()) <= 1e-6,
            lambda: "style.unit(%r)[%r] = %r has dimension exponents (m,kg,s,C,K) = %s, a %s has %s"
            % (style, key, entry, (np.round(sol[:5], 6) + 0.0).tolist(), key, expd.tolist()))
    labels.add('nt')
    if any(c in entry for c in '*/^('):
        labels.add('composite')
    return labels


# ----------------------------------------------------------------------------- atheris campaign (byte level, optional)

FUZZ = os.path.join(VERIF, 'pbt', 'fuzz_c09.py')
DEPS = os.path.join(VERIF, '.deps')


def atheris_enumerate(tier):
    seed = int(os.environ.get('VERIF_SEED', '1') or 1)
    n, runs = (2, 15000) if tier == 'quick' else (16, 300000)
    return [{'fuzz_seed': derive_seed(seed, 'C09', 'atheris', j) % (2 ** 31 - 1) + 1, 'runs': runs,
             'units_seed': derive_seed(seed, 'C09', 'atheris-units', j) % (2 ** 31), 'corpus': j % 2 == 1} for j in range(n)]


def oracle_atheris(case):
    import shutil
    import tempfile
    root = os.path.abspath(os.environ.get('VERIF_REPO_ROOT', '/repo'))
    tmp = tempfile.mkdtemp(prefix='c09-fuzz-')
    try:
        env = dict(os.environ, PYTHONPATH=os.pathsep.join([root, VERIF, DEPS]), C09_UNITS_SEED=str(case['units_seed']))
        env.pop('C09_CORPUS_DIR', None)
        if case['corpus']:
            env['C09_CORPUS_DIR'] = os.path.join(tmp, 'corpus')
            os.mkdir(env['C09_CORPUS_DIR'])
        cmd = [sys.executable, FUZZ, '-runs=%d' % case['runs'], '-seed=%d' % case['fuzz_seed'], '-max_len=96', '-timeout=30',
               '-artifact_prefix=' + tmp + os.sep]
        p = subprocess.run(cmd, env=env, stdout=subprocess.PIPE, stderr=subprocess.STDOUT, cwd=tmp)
        out = p.stdout.decode(errors='replace')
    finally:
        shutil.rmtree(tmp, ignore_errors=True)
    if p.returncode == 77:
        return {'atheris_unavailable_hypothesis_only'}
    found = [l for l in out.splitlines() if l.startswith('C09-FUZZ-MISMATCH ')]
    if found:
        raise Violation('atheris: ' + found[0][len('C09-FUZZ-MISMATCH '):][:1500])
    if p.returncode != 0:
        raise HarnessError('fuzz_c09.py exited %d: %s' % (p.returncode, out[-800:]))
    stats = [l for l in out.splitlines() if l.startswith('C09-FUZZ-STATS ')]
    if not stats:
        raise HarnessError('fuzz_c09.py printed no statistics: %s' % out[-800:])
    st = json.loads(stats[-1][len('C09-FUZZ-STATS '):])
    if st['judged'] < 0.2 * st['inputs']:
        raise HarnessError('atheris campaign judged only %d of %d inputs' % (st['judged'], st['inputs']))
    return {'atheris', 'nt', 'corpus' if case['corpus'] else 'empty_corpus'}


# the two enumerations are cheap (seconds) and run as one shard each so that they are scheduled first and are never starved by
# the wall budget when the machine is shared
CLAUSES = [
    Clause('precedence', oracle_precedence, g9.precedence_cases, quick=40000, thorough=700000,
           min_share={'nt': 0.37, 'div_then_op': 0.23, 'pow_in_product': 0.37, 'grp_product_pow': 0.12, 'paren_right_operand': 0.13,
                      'nested_paren': 0.09, 'ws_tab': 0.16, 'ws_newline': 0.16, 'ws_cr': 0.12, 'exotic_name': 0.14,
                      'lit_leading_dot': 0.035, 'neg_exp': 0.24, 'cfg_named': 0.25, 'cfg_seed': 0.16},
           max_share={'range_skip': 0.05},
           desc='uc.parse(rendered expression) equals my AST evaluator (parentheses, powers, then * / left to right) to 1e-12, '
                'under random / SI / named working units'),
    Clause('identity', oracle_identity, g9.identity_cases, quick=16000, thorough=200000,
           min_share={'nt': 0.3, 'mode_literal': 0.14, 'literal_list': 0.08, 'literal_nounit': 0.03, 'mode_scaled': 0.03,
                      'mode_none': 0.03, 'ndim2': 0.05, 'ndim3': 0.06, 'as_array': 0.18, 'as_tuple': 0.06},
           max_share={'range_skip': 0.05},
           desc='get_in_units(set_in_units(v,u),u) = v to 4 eps; set_in_units = v*factor; set_literal("v u") = v*factor; shapes kept; '
                'None / "scaled" units'),
    Clause('invariance', oracle_invariance, g9.invariance_cases, quick=12000, thorough=160000,
           min_share={'nt': 0.4, 'expanded': 0.14, 'distinct_cfgs_3': 0.29, 'dimensional': 0.44, 'kw_reordered': 0.2},
           max_share={'range_skip': 0.05},
           desc='same-dimension expression pairs (class substitution / expansion from my dimension table): conversion A -> B gives the '
                'same number under three working-unit configurations (1e-10)'),
    Clause('history', oracle_history, g9.history_cases, quick=1200, thorough=40000,
           min_share={'nt': 0.5, 'only_charge': 0.25, 'only_energy': 0.18, 'only_length': 0.18, 'only_mass': 0.18, 'only_time': 0.1,
                      'revisit': 0.18, 'extra_exprs': 0.3},
           desc='walks of 3-8 working-unit choices in one process, consecutive named choices differing in exactly one quantity '
                '(name changed / dropped / added; keywords in a drawn order; occasional seed, SI and same-choice steps): after every '
                'reset each chosen unit is one, a revisited choice gives the same table, a fixed battery of %d compound expressions '
                '(%d dimension classes) and the drawn expressions agree with my evaluator over the current table through parse, '
                'set_in_units and get_in_units (1e-12), and %d same-dimension conversions keep their value along the walk (1e-10)'
                % (len(BATTERY), BATTERY_NCLASS, len(BATTERY_PAIRS))),
    Clause('named', oracle_named, enumerate=named_enumerate, nshards=1, min_share={'nt': 0.37, 'refusal': 0.01, 'kw_orders_24': 0.2, 'kw_orders_6': 0.17},
           desc='exhaustive: every non-over-determined choice of <= 4 named working units, keywords passed in EVERY order: each '
                'chosen unit is one (1e-12) via unit[], parse and get_in_units, the table is the same after different previous '
                'configurations and for every keyword order; documented ValueError refusals'),
    Clause('lammps_dims', oracle_lammps, enumerate=lammps_enumerate, nshards=1, min_share={'nt': 0.4},
           desc='exhaustive: 8 styles x 13 mechanical keys: dimension exponents recovered by regression over 12 random seeds equal '
                'the dimension of the quantity (1e-6); lj entries are None'),
    Clause('atheris', oracle_atheris, enumerate=atheris_enumerate,
           desc='byte-level libFuzzer campaign on uc.parse through a grammar decoder (and raw text judged by my strict parser); '
                'falls back to Hypothesis-only when atheris cannot be imported'),
]
