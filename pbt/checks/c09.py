"""C09 - Unit conversion is invertible, precedence-correct and working-unit independent."""
import json
import math
import os
import subprocess
import sys

import numpy as np

from ..core import Clause, Violation, HarnessError, require, derive_seed, load_known, VERIF
from .. import gens_c09 as g9
from ..oracles import unitexpr as ux

RULE = ("unit expressions are ASTs of the grammar E := F (('*'|'/') F)*, F := A | A^x, A := name | number | (E), "
        "x := [-]number | (number) | (number/number), group nesting <= 4, names from my table of numericalunits names "
        "(common atomistic units weighted, all 165 classified names, digits/underscore/non-ASCII names), rendered with a "
        "drawn whitespace string (spaces, tabs, newlines, carriage returns) in every token gap; every case is evaluated "
        "under a drawn working-unit configuration (random seed, 'SI', or one of the non-over-determined named choices with its "
        "keywords passed in a drawn order). "
        "Non-trivial: precedence/identity - the expression has >= 2 operators of different precedence or a parenthesised "
        "sub-expression raised to a power; invariance - the two expressions differ and >= 2 distinct configurations; "
        "named - a chosen unit is not an SI unit (also the seed='SI' and integer-seed cases), every choice with all permutations of "
        "its keywords; history - a walk with >= 2 named choices and >= 1 transition that changes exactly one quantity; lammps_dims - a judged entry "
        "(style other than lj, key present); atheris - a campaign that ran. "
        "Exponents and numeric factors also come from near-threshold pools (1e-13 ... 1e-3 away from a whole number, a half, zero, one). "
        "forms - a sequence of 2-6 calls (set_in_units, get_in_units, set_literal, style.unit, reset_units) in one process; each value in a "
        "drawn storage form (list/tuple/float64, every integer width, unsigned, big-endian, bool up to the dtype limits, numpy scalars, "
        "read-only / strided / negative-stride / Fortran / transposed arrays, float16/float32 with exactly representable values), with "
        "one magnitude, one magnitude PER ELEMENT (10^-30 ... 10^30), near-threshold values or exact halves, under a random expression, "
        "the working unit itself, or a literal next to one times it; after a call the caller overwrites what it handed in / got back or "
        "hands the result on; non-trivial: >= 2 judged calls and a non-plain form, a caller-side edit, a reset between calls, a "
        "many-decade array or a factor-one expression; pairs - every ordered pair of named choices (by quantity subset) and of unit styles.")
ASSUMPTIONS = ["numericalunits assigns dimensionally consistent values to its names for every seed (its values are the leaves "
               "of my evaluator; my dimension table was verified against it by regression)",
               "Python float arithmetic and float(str) define the meaning of numeric literals",
               "lammps_dims evaluates table entries with uc.parse (decided by clause precedence) and with my own text parser",
               "numpy converts integer, bool and narrow-float arrays of every width / byte order / layout to float64 exactly (the float64 "
               "reference of a stored value is numpy.array(value, dtype=float))",
               "atomman/lammps/style.py executed into a fresh namespace behaves like the module in a fresh interpreter (reference for "
               "'the table is a function of the style alone'; a fresh interpreter is used if the file stops being self-contained)"]
LEVEL_TEXT = ("Property-based exploration: grammar-generated unit expressions (depth <= 4, random whitespace) under random, SI "
              "and named working units judged by an independent AST evaluator, set/get/set_literal round trips on scalars and "
              "arrays, same-dimension expression pairs compared across three configurations, exhaustive enumeration of the "
              "named working-unit choices in every keyword order and of the LAMMPS style tables (dimension by regression over random seeds); "
              "walks through named choices differing in one quantity at a time with a fixed battery of compound expressions of every "
              "dimension class re-evaluated after each reset; optional byte-level atheris campaign on uc.parse; call sequences with the "
              "value in every storage form (dtype x layout), arrays spanning up to 66 decades, near-threshold exponents / factors / values, "
              "factor-one expressions, a ledger of everything returned re-judged bit for bit after later calls, resets and caller-side "
              "overwrites; exhaustive ordered pairs of named choices (by quantity subset, with seed / SI in between) and of unit styles.")
TECHNIQUE = "property-based testing (Hypothesis, 16 seeded shards): independent AST evaluator, dimension algebra, exhaustive named-choice x keyword-order enumeration, single-quantity reset histories, storage-form / ledger / caller-mutation call sequences, exhaustive ordered pairs of choices and styles, atheris grammar fuzzing"
WALL = {'quick': 58, 'thorough': 600}

# Generator classes carried over from the seeded rounds (A-H of the cross-pollination audit) and where they live here:
#   A result ledger ............... forms: class Ledger (labels ledger, ledger_across_reset); style tables: forms + pairs
#   B caller-side mutation ........ forms: post = mut_out / mut_in / mut_both / prev (labels mut_out, mut_in, reuse_out, style_edit);
#                                   identity already compares its argument with a snapshot
#   C storage and input dtypes .... forms: build_form (labels form_*, dtype_limit, narrow_float); identity: py / tuple / array / intarray
#   D working-unit configuration .. every clause runs under a drawn cfg (cfg_named / cfg_seed / cfg_SI), invariance under three,
#                                   history / forms / pairs reset BETWEEN calls; always restored to DEFAULT in a finally
#   E near-threshold values ....... gens_c09 EXPS_NEAR / LITS_NEAR / XQ_NEAR in every grammar clause (near_int_exp, near_one_lit);
#                                   forms: value_near, factor_near_one.  No documented tolerance exists in unitconvert to stay off.
#   F many decades in one call .... forms: struct 'decades' (labels decades, decades_16), each element against its own single call
#   G exactly structured inputs ... forms: the working unit itself as expression (factor_one_expr), None / 'scaled', exact halves
#                                   (value_halves); named / pairs: SI names, the choice already in force asked for again (same_choice)
#   H enumerated combinations ..... named (every choice x every keyword order), pairs (every ordered pair of choices by quantity subset
#                                   x {nothing, seed, SI} in between; every ordered pair of styles x caller edit), lammps_dims

EPS = 2.220446049250313e-16
DEFAULT = dict(length='angstrom', mass='amu', energy='eV', charge='e')


def _uc():
    import atomman.unitconvert as uc
    return uc


def _restore(uc):
    uc.reset_units(**DEFAULT)


def _ordered(units, order=None):
    """the keyword dict of a named choice with its keys in the given order (dicts keep insertion order, ** passes it on)"""
    if order is None:
        order = [q for q in g9.QUANT if q in units]
    if sorted(order) != sorted(units):
        raise HarnessError('order %r is not a permutation of the chosen quantities %r' % (order, sorted(units)))
    return {q: units[q] for q in order}


def _kw(units, order=None):
    return ', '.join('%s=%r' % (q, n) for q, n in _ordered(units, order).items())


def apply_cfg(uc, cfg):
    k = cfg['kind']
    if k == 'seed':
        uc.reset_units(seed=int(cfg['seed']))
    elif k == 'SI':
        uc.reset_units(seed='SI')
    elif k == 'named':
        uc.reset_units(**_ordered(cfg['units'], cfg.get('order')))
    else:
        raise HarnessError('bad cfg %r' % (cfg,))
    return 'cfg_' + k


def _rel(a, b):
    return abs(a - b) / abs(b)


# ----------------------------------------------------------------------------- precedence

def oracle_precedence(case):
    uc = _uc()
    E, ws = case['ast'], case['ws']
    labels = ux.features(E, ws)
    text = ux.render(E, ws)
    try:
        labels.add(apply_cfg(uc, case['cfg']))
        leaf = dict(uc.unit)
        try:
            exp = ux.evaluate(E, leaf)
        except ux.RangeSkip:
            labels.discard('nt')
            labels.add('range_skip')
            return labels
        try:
            mine = ux.parse_text(text, leaf)
        except (ux.Reject, ux.RangeSkip) as e:
            raise HarnessError('own text parser disagrees with own renderer on %r: %r' % (text, e))
        if mine != exp and _rel(mine, exp) > 1e-13:
            raise HarnessError('own text parser %r != own AST evaluator %r on %r' % (mine, exp, text))
        got = uc.parse(text)
        require(isinstance(got, (float, int)) and not isinstance(got, bool),
                lambda: 'parse(%r) returned %r (%s), not a float' % (text, got, type(got).__name__))
        require(np.isfinite(got) and _rel(float(got), exp) <= 1e-12,
                lambda: 'parse(%r) = %r, but parentheses > powers > left-to-right * / gives %r (rel. diff %.3g)'
                % (text, got, exp, _rel(float(got), exp) if np.isfinite(got) else float('nan')))
    finally:
        _restore(uc)
    return labels


# ----------------------------------------------------------------------------- identity

def _build_value(spec):
    v, how = spec['v'], spec['as']
    if how == 'array':
        return np.array(v, dtype=float)
    if how == 'intarray':
        return np.array(v, dtype=int)
    if how == 'tuple':
        def tup(x):
            return tuple(tup(y) for y in x) if isinstance(x, list) else x
        return tup(v)
    return json.loads(json.dumps(v))


def oracle_identity(case):
    uc = _uc()
    mode = case['mode']
    spec = case['value']
    ref = np.array(spec['v'], dtype=float)
    labels = {'mode_' + mode, 'as_' + spec['as'], 'ndim%d' % ref.ndim}
    if ref.size == 0:
        labels.add('empty')
    vmax = float(np.abs(ref).max()) if ref.size else 0.0
    nz = np.abs(ref[ref != 0])
    vmin = float(nz.min()) if nz.size else 1.0
    try:
        labels.add(apply_cfg(uc, case['cfg']))
        leaf = dict(uc.unit)
        if mode in ('units', 'literal'):
            E, ws = case['ast'], case['ws']
            labels |= ux.features(E, ws)
            text = ux.render(E, ws)
            try:
                f = ux.evaluate(E, leaf)
            except ux.RangeSkip:
                labels.discard('nt')
                labels.add('range_skip')
                return labels
            if not (1e-290 < vmin * f and vmax * f < 1e290):
                labels.discard('nt')
                labels.add('range_skip')
                return labels
        else:
            text, f = (None if mode == 'none' else 'scaled'), 1.0

        if mode == 'literal':
            if case.get('nounit'):
                term, fexp = repr(spec['v']), 1.0
                labels.add('literal_nounit')
            else:
                term, fexp = repr(spec['v']) + case['sep'] + text, f
            try:
                got = uc.set_literal(term)
            except ValueError as e:      # documented refusal for unparsable terms; this term is 'value unit' with a valid expression
                raise Violation('set_literal(%r) refused a well-formed "value unit" term: %r' % (term, e))
            ga = np.asarray(got)
            require(ga.shape == ref.shape, lambda: 'set_literal(%r) has shape %r, value has shape %r' % (term, ga.shape, ref.shape))
            err = np.abs(ga - ref * fexp)
            require(bool(np.all(err <= 1e-12 * np.abs(ref * fexp))),
                    lambda: 'set_literal(%r) = %r, expected value*factor = %r' % (term, got, (ref * fexp).tolist()))
            if ref.ndim:
                labels.add('literal_list')
            return labels

        value = _build_value(spec)
        snap = np.array(value, dtype=float) if ref.size else None
        w = uc.set_in_units(value, text)
        wa = np.asarray(w)
        require(wa.shape == ref.shape, lambda: 'set_in_units(value, %r) has shape %r, value has shape %r' % (text, wa.shape, ref.shape))
        # direction and factor: into working units = value * factor
        require(bool(np.all(np.abs(wa - ref * f) <= 1e-12 * np.abs(ref * f))),
                lambda: 'set_in_units(%r, %r) = %r, expected value*%r = %r' % (spec['v'], text, w, f, (ref * f).tolist()))
        back = uc.get_in_units(w, text)
        ba = np.asarray(back)
        require(ba.shape == ref.shape, lambda: 'get_in_units(..., %r) has shape %r, value has shape %r' % (text, ba.shape, ref.shape))
        # (v*f)(1+d1)/f(1+d2): two roundings <= 1 eps; allowed 4 eps
        require(bool(np.all(np.abs(ba - ref) <= 4 * EPS * np.abs(ref))),
                lambda: 'get_in_units(set_in_units(v, u), u) != v for u=%r: v=%r back=%r (max rel. err %.3g)'
                % (text, spec['v'], back, float(np.max(np.abs(ba - ref) / np.where(ref == 0, 1, np.abs(ref))))))
        if mode in ('none', 'scaled'):
            require(bool(np.all(wa == ref)), lambda: 'set_in_units(v, %r) changed the value: %r -> %r' % (text, spec['v'], w))
        if snap is not None:
            require(bool(np.array_equal(np.array(value, dtype=float), snap)), 'set_in_units/get_in_units modified their input value')
    finally:
        _restore(uc)
    return labels


# ----------------------------------------------------------------------------- invariance

def oracle_invariance(case):
    uc = _uc()
    A, B = case['A'], case['B']
    dA, dB = ux.dim(A), ux.dim(B)
    if max(abs(a - b) for a, b in zip(dA, dB)) > 1e-9:
        raise HarnessError('generator produced expressions of different dimension: %r vs %r' % (dA, dB))
    tA, tB = ux.render(A, case['wsA']), ux.render(B, case['wsB'])
    labels = set()
    fa = ux.features(A, case['wsA'])
    if ux.tokens(A) != ux.tokens(B):
        labels.add('differ')
    if any(abs(d) > 1e-12 for d in dA):
        labels.add('dimensional')
    if len([t for t in ux.tokens(B) if t == '(']) > len([t for t in ux.tokens(A) if t == '(']):
        labels.add('expanded')
    if 'frac_exp' in fa:
        labels.add('frac_exp')
    labels |= fa & {'near_int_exp', 'near_one_lit'}
    x = case['x']
    xr = np.array(x, dtype=float)
    xnz = np.abs(xr[xr != 0])
    xlo, xhi = (float(xnz.min()), float(xnz.max())) if xnz.size else (1.0, 1.0)
    cfgs = case['cfgs']
    distinct = len({json.dumps({k: v for k, v in c.items() if k != 'order'}, sort_keys=True) for c in cfgs})
    if any(c.get('order') not in (None, [q for q in g9.QUANT if q in c['units']]) for c in cfgs if c['kind'] == 'named'):
        labels.add('kw_reordered')
    labels.add('distinct_cfgs_%d' % distinct)
    results = []
    try:
        for cfg in cfgs:
            labels.add(apply_cfg(uc, cfg))
            leaf = dict(uc.unit)
            try:
                va, vb = ux.evaluate(A, leaf), ux.evaluate(B, leaf)
                if not (1e-280 < xlo * va and xhi * va < 1e280 and 1e-280 < xlo * va / vb and xhi * va / vb < 1e280):
                    raise ux.RangeSkip()
            except ux.RangeSkip:
                return {'range_skip'}
            r = np.asarray(uc.get_in_units(uc.set_in_units(x, tA), tB), dtype=float)
            require(r.shape == xr.shape, lambda: 'conversion changed the shape %r -> %r' % (xr.shape, r.shape))
            results.append(r)
        r0 = results[0]
        for k in range(1, len(results)):
            require(bool(np.all(np.abs(results[k] - r0) <= 1e-10 * np.abs(r0))),
                    lambda: 'converting %r from %r to %r gives %r under %r but %r under %r'
                    % (x, tA, tB, r0.tolist(), cfgs[0], results[k].tolist(), cfgs[k]))
    finally:
        _restore(uc)
    if 'differ' in labels and distinct >= 2:
        labels.add('nt')
    return labels


# ----------------------------------------------------------------------------- named (exhaustive)

KEY_MTE = 'C09:reset_units:mass-time-energy'
SI_ONE = {'m', 'kg', 's', 'J', 'C'}


def named_enumerate(tier):
    import itertools
    table = g9.NAMED_QUICK if tier == 'quick' else g9.NAMED_MORE
    cases = []
    i = 0
    for sub in g9.SUBSETS:
        for names in itertools.product(*[table[q] for q in sub]):
            i += 1
            pre = [{'kind': 'seed', 'seed': 7919 * i}, {'kind': 'SI'}, None,
                   {'kind': 'named', 'units': {'length': 'nm', 'mass': 'g', 'time': 'fs', 'charge': 'mC'}}][i % 4]
            cases.append({'kind': 'choice', 'units': dict(zip(sub, names)), 'pre': pre, 'orders': g9.orders_of(sub)})
    # over-determined but consistent choices ("any consistent choice of up to four")
    for names in (('m', 'kg', 's', 'J'), ('cm', 'g', 's', 'erg'), ('um', 'pg', 'us', 'fJ'), ('mm', 'g', 'ms', 'mJ')):
        cases.append({'kind': 'choice', 'units': dict(zip(('length', 'mass', 'time', 'energy'), names)), 'pre': {'kind': 'seed', 'seed': 11},
                      'orders': g9.orders_of(('length', 'mass', 'time', 'energy'))})
    # seed='SI' and integer seeds
    for j in range(8):
        cases.append({'kind': 'si', 'units': {}, 'pre': [{'kind': 'seed', 'seed': 31 * j + 1}, None][j % 2]})
    for j in range(24 if tier == 'quick' else 200):
        cases.append({'kind': 'seed', 'units': {}, 'seed': derive_seed('C09-named-seed', j) % (2 ** 31),
                      'other': derive_seed('C09-named-other', j) % (2 ** 31)})
    # documented refusals
    for j, names in enumerate(itertools.product(*[table[q][:2] for q in g9.QUANT])):
        cases.append({'kind': 'refuse5', 'units': dict(zip(g9.QUANT, names))})
    for j, sub in enumerate(g9.SUBSETS):
        cases.append({'kind': 'refuse_seed', 'units': {q: table[q][j % len(table[q])] for q in sub}, 'seed': [5, 'SI', 0][j % 3]})
    return cases


PRE_CYCLE = [{'kind': 'seed', 'seed': 4242}, None, {'kind': 'SI'},
             {'kind': 'named', 'units': {'length': 'nm', 'mass': 'g', 'time': 'fs', 'charge': 'mC'}, 'order': ['charge', 'time', 'mass', 'length']}]


def _chosen_are_one(uc, units, order, blocked=False):
    """each chosen unit has the value one (1e-12) through unit[], parse and get_in_units"""
    table = uc.unit
    for q in g9.QUANT:          # fixed order; energy is judged after the base units
        if q not in units:
            continue
        name = units[q]
        for how, val in (('unit[%r]' % name, table[name]), ('parse(%r)' % name, uc.parse(name)),
                         ('get_in_units(1.0, %r)' % name, float(uc.get_in_units(1.0, name)))):
            ok = bool(np.isfinite(val)) and abs(val - 1.0) <= 1e-12
            if not ok:
                raise Violation('after reset_units(%s) the chosen %s unit is not one: %s = %r' % (_kw(units, order), q, how, val),
                                key=KEY_MTE if (blocked and q == 'energy') else None)


def _same_table(uc, units, order, t1, when, other):
    t2 = uc.unit
    require(set(t1) == set(t2), 'unit table has different names after the same reset_units call')
    for name in sorted(t1):
        require(abs(t1[name] - t2[name]) <= 1e-12 * abs(t2[name]),
                lambda: 'reset_units(%s) is not a function of the choice alone: unit[%r] = %r when %s, but %r %s'
                % (_kw(units, order), name, t2[name], when, t1[name], other))


def oracle_named(case):
    uc = _uc()
    units = case['units']
    labels = {'n%d' % len(units)}
    try:
        if case['kind'] in ('refuse5', 'refuse_seed'):
            _restore(uc)
            before = dict(uc.unit)
            try:
                if case['kind'] == 'refuse5':
                    uc.reset_units(**units)
                else:
                    uc.reset_units(seed=case['seed'], **units)
            except ValueError as e:
                fam = 'Only four working units' if case['kind'] == 'refuse5' else 'seed cannot be given'
                require(fam in str(e), lambda: 'reset_units refusal with an undocumented message: %r' % (e,))
                require(dict(uc.unit) == before, 'refused reset_units call changed the unit table')
                return labels | {'refusal', case['kind']}
            raise Violation('reset_units(%s%r) did not raise ValueError'
                            % ('' if case['kind'] == 'refuse5' else 'seed=%r, ' % (case['seed'],), units))
        if case.get('pre'):
            apply_cfg(uc, case['pre'])
            labels.add('after_' + case['pre']['kind'])
        if case['kind'] == 'si':
            # "seed='SI' will use SI units"
            uc.reset_units(seed='SI')
            for name in ('m', 'kg', 's', 'C', 'K', 'J', 'N', 'Pa', 'V', 'W', 'Hz'):
                require(uc.unit[name] == 1.0 and uc.parse(name) == 1.0,
                        lambda: "after reset_units(seed='SI') unit[%r] = %r" % (name, uc.unit[name]))
            require(abs(uc.unit['angstrom'] - 1e-10) <= 1e-22 and abs(uc.unit['g'] - 1e-3) <= 1e-15,
                    lambda: "after reset_units(seed='SI') angstrom = %r, g = %r" % (uc.unit['angstrom'], uc.unit['g']))
            return labels | {'si', 'nt'}
        if case['kind'] == 'seed':
            # a seed determines the working units; the table is rebuilt consistently from the new base units
            uc.reset_units(seed=int(case['seed']))
            t1 = dict(uc.unit)
            uc.reset_units(seed=int(case['other']))
            t3 = dict(uc.unit)
            uc.reset_units(seed=int(case['seed']))
            t2 = dict(uc.unit)
            require(t1 == t2, lambda: 'reset_units(seed=%d) gave two different unit tables' % case['seed'])
            require(any(t1[b] != t3[b] for b in ('m', 'kg', 's', 'C', 'K')),
                    lambda: 'reset_units with seeds %d and %d gave the same base units' % (case['seed'], case['other']))
            for t in (t1, t3):
                e = t['kg'] * t['m'] ** 2 / t['s'] ** 2
                require(abs(t['J'] - e) <= 1e-13 * e and abs(t['angstrom'] - 1e-10 * t['m']) <= 1e-23 * t['m'],
                        lambda: 'unit table not rebuilt from the base units of seed %d: J = %r, kg*m^2/s^2 = %r' % (case['seed'], t['J'], e))
            return labels | {'seed', 'nt'}
        # the keywords are passed in every order (orders[0] is length, mass, time, energy, charge; orders[-1] its reverse)
        orders = case.get('orders') or [[q for q in g9.QUANT if q in units]]
        blocked = {'mass', 'time', 'energy'} <= set(units) and 'length' not in units
        if blocked:
            labels.add('mass_time_energy')
        uc.reset_units(**_ordered(units, orders[0]))
        _chosen_are_one(uc, units, orders[0], blocked)
        # the table is a function of the choice only ("the specified working units and SI"), not of what was in force before
        t1 = dict(uc.unit)
        uc.reset_units(seed='SI')
        uc.reset_units(**_ordered(units, orders[-1]))
        _chosen_are_one(uc, units, orders[-1], blocked)
        _same_table(uc, units, orders[-1], t1, 'called after SI', 'after %r with the keywords in the order %s' % (case.get('pre'), ', '.join(orders[0])))
        # ... nor of the order in which the keywords are written
        for k, order in enumerate(orders[1:-1]):
            if k % 2 == 0 and PRE_CYCLE[(k // 2) % len(PRE_CYCLE)] is not None:
                apply_cfg(uc, PRE_CYCLE[(k // 2) % len(PRE_CYCLE)])
            uc.reset_units(**_ordered(units, order))
            _chosen_are_one(uc, units, order, blocked)
            _same_table(uc, units, order, t1, 'the keywords are given in this order', 'with the keywords in the order %s' % ', '.join(orders[0]))
        if len(orders) > 1:
            labels.add('kw_orders_%d' % len(orders))
        if any(n not in SI_ONE for n in units.values()):
            labels.add('nt')
        if 'energy' in units:
            labels.add('energy_solves_' + ('mass' if 'mass' not in units else 'time' if 'time' not in units else 'length'))
    finally:
        _restore(uc)
    return labels


# ----------------------------------------------------------------------------- history (walks through named choices)

def _u(name, x=None):
    return ['u', name, None if x is None else ['x', x]]


def _n(lit, x=None):
    return ['n', lit, None if x is None else ['x', x]]


def _g(E, x=None):
    return ['g', E, None if x is None else ['x', x]]


def _E(*a):
    fs = [_u(f) if isinstance(f, str) else f for f in a[0::2]]
    return ['E', fs, ''.join(a[1::2])]


# dimensions (m, kg, s, C, K) of battery names that are not in the table of pbt/oracles/unitexpr.py
EXTRA_DIM = {'debye': (1, 0, 0, 1, 0), 'kB': (2, 1, -2, 0, -1), 'Rgas': (2, 1, -2, 0, -1), 'F': (-2, -1, 2, 2, 0),
             'ohm': (2, 1, -1, -2, 0), 'T': (0, 1, -1, -1, 0)}
BATTERY_DIM = dict(ux.DIM, **EXTRA_DIM)

# fixed battery of compound expressions, several of every dimension class (the same strings at every step of a walk)
BATTERY = [
    # dipole moment
    _E('e', '*', 'angstrom'), _E('C', '*', 'm'), _E('debye'), _E('mC', '*', 'nm'),
    # surface charge density
    _E('C', '/', _u('m', '2')), _E('e', '/', _u('angstrom', '2')), _E('mC', '/', _u('cm', '2')),
    # pressure / energy density
    _E('eV', '/', _u('angstrom', '3')), _E('GPa'), _E('J', '/', _u('m', '3')), _E('N', '/', _u('m', '2')),
    _E('kg', '/', _g(_E('m', '*', _u('s', '2')))), _E('amu', '/', 'angstrom', '/', _u('ps', '2')),
    # energy
    _E('amu', '*', _u('angstrom', '2'), '/', _u('ps', '2')), _E('kg', '*', _u('m', '2'), '/', _u('s', '2')), _E('eV'),
    _E('e', '*', 'V'), _E('kcal', '/', 'mol'), _E('N', '*', 'm'), _E('C', '*', 'V'),
    # momentum
    _E('kg', '*', 'm', '/', 's'), _E('amu', '*', 'angstrom', '/', 'ps'), _E('N', '*', 's'),
    # electric field
    _E('V', '/', 'cm'), _E('V', '/', 'angstrom'), _E('GV', '/', 'm'), _E('N', '/', 'C'), _E('eV', '/', _g(_E('e', '*', 'angstrom'))),
    # entropy / heat capacity
    _E('J', '/', _g(_E('mol', '*', 'K'))), _E('eV', '/', 'K'), _E('kcal', '/', _g(_E('mol', '*', 'K'))), _E('kB'),
    # force
    _E('eV', '/', 'angstrom'), _E('nN'), _E('kg', '*', 'm', '/', _u('s', '2')), _E('e', '*', 'V', '/', 'nm'),
    # velocity (one with a fractional power)
    _E('angstrom', '/', 'ps'), _E('m', '/', 's'), _E(_g(_E('eV', '/', 'amu'), '0.5')), _E('c0'),
    # frequency, current
    _E(_n('1'), '/', 'ps'), _E('THz'), _E(_u('s', '-1')), _E('C', '/', 's'), _E('A'), _E('e', '/', 'fs'),
    # action, power
    _E('eV', '*', 'fs'), _E('hbar'), _E('J', '*', 's'), _E('eV', '/', 'ps'), _E('W'), _E('V', '*', 'A'),
    # mass density, surface energy
    _E('g', '/', _u('cm', '3')), _E('amu', '/', _u('angstrom', '3')), _E('mJ', '/', _u('m', '2')), _E('eV', '/', _u('angstrom', '2')),
    _E('N', '/', 'm'),
    # capacitance, resistance, magnetic flux density
    _E('C', '/', 'V'), _E(_u('e', '2'), '/', 'eV'), _E('F'), _E('V', '/', 'A'), _E('ohm'), _E('V', '*', 's', '/', _u('m', '2')), _E('T'),
]
BATTERY_TEXT = [ux.render(E) for E in BATTERY]
assert len(BATTERY) <= g9.NBATTERY and len(set(BATTERY_TEXT)) == len(BATTERY)


def _battery_pairs():
    groups = {}
    for i, E in enumerate(BATTERY):
        groups.setdefault(tuple(round(v, 9) for v in ux.dim(E, BATTERY_DIM)), []).append(i)
    pairs = []
    for idx in groups.values():
        if len(idx) < 2:
            raise HarnessError('battery expression %r has no partner of equal dimension' % BATTERY_TEXT[idx[0]])
        pairs += [(idx[k], idx[(k + 1) % len(idx)]) for k in range(len(idx))]       # a ring through the class: A->B, B->C, ..., Z->A
    return pairs, len(groups)


BATTERY_PAIRS, BATTERY_NCLASS = _battery_pairs()
ONLY = ('change_', 'drop_', 'add_')


def _next_choice(cur, step):
    """the choice after `step` from the choice `cur` in force: differs from it in exactly one quantity (or is the same choice
    for 'reorder'/'seed'/'SI'); an impossible step (adding a fifth or over-determining unit, dropping the last) changes a name"""
    op = step['op']
    if op in ('reorder', 'seed', 'SI'):
        return dict(cur), op
    q = g9.QUANT[step['q'] % len(g9.QUANT)]
    new = dict(cur)
    if op == 'add' and q not in cur and len(cur) < 4 and frozenset(cur) | {q} != g9.OVERDETERMINED:
        new[q] = g9.NAMED_MORE[q][step['name'] % len(g9.NAMED_MORE[q])]
        return new, 'add_' + q
    if op == 'drop' and q in cur and len(cur) > 1:
        del new[q]
        return new, 'drop_' + q
    if q not in cur:
        have = [p for p in g9.QUANT if p in cur]
        q = have[step['q'] % len(have)]
    names = g9.NAMED_MORE[q]
    if cur[q] in names:
        new[q] = names[(names.index(cur[q]) + 1 + step['name'] % (len(names) - 1)) % len(names)]
    else:
        new[q] = names[step['name'] % len(names)]
    return new, 'change_' + q


def _close(got, exp, tol):
    if isinstance(exp, float):           # scalar fast path (numpy.float64 is a float)
        return bool(math.isfinite(got) and abs(got - exp) <= tol * abs(exp))
    return bool(np.all(np.isfinite(got)) and np.all(np.abs(got - exp) <= tol * np.abs(exp)))


def oracle_history(case):
    uc = _uc()
    labels = set()
    x = case['x']
    xr = np.array(x, dtype=float)
    cur = dict(case['start']['units'])
    extras = [(e['ast'], ux.render(e['ast'], e['ws'])) for e in case['extra']]
    if extras:
        labels.add('extra_exprs')
    tables = {}           # choice -> unit table at its first visit
    conv0 = {}            # (A, B) -> (result at the first evaluation, description of that step)
    trail = []
    nnamed, ntrans = 0, 0
    steps = [{'op': 'start', 'mask': case['mask']}] + list(case['steps'])
    try:
        for k, step in enumerate(steps):
            op = step['op']
            if op == 'start':
                order, what = case['start'].get('order'), 'start'
            else:
                cur, what = _next_choice(cur, step)
                allo = g9.orders_of(tuple(cur))
                order = allo[step['perm'] % len(allo)]
            if op == 'seed':
                seed = int(step['name']) % (2 ** 31)
                here = 'reset_units(seed=%d)' % seed
                uc.reset_units(seed=seed)
                key = 'seed %d' % seed
            elif op == 'SI':
                here = "reset_units(seed='SI')"
                uc.reset_units(seed='SI')
                key = 'SI'
            else:
                here = 'reset_units(%s)' % _kw(cur, order)
                uc.reset_units(**_ordered(cur, order))
                key = json.dumps(cur, sort_keys=True)
                nnamed += 1
            labels.add(what)
            if what.startswith(ONLY):
                ntrans += 1
                labels.add('only_' + what.split('_')[1])
            trail.append(here)
            hist = lambda: ' [step %d of the walk %s]' % (k, ' ; '.join(trail))

            # (a) each chosen unit is one; the table is a function of the choice alone (same choice revisited, other keyword order)
            if op not in ('seed', 'SI'):
                try:
                    _chosen_are_one(uc, cur, order)
                except Violation as v:
                    raise Violation(v.detail + hist(), key=v.key)
            leaf = dict(uc.unit)
            if key in tables:
                labels.add('revisit')
                t0 = tables[key]
                for name in sorted(t0):
                    require(abs(t0[name] - leaf[name]) <= 1e-12 * abs(t0[name]),
                            lambda: '%s gives unit[%r] = %r, earlier in the same walk the same choice gave %r%s'
                            % (here, name, leaf[name], t0[name], hist()))
            else:
                tables[key] = leaf

            # (b) the battery (and the drawn expressions) against my evaluator over the CURRENT leaf values
            mask = int(step['mask'])
            val = {}
            todo = [(i, BATTERY[i], BATTERY_TEXT[i]) for i in range(len(BATTERY)) if (mask >> i) & 1]
            todo += [(-1 - j, E, t) for j, (E, t) in enumerate(extras)]
            for i, E, text in todo:
                try:
                    f = ux.evaluate(E, leaf)
                except ux.RangeSkip:
                    labels.add('range_skip_entry')
                    continue
                if not 1e-200 < f < 1e200:
                    labels.add('range_skip_entry')
                    continue
                got = uc.parse(text)
                require(isinstance(got, (float, int)) and not isinstance(got, bool) and _close(got, f, 1e-12),
                        lambda: 'after %s parse(%r) = %r, but the unit table in force gives %r%s' % (here, text, got, f, hist()))
                w = np.asarray(uc.set_in_units(x, text), dtype=float)
                require(w.shape == xr.shape and _close(w, xr * f, 1e-12),
                        lambda: 'after %s set_in_units(%r, %r) = %r, but value*factor = %r%s' % (here, x, text, w.tolist(), (xr * f).tolist(), hist()))
                o = np.asarray(uc.get_in_units(x, text), dtype=float)
                require(o.shape == xr.shape and _close(o, xr / f, 1e-12),
                        lambda: 'after %s get_in_units(%r, %r) = %r, but value/factor = %r%s' % (here, x, text, o.tolist(), (xr / f).tolist(), hist()))
                if i >= 0:
                    val[i] = f

            # (c) conversions between battery expressions of equal dimension: right now, and unchanged along the walk
            for a, b in BATTERY_PAIRS:
                if a not in val or b not in val:
                    continue
                tA, tB = BATTERY_TEXT[a], BATTERY_TEXT[b]
                r = np.asarray(uc.get_in_units(uc.set_in_units(x, tA), tB), dtype=float)
                require(r.shape == xr.shape and _close(r, xr * (val[a] / val[b]), 1e-12),
                        lambda: 'after %s converting %r from %r to %r gives %r, expected %r%s'
                        % (here, x, tA, tB, r.tolist(), (xr * (val[a] / val[b])).tolist(), hist()))
                if (a, b) in conv0:
                    r0, then = conv0[(a, b)]
                    require(_close(r, r0, 1e-10),
                            lambda: 'converting %r from %r to %r gives %r after %s but gave %r after %s%s'
                            % (x, tA, tB, r.tolist(), here, r0.tolist(), then, hist()))
                else:
                    conv0[(a, b)] = (r, here)
            if mask != -1:
                labels.add('partial_battery')
    finally:
        _restore(uc)
    if ntrans >= 1 and nnamed >= 2:
        labels.add('nt')
    labels.add('steps_%d' % min(len(steps), 8))
    return labels


# ----------------------------------------------------------------------------- lammps_dims (exhaustive)

STYLES = ('lj', 'real', 'metal', 'si', 'cgs', 'electron', 'micro', 'nano')
MECH = {                       # exponents of (m, kg, s, C, K)
    'mass': (0, 1, 0, 0, 0), 'length': (1, 0, 0, 0, 0), 'time': (0, 0, 1, 0, 0), 'energy': (2, 1, -2, 0, 0),
    'velocity': (1, 0, -1, 0, 0), 'force': (1, 1, -2, 0, 0), 'torque': (2, 1, -2, 0, 0), 'pressure': (-1, 1, -2, 0, 0),
    'dynamic viscosity': (-1, 1, -1, 0, 0), 'density': (-3, 1, 0, 0, 0), 'ang-mom': (2, 1, -1, 0, 0), 'ang-vel': (0, 0, -1, 0, 0),
    'volume': (3, 0, 0, 0, 0),
}
NSEED = 12


def lammps_enumerate(tier):
    nsets = 6 if tier == 'quick' else 24
    cases = []
    for s in range(nsets):
        seeds = [derive_seed('C09-lammps', s, j) % (2 ** 31) for j in range(NSEED)]
        for style in STYLES:
            for key in MECH:
                cases.append({'style': style, 'key': key, 'seeds': seeds})
    return cases


def oracle_lammps(case):
    uc = _uc()
    import atomman.lammps as lmp
    style, key = case['style'], case['key']
    table = lmp.style.unit(style)
    labels = {'style_' + style}
    if key not in table:
        return labels | {'absent'}
    if style == 'lj':
        require(table[key] is None, lambda: "style.unit('lj')[%r] = %r, expected None" % (key, table[key]))
        return labels | {'lj_none'}
    entry = table[key]
    require(isinstance(entry, str), lambda: "style.unit(%r)[%r] = %r is not a unit expression" % (style, key, entry))
    rows, vals = [], []
    try:
        for s in case['seeds']:
            uc.reset_units(seed=int(s))
            leaf = dict(uc.unit)
            got = float(uc.parse(entry))
            try:
                mine = ux.parse_text(entry, leaf)
            except ux.Reject as e:
                raise Violation("style.unit(%r)[%r] = %r is not a well-formed unit expression: %s" % (style, key, entry, e))
            require(_rel(got, mine) <= 1e-12, lambda: 'parse(%r) = %r but ordinary precedence gives %r' % (entry, got, mine))
            require(got > 0 and np.isfinite(got), lambda: 'parse(%r) = %r' % (entry, got))
            rows.append([np.log(leaf['m']), np.log(leaf['kg']), np.log(leaf['s']), np.log(leaf['C']), np.log(leaf['K']), 1.0])
            vals.append(np.log(got))
    finally:
        _restore(uc)
    A = np.array(rows)
    if np.linalg.cond(A) > 1e3:
        raise HarnessError('ill-conditioned seed set for the dimension regression')
    sol, res, rank, sv = np.linalg.lstsq(A, np.array(vals), rcond=None)
    resid = float(np.abs(A @ sol - np.array(vals)).max())
    require(resid <= 1e-9, lambda: "style.unit(%r)[%r] = %r is not a monomial in the base units (fit residual %.3g): value depends "
            "on the working units in a non-dimensional way" % (style, key, entry, resid))
    expd = np.array(MECH[key], dtype=float)
    require(float(np.abs(sol[:5] - expd).max()) <= 1e-6,
            lambda: "style.unit(%r)[%r] = %r has dimension exponents (m,kg,s,C,K) = %s, a %s has %s"
            % (style, key, entry, (np.round(sol[:5], 6) + 0.0).tolist(), key, expd.tolist()))
    labels.add('nt')
    if any(c in entry for c in '*/^('):
        labels.add('composite')
    return labels


# ----------------------------------------------------------------------------- forms (storage forms, ledger, caller-side edits)

KEY_NARROWF = 'C09:set_get_in_units:float16-float32-storage'
NATIVE = '<' if sys.byteorder == 'little' else '>'


def _fresh_style_tables(stylemod):
    """style -> the table style.unit(style) returns when it is the FIRST call on a freshly loaded copy of the module (one fresh
    copy per style): the reference for 'the table is a function of the style alone'.  atomman/lammps/style.py is executed into a
    new namespace; should it ever stop being self-contained, a fresh interpreter per style is used instead."""
    path = stylemod.__file__
    if path in _FRESH:
        return _FRESH[path]
    out = {}
    for name in STYLES:
        try:
            ns = {'__name__': 'c09_fresh_style_' + name, '__file__': path}
            with open(path) as fh:
                exec(compile(fh.read(), path, 'exec'), ns)
        except ImportError:
            root = os.path.abspath(os.environ.get('VERIF_REPO_ROOT', '/repo'))
            p = subprocess.run([sys.executable, '-W', 'ignore', '-c', 'import json, sys\nimport atomman.lammps as l\n'
                                'print("C09-STYLE " + json.dumps(list(l.style.unit(sys.argv[1]).items())))', name],
                               env=dict(os.environ, PYTHONPATH=root), stdout=subprocess.PIPE, stderr=subprocess.PIPE)
            line = [l for l in p.stdout.decode().splitlines() if l.startswith('C09-STYLE ')]
            if p.returncode != 0 or not line:
                raise HarnessError('no fresh-interpreter reference for style %r: %s' % (name, p.stderr.decode()[-500:]))
            out[name] = dict(json.loads(line[-1][len('C09-STYLE '):]))
            continue
        out[name] = dict(ns['unit'](name))
    _FRESH[path] = out
    return out


_FRESH = {}


def _bits(a):
    a = np.asarray(a)
    return (a.dtype.str, a.shape, a.tobytes())


class Ledger:
    """everything the judged calls handed out (arrays, numpy scalars, style tables) and every ndarray they were given, with a
    snapshot taken at return time (after the oracles judged it).  A value in working units that the caller holds must stay
    that value whatever is called, reset or overwritten afterwards: after every later step each entry is compared with its
    snapshot bit for bit; results never share memory with an argument or with each other."""

    def __init__(self):
        self.results = []        # [object, snapshot, where]
        self.inputs = []
        self.tables = []         # [dict object, snapshot dict, where]

    def add(self, obj, where):
        if isinstance(obj, np.ndarray):
            for arr, _, w in self.inputs:
                if np.shares_memory(obj, arr):
                    raise Violation('the array returned by %s shares memory with an argument (%s)' % (where, w))
            for other, _, w in self.results:
                if isinstance(other, np.ndarray) and np.shares_memory(obj, other):
                    raise Violation('the arrays returned by two calls share memory: %s / %s' % (where, w))
        self.results.append([obj, _bits(obj), where])
        return obj

    def add_input(self, arr, where):
        if isinstance(arr, np.ndarray) and not any(arr is a for a, _, _ in self.inputs):
            self.inputs.append([arr, _bits(arr), where])

    def resnap(self, obj):
        for e in self.results + self.inputs:
            if e[0] is obj:
                e[1] = _bits(obj)
        for e in self.tables:
            if e[0] is obj:
                e[1] = dict(obj)

    def add_table(self, d, where):
        self.tables.append([d, dict(d), where])

    def verify(self, after):
        for obj, snap, where in self.results:
            now = _bits(obj)
            if now != snap:
                raise Violation('%s returned %r (%s); after %s the caller\'s object holds %r (%s)'
                                % (where, np.frombuffer(snap[2], dtype=snap[0]).tolist(), snap[0], after, np.asarray(obj).tolist(), now[0]))
        for arr, snap, where in self.inputs:
            now = _bits(arr)
            if now != snap:
                raise Violation('the argument of %s was %r; after %s it is %r'
                                % (where, np.frombuffer(snap[2], dtype=snap[0]).tolist(), after, arr.tolist()))
        for d, snap, where in self.tables:
            if dict(d) != snap:
                raise Violation('the table returned by %s changed after %s: %r -> %r' % (where, after, snap, dict(d)))


def build_form(spec):
    """(the object handed to atomman, its float64 reference, labels) for a value in a storage form (gens_c09._form_value)"""
    v, dt, lay = spec['v'], spec['dt'], spec['layout']
    ref = np.array(v, dtype=float)
    labs = set()
    if dt in ('list', 'tuple') or lay == 'py':
        def conv(x):
            if isinstance(x, list):
                return tuple(conv(y) for y in x) if dt == 'tuple' else [conv(y) for y in x]
            return x
        labs.add('form_listtuple' if ref.ndim else 'form_pyscalar')
        return conv(v), ref, labs
    try:
        base = np.array(v, dtype=np.dtype(dt))
    except OverflowError as e:
        raise HarnessError('value %r does not fit dtype %s: %s' % (v, dt, e))
    if not np.array_equal(base.astype(float), ref):
        raise HarnessError('value %r is not exactly representable in dtype %s' % (v, dt))
    kind = base.dtype.kind
    if kind == 'f' and base.dtype.itemsize < 8:
        labs.add('narrow_float')
    if kind in 'iu' and (base.dtype.itemsize < 8 or kind == 'u'):
        labs.add('form_narrow_int')
    if kind == 'u':
        labs.add('form_unsigned')
    if kind == 'b':
        labs.add('form_bool')
    if base.dtype.byteorder not in ('=', '|', NATIVE):
        labs.add('form_bigendian')
    if kind in 'iu' and base.size:
        info = np.iinfo(base.dtype)
        if int(base.max()) >= info.max - 1 or (kind == 'i' and int(base.min()) <= info.min + 1):
            labs.add('dtype_limit')
    if lay == 'scalar':
        labs.add('form_npscalar')
        return base[()], ref, labs
    if lay in ('c', 'a0'):
        obj = base
    elif lay == 'ro':
        obj = base
        obj.setflags(write=False)
        labs.add('form_readonly')
    elif lay == 'strided':
        big = np.ones(base.shape[:-1] + (2 * base.shape[-1] + 1,), dtype=base.dtype)
        big[..., 1::2] = base
        obj = big[..., 1::2]
        labs.add('form_strided')
    elif lay == 'neg':
        obj = np.ascontiguousarray(base[..., ::-1])[..., ::-1]
        labs.add('form_strided')
    elif lay == 'F':
        obj = np.asfortranarray(base)
        labs.add('form_fortran')
    elif lay == 'T':
        obj = np.ascontiguousarray(base.T).T
        labs.add('form_fortran')
    else:
        raise HarnessError('bad layout %r' % (lay,))
    if not np.array_equal(obj, base) or obj.shape != base.shape:
        raise HarnessError('layout %r changed the value' % (lay,))
    return obj, ref, labs


def _scramble(arr):
    """the caller overwrites an array it owns in place: every element changes (0 -> 1, anything else -> 0)"""
    arr[...] = (arr == 0)


def _is_narrowf(obj):
    dt = getattr(obj, 'dtype', None)
    return dt is not None and dt.kind == 'f' and dt.itemsize < 8


def oracle_forms(case):
    uc = _uc()
    import atomman.lammps as lmp
    labels = set()
    ledger = Ledger()
    fresh = None
    prev_out = None
    ncalls, nheld, special = 0, 0, False
    try:
        labels.add(apply_cfg(uc, case['cfg']))
        leaf = dict(uc.unit)
        for k, step in enumerate(case['steps']):
            op = step['op']
            if op == 'reset':
                apply_cfg(uc, step['cfg'])
                leaf = dict(uc.unit)
                ledger.verify('reset_units (step %d)' % k)
                if ledger.results:
                    labels.add('ledger_across_reset')
                labels.add('reset_between')
                continue
            if op == 'style':
                name = step['style']
                if fresh is None:
                    fresh = _fresh_style_tables(lmp.style)
                d = lmp.style.unit(name)
                where = 'style.unit(%r) (step %d)' % (name, k)
                require(hasattr(d, 'items') and dict(d) == fresh[name],
                        lambda: '%s = %r, but the first call on a freshly loaded module gives %r' % (where, dict(d), fresh[name]))
                require(not any(d is t for t, _, _ in ledger.tables), lambda: '%s handed out the same table object as an earlier call' % where)
                ledger.add_table(d, where)
                if len([1 for t in ledger.tables if t[2].startswith('style.unit(%r)' % name)]) >= 2:
                    labels.add('style_recall')
                keys = list(d)
                edit = step['edit']
                if edit != 'none' and keys:
                    key = keys[step['k'] % len(keys)]
                    if edit == 'set':
                        d[key] = 'kg*m'
                    elif edit == 'del':
                        del d[key]
                    elif edit == 'clear':
                        d.clear()
                    else:
                        d['c09 extra'] = 'm'
                    ledger.resnap(d)
                    labels.add('style_edit')
                ledger.verify(where)
                ncalls += 1
                continue

            # ---- unit expression and its factor from my evaluator over the table in force
            u = step['unit']
            if u['kind'] == 'expr':
                text = ux.render(u['ast'], u['ws'])
                try:
                    f = ux.evaluate(u['ast'], leaf)
                except ux.RangeSkip:
                    labels.add('range_skip_step')
                    continue
                labels |= (ux.features(u['ast'], u['ws']) & {'near_int_exp', 'near_one_lit'})
            else:
                text, f = (None if u['kind'] == 'none' else 'scaled'), 1.0
                labels.add('unit_' + u['kind'])
            if abs(f - 1.0) <= 1e-13:
                labels.add('factor_one')
                if u['kind'] == 'expr':
                    labels.add('factor_one_expr')
            elif abs(f - 1.0) <= 1.1e-3:
                labels.add('factor_near_one')

            if op == 'lit':
                ref = np.array(step['v'], dtype=float)
                fx = f
                nz = np.abs(ref[ref != 0])
                if nz.size and not (1e-290 < float(nz.min()) * fx and float(nz.max()) * fx < 1e290):
                    labels.add('range_skip_step')
                    continue
                term = repr(step['v']) + ('' if text is None else step['sep'] + text)
                where = 'set_literal(%r) (step %d)' % (term, k)
                if text == 'scaled':
                    labels.add('range_skip_step')      # 'value scaled' is not a documented literal form
                    continue
                try:
                    got = uc.set_literal(term)
                except ValueError as e:
                    raise Violation('%s refused a well-formed "value unit" term: %r' % (where, e))
                ga = np.asarray(got, dtype=float)
                require(ga.shape == ref.shape, lambda: '%s has shape %r, the value has shape %r' % (where, ga.shape, ref.shape))
                require(bool(np.all(np.abs(ga - ref * fx) <= 1e-12 * np.abs(ref * fx))),
                        lambda: '%s = %r, expected value*factor = %r' % (where, np.asarray(got).tolist(), (ref * fx).tolist()))
                ledger.add(got, where)
                ledger.verify(where)
                labels.add('op_lit')
                if step['struct'] == 'decades' and nz.size >= 2 and float(nz.max()) >= 1e8 * float(nz.min()):
                    labels.add('decades')
                ncalls += 1
                continue

            # ---- set_in_units / get_in_units on a value in a storage form
            reused = bool(step['prev']) and isinstance(prev_out, np.ndarray) and prev_out.ndim >= 1 and bool(np.all(np.isfinite(prev_out)))
            if reused:
                value, ref, flabs = prev_out, np.array(prev_out, dtype=float), {'reuse_out'}
                struct = 'reused'
            else:
                value, ref, flabs = build_form(step['value'])
                struct = step['value']['struct']
            narrowf = _is_narrowf(value)
            key = KEY_NARROWF if narrowf else None
            if narrowf:
                flabs.add('narrow_float')
            fx = f if op == 'set' else 1.0 / f
            nz = np.abs(ref[ref != 0])
            if nz.size and not (1e-290 < float(nz.min()) * fx and float(nz.max()) * fx < 1e290):
                labels.add('range_skip_step')
                continue
            fwd, inv = (uc.set_in_units, uc.get_in_units) if op == 'set' else (uc.get_in_units, uc.set_in_units)
            where = '%s(<%s %s %r>, %r) (step %d)' % (fwd.__name__, step['value']['dt'] if not reused else 'result of the previous call',
                                                     step['value']['layout'] if not reused else '', ref.tolist(), text, k)
            ledger.add_input(value, where)
            held_list = json.dumps(step['value']['v']) if (not reused and isinstance(value, (list, tuple))) else None
            got = fwd(value, text)
            ga = np.asarray(got)
            require(ga.shape == ref.shape, lambda: '%s has shape %r, the value has shape %r' % (where, ga.shape, ref.shape))
            exp = ref * f if op == 'set' else ref / f
            gf = ga.astype(float)
            if u['kind'] != 'expr':
                require(bool(np.all(gf == ref)), lambda: '%s changed the value: %r' % (where, ga.tolist()))
            require(bool(np.all(np.isfinite(gf)) and np.all(np.abs(gf - exp) <= 1e-12 * np.abs(exp))),
                    lambda: '%s = %r (%s), expected value %s factor = %r' % (where, ga.tolist(), ga.dtype, '*' if op == 'set' else '/', exp.tolist()), key)
            # the answer does not depend on how the value is stored: the plain C-ordered float64 call (2 roundings: 4 eps)
            plain = np.asarray(fwd(np.array(ref), text), dtype=float)
            require(plain.shape == ref.shape and bool(np.all(np.abs(gf - plain) <= 4 * EPS * np.abs(plain))),
                    lambda: '%s = %r, but the same numbers as a C-ordered float64 array give %r' % (where, ga.tolist(), plain.tolist()), key)
            if ref.ndim >= 1 and nz.size >= 2 and float(nz.max()) >= 1e8 * float(nz.min()):
                # many decades in one call: every element equals its own single-value call (relative to ITS magnitude)
                labels.add('decades')
                if float(nz.max()) >= 1e16 * float(nz.min()):
                    labels.add('decades_16')
                flat, gflat = ref.reshape(-1), gf.reshape(-1)
                for i in range(flat.size):
                    one = float(fwd(float(flat[i]), text))
                    require(abs(gflat[i] - one) <= 4 * EPS * abs(one),
                            lambda: '%s: element %d is %r in the array call but %r when %r is converted alone' % (where, i, gflat[i], one, flat[i]), key)
            # and back (same expression): the identity to 4 eps
            back = inv(got, text)
            ba = np.asarray(back)
            require(ba.shape == ref.shape and bool(np.all(np.abs(ba.astype(float) - ref) <= 4 * EPS * np.abs(ref))),
                    lambda: '%s: converting the result back with %s and the same expression gives %r, not the value' % (where, inv.__name__, ba.tolist()), key)
            if held_list is not None:
                require(json.dumps(_jsonable(value)) == held_list, lambda: '%s changed the list/tuple it was given' % where)
            ledger.add(got, where)
            ledger.add(back, 'the way back of ' + where)
            ledger.verify(where)
            ncalls += 1
            labels |= flabs
            labels.add('op_' + op)
            if struct in ('near', 'halves'):
                labels.add('value_' + struct)
            if flabs - {'form_listtuple', 'form_pyscalar'}:
                special = True

            # ---- what the caller does next with what it handed in and got back
            post = step['post']
            if post in ('mut_out', 'mut_both') and isinstance(got, np.ndarray) and got.ndim >= 1 and got.size:
                require(got.flags.writeable, lambda: '%s returned a read-only array' % where)
                _scramble(got)
                ledger.resnap(got)
                labels.add('mut_out')
                ledger.verify('the caller overwrote the result of ' + where)
            if post in ('mut_in', 'mut_both') and isinstance(value, np.ndarray) and value.ndim >= 1 and value.size and value.flags.writeable:
                if not (reused and post == 'mut_both'):
                    _scramble(value)
                    ledger.resnap(value)
                    labels.add('mut_in')
                    ledger.verify('the caller overwrote the argument of ' + where)
            prev_out = got
            if len(ledger.results) >= 4:
                nheld += 1
    finally:
        _restore(uc)
    if nheld >= 1:
        labels.add('ledger')
    labels.add('calls_%d' % min(ncalls, 4))
    if ncalls >= 2 and (special or labels & {'mut_out', 'mut_in', 'reuse_out', 'style_edit', 'ledger_across_reset', 'decades', 'factor_one_expr'}):
        labels.add('nt')
    return labels


def _jsonable(x):
    return [_jsonable(y) for y in x] if isinstance(x, (list, tuple)) else x


# ----------------------------------------------------------------------------- pairs (exhaustive): consecutive calls that touch the same state

def pairs_enumerate(tier):
    """every ordered pair of named working-unit choices (29 x 29 subsets of the quantities, names cycling through the table, plus
    the same choice with the same names), with nothing / a random seed / 'SI' in between; every ordered pair of LAMMPS unit
    styles with and without a caller-side edit of the first table in between"""
    table = g9.NAMED_QUICK if tier == 'quick' else g9.NAMED_MORE
    reps = 1 if tier == 'quick' else 3
    cases = []
    n = 0
    for rep in range(reps):
        for i, s1 in enumerate(g9.SUBSETS):
            for j, s2 in enumerate(g9.SUBSETS):
                for m, mid in enumerate((None, 'seed', 'SI')):
                    n += 1
                    u1 = {q: table[q][(n + a + rep) % len(table[q])] for a, q in enumerate(s1)}
                    u2 = {q: table[q][(n // 3 + 2 * a + rep) % len(table[q])] for a, q in enumerate(s2)}
                    o1, o2 = g9.orders_of(s1), g9.orders_of(s2)
                    cases.append({'kind': 'reset', 'first': u1, 'order1': o1[n % len(o1)], 'second': u2, 'order2': o2[(n // 2) % len(o2)],
                                  'mid': None if mid is None else ({'kind': 'seed', 'seed': 1000003 * n % (2 ** 31)} if mid == 'seed' else {'kind': 'SI'})})
                    if s1 == s2:           # the choice already in force is asked for again (other keyword order)
                        cases.append({'kind': 'reset', 'first': u1, 'order1': o1[n % len(o1)], 'second': dict(u1), 'order2': o1[(n + 1) % len(o1)],
                                      'mid': cases[-1]['mid']})
    for a in STYLES:
        for b in STYLES:
            for edit in ('none', 'set', 'del', 'clear'):
                cases.append({'kind': 'style', 'a': a, 'b': b, 'edit': edit, 'k': len(cases)})
    return cases


def oracle_pairs(case):
    uc = _uc()
    if case['kind'] == 'style':
        import atomman.lammps as lmp
        fresh = _fresh_style_tables(lmp.style)
        a, b = case['a'], case['b']
        ta = lmp.style.unit(a)
        require(dict(ta) == fresh[a], lambda: 'style.unit(%r) = %r, but the first call on a freshly loaded module gives %r' % (a, dict(ta), fresh[a]))
        snap = dict(ta)
        keys = list(ta)
        if case['edit'] != 'none':
            key = keys[case['k'] % len(keys)]
            if case['edit'] == 'set':
                ta[key] = 'kg*m'
            elif case['edit'] == 'del':
                del ta[key]
            else:
                ta.clear()
            snap = dict(ta)
        tb = lmp.style.unit(b)
        require(tb is not ta, lambda: 'style.unit(%r) handed out the table object of the earlier style.unit(%r) call' % (b, a))
        require(dict(tb) == fresh[b],
                lambda: 'style.unit(%r) called after style.unit(%r)%s = %r, but the first call on a freshly loaded module gives %r'
                % (b, a, '' if case['edit'] == 'none' else ' (whose table the caller then edited)', dict(tb), fresh[b]))
        require(dict(ta) == snap, lambda: 'the table of style.unit(%r) held by the caller changed when style.unit(%r) was called' % (a, b))
        labels = {'style_pair', 'nt'}
        if a == b:
            labels.add('style_same')
        if case['edit'] != 'none':
            labels.add('style_edit')
        return labels
    u1, u2 = case['first'], case['second']
    labels = {'reset_pair', 'n%d_n%d' % (min(len(u1), 2), min(len(u2), 2))}
    try:
        uc.reset_units(**_ordered(u1, case['order1']))
        _chosen_are_one(uc, u1, case['order1'])
        if case['mid'] is not None:
            labels.add('mid_' + case['mid']['kind'])
            apply_cfg(uc, case['mid'])
        uc.reset_units(**_ordered(u2, case['order2']))
        _chosen_are_one(uc, u2, case['order2'])
        t1 = dict(uc.unit)
        # reference: the same choice from the SI baseline, canonical keyword order
        uc.reset_units(seed='SI')
        uc.reset_units(**_ordered(u2))
        _same_table(uc, u2, None, t1, 'called from SI',
                    'after reset_units(%s)%s, keywords in the order %s' % (_kw(u1, case['order1']), '' if case['mid'] is None else
                                                                          ' and ' + repr(case['mid']), ', '.join(case['order2'])))
        if u1 == u2:
            labels.add('same_choice')
        if set(u1) != set(u2):
            labels.add('other_quantities')
        labels.add('nt')
    finally:
        _restore(uc)
    return labels


# ----------------------------------------------------------------------------- atheris campaign (byte level, optional)

FUZZ = os.path.join(VERIF, 'pbt', 'fuzz_c09.py')
DEPS = os.path.join(VERIF, '.deps')


def atheris_enumerate(tier):
    seed = int(os.environ.get('VERIF_SEED', '1') or 1)
    n, runs = (2, 15000) if tier == 'quick' else (16, 300000)
    return [{'fuzz_seed': derive_seed(seed, 'C09', 'atheris', j) % (2 ** 31 - 1) + 1, 'runs': runs,
             'units_seed': derive_seed(seed, 'C09', 'atheris-units', j) % (2 ** 31), 'corpus': j % 2 == 1} for j in range(n)]


def oracle_atheris(case):
    import shutil
    import tempfile
    root = os.path.abspath(os.environ.get('VERIF_REPO_ROOT', '/repo'))
    tmp = tempfile.mkdtemp(prefix='c09-fuzz-')
    try:
        env = dict(os.environ, PYTHONPATH=os.pathsep.join([root, VERIF, DEPS]), C09_UNITS_SEED=str(case['units_seed']))
        env.pop('C09_CORPUS_DIR', None)
        if case['corpus']:
            env['C09_CORPUS_DIR'] = os.path.join(tmp, 'corpus')
            os.mkdir(env['C09_CORPUS_DIR'])
        cmd = [sys.executable, FUZZ, '-runs=%d' % case['runs'], '-seed=%d' % case['fuzz_seed'], '-max_len=96', '-timeout=30',
               '-artifact_prefix=' + tmp + os.sep]
        p = subprocess.run(cmd, env=env, stdout=subprocess.PIPE, stderr=subprocess.STDOUT, cwd=tmp)
        out = p.stdout.decode(errors='replace')
    finally:
        shutil.rmtree(tmp, ignore_errors=True)
    if p.returncode == 77:
        return {'atheris_unavailable_hypothesis_only'}
    found = [l for l in out.splitlines() if l.startswith('C09-FUZZ-MISMATCH ')]
    if found:
        raise Violation('atheris: ' + found[0][len('C09-FUZZ-MISMATCH '):][:1500])
    if p.returncode != 0:
        raise HarnessError('fuzz_c09.py exited %d: %s' % (p.returncode, out[-800:]))
    stats = [l for l in out.splitlines() if l.startswith('C09-FUZZ-STATS ')]
    if not stats:
        raise HarnessError('fuzz_c09.py printed no statistics: %s' % out[-800:])
    st = json.loads(stats[-1][len('C09-FUZZ-STATS '):])
    if st['judged'] < 0.2 * st['inputs']:
        raise HarnessError('atheris campaign judged only %d of %d inputs' % (st['judged'], st['inputs']))
    return {'atheris', 'nt', 'corpus' if case['corpus'] else 'empty_corpus'}


# guards of the forms clause at half the observed shares (quick, seeds 1-2).  The float16/float32 storage class sits behind the
# open finding KEY_NARROWF on the unchanged tree (its cases are excluded and carry no labels there), so its guard only exists
# once that key is no longer listed open.
_FORMS_SHARE = {'nt': 0.45, 'ledger': 0.37, 'ledger_across_reset': 0.13, 'mut_in': 0.17, 'mut_out': 0.23, 'reuse_out': 0.1,
                'decades': 0.21, 'decades_16': 0.14, 'dtype_limit': 0.15, 'factor_one_expr': 0.28, 'factor_near_one': 0.15,
                'form_bigendian': 0.14, 'form_bool': 0.028, 'form_fortran': 0.11, 'form_listtuple': 0.13, 'form_narrow_int': 0.19,
                'form_npscalar': 0.12, 'form_readonly': 0.088, 'form_strided': 0.145, 'form_unsigned': 0.11, 'style_edit': 0.15,
                'style_recall': 0.046, 'value_near': 0.083, 'value_halves': 0.049, 'op_lit': 0.1, 'op_get': 0.26, 'near_one_lit': 0.19,
                'reset_between': 0.2}
if KEY_NARROWF not in load_known('C09')[0]:
    _FORMS_SHARE['narrow_float'] = 0.06     # 0.12 on the repaired tree

# the two enumerations are cheap (seconds) and run as one shard each so that they are scheduled first and are never starved by
# the wall budget when the machine is shared
CLAUSES = [
    Clause('precedence', oracle_precedence, g9.precedence_cases, quick=37000, thorough=700000,
           min_share={'nt': 0.36, 'div_then_op': 0.21, 'pow_in_product': 0.36, 'grp_product_pow': 0.12, 'paren_right_operand': 0.12,
                      'nested_paren': 0.086, 'ws_tab': 0.16, 'ws_newline': 0.16, 'ws_cr': 0.12, 'exotic_name': 0.14,
                      'lit_leading_dot': 0.035, 'neg_exp': 0.22, 'cfg_named': 0.25, 'cfg_seed': 0.16,
                      'near_int_exp': 0.11, 'near_one_lit': 0.025},
           max_share={'range_skip': 0.05},
           desc='uc.parse(rendered expression) equals my AST evaluator (parentheses, powers, then * / left to right) to 1e-12, '
                'under random / SI / named working units'),
    Clause('identity', oracle_identity, g9.identity_cases, quick=15000, thorough=200000,
           min_share={'nt': 0.29, 'near_int_exp': 0.08, 'near_one_lit': 0.02, 'mode_literal': 0.14, 'literal_list': 0.08, 'literal_nounit': 0.03, 'mode_scaled': 0.03,
                      'mode_none': 0.03, 'ndim2': 0.05, 'ndim3': 0.06, 'as_array': 0.17, 'as_tuple': 0.06},
           max_share={'range_skip': 0.05},
           desc='get_in_units(set_in_units(v,u),u) = v to 4 eps; set_in_units = v*factor; set_literal("v u") = v*factor; shapes kept; '
                'None / "scaled" units'),
    Clause('invariance', oracle_invariance, g9.invariance_cases, quick=11000, thorough=160000,
           min_share={'nt': 0.38, 'expanded': 0.12, 'distinct_cfgs_3': 0.29, 'dimensional': 0.43, 'kw_reordered': 0.2},
           max_share={'range_skip': 0.05},
           desc='same-dimension expression pairs (class substitution / expansion from my dimension table): conversion A -> B gives the '
                'same number under three working-unit configurations (1e-10)'),
    Clause('history', oracle_history, g9.history_cases, quick=1200, thorough=40000,
           min_share={'nt': 0.48, 'only_charge': 0.25, 'only_energy': 0.18, 'only_length': 0.18, 'only_mass': 0.18, 'only_time': 0.1,
                      'revisit': 0.18, 'extra_exprs': 0.3},
           desc='walks of 3-8 working-unit choices in one process, consecutive named choices differing in exactly one quantity '
                '(name changed / dropped / added; keywords in a drawn order; occasional seed, SI and same-choice steps): after every '
                'reset each chosen unit is one, a revisited choice gives the same table, a fixed battery of %d compound expressions '
                '(%d dimension classes) and the drawn expressions agree with my evaluator over the current table through parse, '
                'set_in_units and get_in_units (1e-12), and %d same-dimension conversions keep their value along the walk (1e-10)'
                % (len(BATTERY), BATTERY_NCLASS, len(BATTERY_PAIRS))),
    Clause('forms', oracle_forms, g9.forms_cases, quick=4000, thorough=80000,
           min_share=_FORMS_SHARE, max_share={'range_skip_step': 0.1},
           desc='sequences of 2-6 calls in one process: set_in_units / get_in_units / set_literal / style.unit with the value in a drawn '
                'storage form (float64, list, tuple, narrow / unsigned / big-endian / bool integer arrays up to the dtype limits, numpy '
                'scalars, read-only, strided, negative-stride, Fortran-ordered and transposed arrays; float16/float32 with exactly '
                'representable values), one magnitude per element over up to 66 decades, near-threshold values and exact halves, '
                'under a random expression, the working unit itself (factor one) or a literal 1e-13..1e-3 from one times it: value*factor '
                'to 1e-12, equal (4 eps) to the C-ordered float64 call and, over many decades, to every single-value call, identity on '
                'the way back (4 eps); every result and argument is kept in a ledger and compared bit for bit after every later call, '
                'reset_units and caller-side overwrite of arguments and results; nothing returned shares memory with an argument or '
                'another result; style tables equal the first call on a freshly loaded module whatever was called or edited before'),
    Clause('named', oracle_named, enumerate=named_enumerate, nshards=1, min_share={'nt': 0.36, 'refusal': 0.01, 'kw_orders_24': 0.2, 'kw_orders_6': 0.16},
           desc='exhaustive: every non-over-determined choice of <= 4 named working units, keywords passed in EVERY order: each '
                'chosen unit is one (1e-12) via unit[], parse and get_in_units, the table is the same after different previous '
                'configurations and for every keyword order; documented ValueError refusals'),
    Clause('pairs', oracle_pairs, enumerate=pairs_enumerate, nshards=1,
           min_share={'nt': 0.48, 'reset_pair': 0.45, 'style_pair': 0.015, 'same_choice': 0.015, 'mid_seed': 0.15, 'mid_SI': 0.15,
                      'other_quantities': 0.4, 'style_edit': 0.01},
           desc='exhaustive: every ordered pair of named working-unit choices (29 x 29 subsets of the quantities, and the same choice '
                'asked for again), with nothing / a random seed / SI in between: chosen units are one and the table equals the one '
                'reached from the SI baseline (1e-12); every ordered pair of the 8 LAMMPS unit styles, with the caller editing the '
                'first table in between: the second table equals the first call on a freshly loaded module'),
    Clause('lammps_dims', oracle_lammps, enumerate=lammps_enumerate, nshards=1, min_share={'nt': 0.38},
           desc='exhaustive: 8 styles x 13 mechanical keys: dimension exponents recovered by regression over 12 random seeds equal '
                'the dimension of the quantity (1e-6); lj entries are None'),
    Clause('atheris', oracle_atheris, enumerate=atheris_enumerate,
           desc='byte-level libFuzzer campaign on uc.parse through a grammar decoder (and raw text judged by my strict parser); '
                'falls back to Hypothesis-only when atheris cannot be imported'),
]
