"""C03 - Neighbour list lists exactly the pairs closer than the cutoff."""
import io
import os
import shutil
import tempfile

import numpy as np
from hypothesis import strategies as st

from ..core import Clause, Violation, require
from .. import gens
from .. import gens_c03 as g3
from ..oracles.nlist_ref import Rebin, periodic_distances, distance_rounding, is_small_dyadic

RULE = ("a cell (LAMMPS triangular form, lengths 1-12, tilts up to 1.5 lengths, or one of the 7 crystal families with a in 2-9; half of them rigidly "
        "rotated, half with non-zero origin), one of the 8 pbc triples, atoms inside the cell placed by one of seven "
        "placement kinds (sparse 1-6 atoms / targeted pair near opposite faces of a periodic axis / atoms on faces, edges, "
        "corners / atoms within 1e-12..1e-6 cutoff of a bin edge / jittered lattice up to 60 atoms / 40-70 atoms "
        "inside one cutoff-sized cube / dyadic orthogonal cell with one pair exactly at or 2^-20 off the cutoff), cutoff "
        "0.05-1.6 of the smallest perpendicular width, initialsize and "
        "deltasize 1-25 or default.  Non-trivial: (at least one pair is expected AND (a pair is realised only through "
        "a periodic image OR a bin holding only periodic images exists, by independent re-binning, OR a row outgrew "
        "initialsize OR a bin received 40 or more entries)) OR a pair lies exactly at the cutoff in exact arithmetic; sizes: a row outgrew the drawn initialsize; file/api: at "
        "least one pair is expected")
ASSUMPTIONS = ["numpy is correct",
               "the periodic distance 'in the sense of C02' is the shortest of the 27 (9/3/1) candidates with shifts "
               "-1,0,+1 per periodic direction (what C02 states for dmag), computed here by an independent numpy loop",
               "pairs whose distance is within 1e-9*cutoff (+ rounding of the coordinates) of the cutoff are exempt, except in "
               "the dyadic sub-generator where squared distances and cutoff^2 are exact and '<' is decided exactly",
               "atoms placed at relative coordinate 0 or 1 count as inside the cell (inside to rounding, 1e-9 relative)",
               "Box and Atoms store the numbers they are given (C01, C06); the cell and positions are read back from "
               "the System as data for the reference computation"]
LEVEL_TEXT = ("Randomised exploration of cells x pbc x atom placements x cutoffs x storage sizes (about 20 000 systems "
              "quick, 480 000 thorough); every list is compared entry by entry with an independent O(N^2 * 27) "
              "reference; sizes / file / API variants are compared with each other.")
TECHNIQUE = "independent all-pairs 27-image reference; independent re-binning to classify cases and key the ghost-only-bin loss; differential comparison across storage sizes, file round trip and entry points"
WALL = {'quick': 55, 'thorough': 560}

KEY_GHOST = 'C03:lost-pair:adjacent-only-through-ghost-only-bin'
INSIDE_TOL = 1e-9


# ----------------------------------------------------------------------------- building and reading

def size_kwargs(case):
    kw = {}
    if case.get('initialsize') is not None:
        kw['initialsize'] = int(case['initialsize'])
    if case.get('deltasize') is not None:
        kw['deltasize'] = int(case['deltasize'])
    return kw


def build_system(case):
    """returns (system, pos, V, o, pbc) where pos/V/o are the numbers the System holds (read back as data)"""
    import atomman as am
    c = case['cell']
    V0, o0 = gens.cell_vects(c), gens.cell_origin(c)
    pos0 = np.array(case['pos'], dtype=float).reshape(-1, 3)
    s = (pos0 - o0) @ np.linalg.inv(V0)
    # domain of the property: all atoms inside the cell (generator bug otherwise -> harness error)
    assert s.min() >= -INSIDE_TOL and s.max() <= 1 + INSIDE_TOL, 'generator produced an atom outside the cell'
    system = am.System(atoms=am.Atoms(pos=pos0.copy()), box=am.Box(vects=V0.copy(), origin=o0.copy()),
                       pbc=list(case['pbc']))
    pos = np.array(system.atoms.pos, dtype=float)
    V = np.array(system.box.vects, dtype=float)
    o = np.array(system.box.origin, dtype=float)
    vmax = np.abs(V0).max()
    require(pos.shape == pos0.shape and np.array_equal(pos, pos0), 'System does not hold the positions it was given')
    require(np.abs(V - V0).max() <= 1e-9 * vmax and np.abs(o - o0).max() == 0.0, 'System does not hold the cell it was given')
    return system, pos, V, o, [bool(p) for p in case['pbc']]


def read_lists(nl, N, what='NeighborList'):
    """structure of a NeighborList: coord = nlist[:,0] = len(list), entries valid, strictly ascending, no self entry.
    Returns the lists as python lists of int."""
    coord = np.asarray(nl.coord)
    arr = np.asarray(nl.nlist)
    require(len(nl) == N, lambda: '%s: len() = %r for %d atoms' % (what, len(nl), N))
    require(coord.shape == (N,) and arr.ndim == 2 and arr.shape[0] == N and arr.shape[1] >= 1,
            lambda: '%s: coord shape %r, nlist shape %r for %d atoms' % (what, coord.shape, arr.shape, N))
    require(coord.dtype.kind in 'iu' and arr.dtype.kind in 'iu', lambda: '%s: non-integer dtype %r/%r' % (what, coord.dtype, arr.dtype))
    require(np.array_equal(arr[:, 0], coord), lambda: '%s: coord %r differs from first column of nlist %r' % (what, coord.tolist(), arr[:, 0].tolist()))
    require(coord.min() >= 0 and coord.max() <= arr.shape[1] - 1,
            lambda: '%s: coordination %r outside [0, %d]' % (what, coord.tolist(), arr.shape[1] - 1))
    rows = []
    for i in range(N):
        row = np.asarray(nl[i])
        require(row.ndim == 1 and len(row) == int(coord[i]),
                lambda: '%s: atom %d: coord = %d but list has %d entries' % (what, i, coord[i], len(row)))
        require(np.array_equal(row, arr[i, 1:1 + int(coord[i])]), lambda: '%s: atom %d: list differs from the stored row' % (what, i))
        r = [int(x) for x in row]
        require(all(0 <= x < N for x in r), lambda: '%s: atom %d: entry outside [0,%d): %r' % (what, i, N, r))
        require(all(r[k] < r[k + 1] for k in range(len(r) - 1)), lambda: '%s: atom %d: list not strictly ascending (unsorted or duplicate): %r' % (what, i, r))
        require(i not in r, lambda: '%s: atom %d lists itself: %r' % (what, i, r))
        rows.append(r)
    return rows


def same_lists(rows_a, rows_b, what):
    for i, (a, b) in enumerate(zip(rows_a, rows_b)):
        require(a == b, lambda: '%s: atom %d: %r versus %r' % (what, i, a, b))
    require(len(rows_a) == len(rows_b), lambda: '%s: %d versus %d atoms' % (what, len(rows_a), len(rows_b)))


def is_exact_case(case, pos, V, o, cutoff):
    """dyadic sub-generator: orthogonal cell, every number a small dyadic rational, so that every sum and square in
    a squared distance (here and in any straightforward implementation) is exact and '<' is decided exactly"""
    return bool(case.get('dyadic')) and np.count_nonzero(V - np.diag(np.diag(V))) == 0 \
        and is_small_dyadic(pos, V, o, bits=3) and is_small_dyadic(cutoff, bits=20, bound=2 ** 5)


def expected(pos, V, pbc, cutoff, exact=False):
    """(exp, near, D, D0, atcut): exp[i,j] True when j is expected in the list of i; near marks the exempt band
    (empty in exact mode); atcut marks pairs whose distance equals the cutoff exactly (exact mode only)"""
    D, D0, L2 = periodic_distances(pos, V, pbc)
    off = ~np.eye(len(pos), dtype=bool)
    if exact:
        c2 = cutoff * cutoff
        return (L2 < c2) & off, np.zeros_like(off), D, D0, (L2 == c2) & off
    band = 1e-9 * cutoff + distance_rounding(pos, V)
    near = (np.abs(D - cutoff) <= band) & off
    exp = (D < cutoff) & off
    return exp, near, D, D0, np.zeros_like(off)


def case_labels(case, pos, V, o, pbc, cutoff, exp, near, D0, rb, maxcoord, atcut=None, exact=False):
    c = case['cell']
    labels = gens.cell_labels(c)
    labels.add('kind_' + case.get('kind', 'unknown'))
    npb = sum(pbc)
    labels.add({0: 'pbc_none', 3: 'pbc_all'}.get(npb, 'pbc_mixed'))
    N = len(pos)
    if N == 1:
        labels.add('single_atom')
    w = g3.widths(V)
    if cutoff > w.min():
        labels.add('cutoff_gt_width')
    if any(pbc[k] and cutoff > np.linalg.norm(V[k]) for k in range(3)):
        labels.add('own_image_within_cutoff')
    if near.any():
        labels.add('band_exempt')
    has = bool(exp.any())
    if has:
        labels.add('has_pairs')
    img = bool((exp & (D0 >= cutoff)).any())
    if img:
        labels.add('image_pair')
    if rb.ghost_only:
        labels.add('ghost_only_bin')
    isz = case.get('initialsize')
    grew = maxcoord > (20 if isz is None else isz)
    if grew:
        labels.add('grew_rows')
    if rb.max_occupancy >= 40:
        labels.add('bin_grew')
    s = (pos - o) @ np.linalg.inv(V)
    if np.any((np.abs(s) <= 1e-12) | (np.abs(s - 1) <= 1e-12)):
        labels.add('on_face')
    if N > 1 and (D0 + np.eye(N) == 0).any():
        labels.add('coincident_atoms')
    if case.get('initialsize') is not None or case.get('deltasize') is not None:
        labels.add('sizes_given')
    if exact:
        labels.add('exact_arithmetic')
    cut = atcut is not None and bool(atcut.any())
    if cut:
        labels.add('pair_exactly_at_cutoff')
    if (has and (img or rb.ghost_only or grew or rb.max_occupancy >= 40)) or cut:
        labels.add('nt')
    return labels


# ----------------------------------------------------------------------------- exact

def compare_with_reference(rows, pos, V, o, pbc, cutoff, exp, near, D, rb, what='list'):
    N = len(pos)
    got = np.zeros((N, N), dtype=bool)
    for i, r in enumerate(rows):
        got[i, r] = True
    require(np.array_equal(got, got.T), lambda: '%s not symmetric: %r' % (what, [(int(i), int(j)) for i, j in np.argwhere(got & ~got.T)][:5]))
    bad = (got != exp) & ~near
    if not bad.any():
        return
    missing = [(int(i), int(j)) for i, j in np.argwhere(bad & exp) if i < j]
    extra = [(int(i), int(j)) for i, j in np.argwhere(bad & got) if i < j]
    key = None
    note = ''
    if missing and not extra:
        # of which kind is the loss?  keyed only when EVERY missing pair is adjacent (in the independently recomputed
        # bins) solely through representations whose later bin holds no real atom
        if all(rb.sweep_finds(i, j, 'occupied') and not rb.sweep_finds(i, j, 'real') for i, j in missing):
            key = KEY_GHOST
            i, j = missing[0]
            note = ('; by independent re-binning the pair is adjacent only as: ' + rb.describe(i, j)
                    + ' -- a half-stencil sweep over bins that hold a real atom never compares them')
    raise Violation('%s: cutoff %.17g, pbc %r: missing pairs (periodic distance < cutoff, not listed) %s; '
                    'extra pairs (listed, periodic distance >= cutoff) %s%s'
                    % (what, cutoff, pbc, [(i, j, float(D[i, j])) for i, j in missing[:4]],
                       [(i, j, float(D[i, j])) for i, j in extra[:4]], note), key)


def oracle_exact(case):
    import atomman as am
    system, pos, V, o, pbc = build_system(case)
    cutoff = float(case['cutoff'])
    N = len(pos)
    nl = am.NeighborList(system=system, cutoff=cutoff, **size_kwargs(case))
    rows = read_lists(nl, N)
    exact = is_exact_case(case, pos, V, o, cutoff)
    exp, near, D, D0, atcut = expected(pos, V, pbc, cutoff, exact)
    rb = Rebin(pos, V, o, pbc, cutoff)
    compare_with_reference(rows, pos, V, o, pbc, cutoff, exp, near, D, rb)
    if not near.any():
        cnt = exp.sum(axis=1)
        require(np.array_equal(np.asarray(nl.coord), cnt), lambda: 'coord %r differs from the expected counts %r' % (nl.coord.tolist(), cnt.tolist()))
    maxcoord = max((len(r) for r in rows), default=0)
    return case_labels(case, pos, V, o, pbc, cutoff, exp, near, D0, rb, maxcoord, atcut, exact)


# ----------------------------------------------------------------------------- sizes

_sz = st.one_of(st.integers(1, 25), st.integers(1, 3))
_sizes_kinds = st.sampled_from(['dense', 'dense', 'dense', 'cluster', 'faces', 'sparse', 'binedge'])


@st.composite
def sizes_cases(draw):
    case = draw(g3.systems(kind=draw(_sizes_kinds)))
    case['initialsize'] = draw(_sz)
    case['deltasize'] = draw(_sz)
    return case


def oracle_sizes(case):
    import atomman as am
    system, pos, V, o, pbc = build_system(case)
    cutoff = float(case['cutoff'])
    N = len(pos)
    isz, dsz = int(case['initialsize']), int(case['deltasize'])
    ref = read_lists(am.NeighborList(system=system, cutoff=cutoff), N, 'default sizes')
    variants = [('initialsize=%d, deltasize=%d' % (isz, dsz), dict(initialsize=isz, deltasize=dsz)),
                ('initialsize=%d' % isz, dict(initialsize=isz)),
                ('deltasize=%d' % dsz, dict(deltasize=dsz))]
    for what, kw in variants:
        nl = am.NeighborList(system=system, cutoff=cutoff, **kw)
        rows = read_lists(nl, N, what)
        same_lists(ref, rows, 'default sizes versus ' + what)
    maxcoord = max((len(r) for r in ref), default=0)
    labels = {'kind_' + case['kind']}
    if maxcoord > 0:
        labels.add('has_pairs')
    if maxcoord > isz:
        labels.update({'grew_rows', 'nt'})
        if maxcoord > isz + dsz:
            labels.add('grew_twice')
    if maxcoord > 20:
        labels.add('default_grew')
    if isz == 1 or dsz == 1:
        labels.add('size_one')
    return labels


# ----------------------------------------------------------------------------- file

def oracle_file(case):
    import atomman as am
    system, pos, V, o, pbc = build_system(case)
    cutoff = float(case['cutoff'])
    N = len(pos)
    nl = am.NeighborList(system=system, cutoff=cutoff, **size_kwargs(case))
    rows = read_lists(nl, N)
    tmp = tempfile.mkdtemp(prefix='c03-')
    try:
        path = os.path.join(tmp, 'nlist.txt')
        nl.dump(path)
        with open(path) as fh:
            text = fh.read()
        back = am.NeighborList(model=path)
        same_lists(rows, read_lists(back, N, 'read back from path'), 'built versus read back from file path')
        with open(path, 'rb') as fh:
            back2 = am.NeighborList(model=fh)
        same_lists(rows, read_lists(back2, N, 'read back from stream'), 'built versus read back from open binary stream')
        back3 = am.NeighborList(model=io.BytesIO(text.encode()))
        same_lists(rows, read_lists(back3, N, 'read back from BytesIO'), 'built versus read back from BytesIO')
        back4 = am.NeighborList(model=text)
        same_lists(rows, read_lists(back4, N, 'read back from content'), 'built versus read back from file content string')
        require(np.array_equal(np.asarray(back.coord), np.asarray(nl.coord)), 'coord changed by the file round trip')
        # second generation: dump of the loaded list is the same text
        path2 = os.path.join(tmp, 'nlist2.txt')
        back.dump(path2)
        with open(path2) as fh:
            require(fh.read() == text, 'dump of the read-back list differs from the first dump')
    finally:
        shutil.rmtree(tmp, ignore_errors=True)
    maxcoord = max((len(r) for r in rows), default=0)
    labels = {'kind_' + case['kind']}
    if maxcoord > 0:
        labels.update({'has_pairs', 'nt'})
    if min((len(r) for r in rows), default=0) == 0:
        labels.add('has_empty_row')
    if maxcoord == 0:
        labels.add('all_empty')
    if len({len(r) for r in rows}) > 1:
        labels.add('ragged')
    if N >= 11:
        labels.add('two_digit_ids')
    return labels


# ----------------------------------------------------------------------------- api

_via = st.sampled_from(['method', 'function', 'build'])


@st.composite
def api_cases(draw):
    case = draw(g3.systems())
    case['via'] = draw(_via)
    return case


def oracle_api(case):
    import atomman as am
    system, pos, V, o, pbc = build_system(case)
    cutoff = float(case['cutoff'])
    N = len(pos)
    kw = size_kwargs(case)
    nl = am.NeighborList(system=system, cutoff=cutoff, **kw)
    rows = read_lists(nl, N)
    via = case['via']
    if via == 'method':
        other = system.neighborlist(cutoff=cutoff, **kw)
        require(isinstance(other, am.NeighborList), lambda: 'System.neighborlist returned %r' % type(other))
        orows = read_lists(other, N, 'System.neighborlist')
    elif via == 'function':
        arr = np.asarray(am.nlist(system, cutoff, **kw))
        require(arr.ndim == 2 and arr.shape[0] == N, lambda: 'nlist() returned shape %r' % (arr.shape,))
        orows = [[int(x) for x in arr[i, 1:1 + int(arr[i, 0])]] for i in range(N)]
        # columns beyond the coordination number are uninitialised storage: only shape and used part are compared
        require(arr.shape == np.asarray(nl.nlist).shape, lambda: 'nlist() array shape %r differs from NeighborList.nlist %r' % (arr.shape, np.asarray(nl.nlist).shape))
        require(np.array_equal(arr[:, 0], np.asarray(nl.coord)), 'first column of nlist() differs from NeighborList.coord')
    else:
        # build() on an existing object (here: one holding the list of a different cutoff) replaces its content
        other = am.NeighborList(system=system, cutoff=0.5 * cutoff)
        other.build(system, cutoff, **kw)
        orows = read_lists(other, N, 'NeighborList.build')
    same_lists(rows, orows, 'NeighborList(system=, cutoff=) versus ' + via)
    # the system is left as it was
    require(np.array_equal(np.asarray(system.atoms.pos), pos) and np.array_equal(np.asarray(system.box.vects), V)
            and list(system.pbc) == pbc, 'building a neighbour list changed the system')
    labels = {'kind_' + case['kind'], 'via_' + via}
    if any(rows):
        labels.update({'has_pairs', 'nt'})
    return labels


CLAUSES = [
    Clause('exact', oracle_exact, g3.systems, quick=13000, thorough=360000,
           min_share={'nt': 0.3, 'has_pairs': 0.3, 'ghost_only_bin': 0.35, 'image_pair': 0.15, 'grew_rows': 0.08,
                      'bin_grew': 0.025, 'pair_exactly_at_cutoff': 0.012, 'pbc_mixed': 0.3, 'rotated': 0.18,
                      'tilted': 0.2, 'cutoff_gt_width': 0.04, 'own_image_within_cutoff': 0.015, 'kind_targeted': 0.1,
                      'kind_binedge': 0.07, 'on_face': 0.2},
           desc='every list equals the independent reference {j != i : shortest of the 27 candidates < cutoff}; strictly '
                'ascending, no self entry, symmetric, coord = length = first column'),
    Clause('sizes', oracle_sizes, sizes_cases, quick=2600, thorough=60000,
           min_share={'nt': 0.15, 'grew_twice': 0.1, 'size_one': 0.2},
           desc='identical lists for default and drawn initialsize/deltasize (both, and each alone)'),
    Clause('file', oracle_file, g3.systems, quick=2200, thorough=40000,
           min_share={'nt': 0.3, 'ragged': 0.15, 'has_empty_row': 0.25, 'two_digit_ids': 0.08},
           desc='dump then NeighborList(model=path | open binary stream | BytesIO | content string): identical lists; second dump identical text'),
    Clause('api', oracle_api, api_cases, quick=2000, thorough=24000,
           min_share={'nt': 0.28, 'via_function': 0.12, 'via_build': 0.1},
           desc='System.neighborlist, nlist(), NeighborList.build give the same lists as NeighborList(system=, cutoff=); system untouched'),
]
