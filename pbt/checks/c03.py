"""C03 - Neighbour list lists exactly the pairs closer than the cutoff."""
import io
import os
import shutil
import tempfile

import numpy as np
from hypothesis import strategies as st

from ..core import Clause, Violation, require
from .. import gens
from .. import gens_c03 as g3
from ..oracles.nlist_ref import Rebin, periodic_distances, distance_rounding, is_small_dyadic

RULE = ("a cell (LAMMPS triangular form, lengths 1-12, tilts up to 1.5 lengths, or one of the 7 crystal families with a in 2-9; half of them rigidly "
        "rotated, half with non-zero origin; about 1 in 4 acted on exactly by a signed permutation of the Cartesian axes, a renaming and a reversal of "
        "cell vectors: lower-triangular cells with negative diagonal entries, upper-triangular, axis-permuted and left-handed cells), one of the 8 pbc triples, atoms inside the cell placed by one of eight "
        "placement kinds (near: pairs 1e-12..5e-3 (relative) off the cutoff, almost coincident atoms, atoms almost on a face with a partner across it, in cells "
        "with tilts / length differences of the same tiny sizes - one system holds separations over 8+ decades; sparse 1-6 atoms / targeted pair near opposite faces of a periodic axis / atoms on faces, edges, "
        "corners / atoms within 1e-12..1e-6 cutoff of a bin edge / jittered lattice up to 60 atoms / 40-70 atoms "
        "inside one cutoff-sized cube / dyadic orthogonal cell with one pair exactly at or 2^-20 off the cutoff), cutoff "
        "0.05-1.6 of the smallest perpendicular width, initialsize and "
        "deltasize 1-25 or default; every number is handed over in one of its documented forms (positions: float64 array / "
        "read-only array (setflags, frombuffer, memmap) / Fortran-ordered / strided view / list / tuple, dyadic systems also "
        "float32 and - when all positions are whole numbers - integer-typed array / list / tuple; every kind also big-endian float64 and, where "
        "the numbers are held exactly, float16 / big-endian float32 / int8 .. uint64 / big-endian integers / bool; cutoff float / numpy.float64 / "
        "int / numpy.longdouble / float32 / float16 / int8 .. uint64 scalars where exact; sizes int / numpy ints of every width, signed and unsigned; "
        "pbc list / tuple / bool array).  LENGTH UNIT: the whole geometric input of a system (cell vectors, origin, positions, cutoff) is "
        "expressed in a unit 10^k times the angstrom-like one, k in -12..+6 (1e-10 = SI metres favoured, exactly 1 in about half of the systems; "
        "the dyadic kind uses powers of two 2^-40..2^30, 2^-33 favoured, so that its arithmetic stays exact); the two systems of a history draw "
        "their units independently (one object is handed an angstrom-scale and a metre-scale system in turn).  history: ONE NeighborList object (created by the "
        "constructor, System.neighborlist or from a file) goes through 1-4 steps - build() for the same or another system, "
        "cutoff and sizes / load() of another list's file (path, stream, BytesIO, content) / dump-and-load of itself / in-place "
        "edit of the system (pbc setter, positions rolled, an atom moved onto another, whole-property assignment) followed by "
        "build() - read in varying orders or not at all between the steps, and is judged against the reference after every "
        "step; a second list built at the start must still read the same at the end.  ledger: 3-7 calls (nlist(), NeighborList(), System.neighborlist(), "
        "objects left unread, lists read from the dump of another, build() on an existing object, the same call again) on two systems, interleaved with the "
        "caller overwriting what it handed in (position array given to Atoms, arrays given to Box, pbc object, the setters) and what it was handed (array of "
        "nlist(), arrays behind an object); every result is judged when first read and compared bit for bit with a copy after every later step.  combos: "
        "enumerated creation routes x operation sequences on one object, and pairs of routes x caller-side operations on two results, on three fixed systems.  Non-trivial: (at least one pair is expected AND (a pair is realised only through "
        "a periodic image OR a bin holding only periodic images exists, by independent re-binning, OR a row outgrew "
        "initialsize OR a bin received 40 or more entries)) OR a pair lies exactly at the cutoff in exact arithmetic; sizes: a row outgrew the drawn initialsize; file/api: at "
        "least one pair is expected; history: a step on an object that had been read replaced its lists by different ones; "
        "ledger: at least two results were re-verified after a later call and one of them has a pair")
ASSUMPTIONS = ["numpy is correct",
               "the periodic distance 'in the sense of C02' is the shortest of the 27 (9/3/1) candidates with shifts "
               "-1,0,+1 per periodic direction (what C02 states for dmag), computed here by an independent numpy loop",
               "pairs whose distance is within 1e-9*cutoff (+ rounding of the coordinates) of the cutoff are exempt, except in "
               "the dyadic sub-generator where squared distances and cutoff^2 are exact and '<' is decided exactly",
               "atoms placed at relative coordinate 0 or 1 count as inside the cell (inside to rounding, 1e-9 relative)",
               "every tolerance of the oracle is relative to the cutoff / the size of the cell and its coordinates (exempt band 1e-9*cutoff + 64 ulp of "
               "the largest coordinate, inside-the-cell test and face labels in relative coordinates), none is a length in working units; a power-of-two "
               "change of the length unit changes no rounding decision (no underflow: squares are above 1e-30)",
               "Box and Atoms store the numbers they are given (C01, C06); the cell and positions are read back from "
               "the System as data for the reference computation",
               "ledger: of an array of coordination numbers + neighbours only the documented part (first column, the first coord entries of a row) "
               "is compared; the arrays a NeighborList's properties handed out leave the ledger when build() / load() is called on that object "
               "('the underlying array': whether they follow is not stated); after the caller overwrote in place an object it had handed to "
               "Atoms / System, what the system then holds is read back as data (C06's matter), the box must be unchanged",
               "a left-handed cell (three independent vectors in any order / direction) is a cell: nothing in Box, System or nlist restricts the handedness"]
LEVEL_TEXT = ("Randomised exploration of cells x pbc x atom placements x cutoffs x storage sizes x input forms x length units (1e-12..1e6 of the angstrom-like one) (about 20 000 systems "
              "quick, 480 000 thorough); every list is compared entry by entry with an independent O(N^2 * 27) "
              "reference; sizes / file / API variants are compared with each other; histories of build / load / in-place "
              "system edits on one NeighborList object are judged by the same reference after every step; a ledger of everything handed out for two systems "
              "is re-verified bit for bit after every later call and every caller-side overwrite (about 1 100 quick / 30 000 thorough ledgers); creation route x "
              "operation pairs (thorough: triples) and route pairs x caller operations are enumerated (2 030 / 4 820 cases).  Near-threshold pairs "
              "(2e-9 .. 5e-3 relative off the cutoff), exact symmetry images of the cells and narrow / unsigned / big-endian storage dtypes are part of every clause.")
TECHNIQUE = "independent all-pairs 27-image reference; independent re-binning to classify cases and key the ghost-only-bin loss; differential comparison across storage sizes, file round trip and entry points; result ledger with caller-side overwrites; enumerated route / operation combinations"
WALL = {'quick': 55, 'thorough': 560}

KEY_GHOST = 'C03:lost-pair:adjacent-only-through-ghost-only-bin'
KEY_DTYPE = 'C03:nlist:positions-not-stored-as-float64'
KEY_METHOD_MODEL = 'C03:System.neighborlist:model'
INSIDE_TOL = 1e-9


# ----------------------------------------------------------------------------- building and reading

_INTS = {'int': int, 'npint64': np.int64, 'npint32': np.int32, 'npint8': np.int8, 'npuint8': np.uint8, 'npint16': np.int16,
         'npuint16': np.uint16, 'npuint32': np.uint32, 'npuint64': np.uint64}
READONLY_FORMS = ('readonly', 'frombuffer', 'memmap')
INT_FORMS = ('intarray', 'intlist', 'inttuple')


def form_of(case, what, default):
    return (case.get('form') or {}).get(what, default)


def size_kwargs(case):
    conv = _INTS[form_of(case, 'sizes', 'int')]
    kw = {}
    if case.get('initialsize') is not None:
        kw['initialsize'] = conv(case['initialsize'])
    if case.get('deltasize') is not None:
        kw['deltasize'] = conv(case['deltasize'])
    return kw


def spell_cutoff(case, cutoff):
    """the cutoff in the form the case asks for (int forms apply to whole values only)"""
    f = form_of(case, 'cutoff', 'float')
    cutoff = float(cutoff)
    if f in ('int', 'npint') and cutoff == np.rint(cutoff):
        return int(cutoff) if f == 'int' else np.int64(int(cutoff))
    if f == 'npfloat':
        return np.float64(cutoff)
    if f == 'narrow':
        # a numpy scalar of another type that holds the value exactly (numpy.longdouble always does)
        t = g3.narrow_cut_type(cutoff, (case.get('form') or {}).get('narrow', 0))
        v = getattr(np, t)(int(cutoff)) if np.dtype(t).kind in 'iu' else getattr(np, t)(cutoff)
        assert float(v) == cutoff, 'narrow cutoff type %s does not hold %r' % (t, cutoff)
        return v
    return cutoff


def spell_pbc(case, pbc):
    f = form_of(case, 'pbc', 'list')
    pbc = [bool(p) for p in pbc]
    return tuple(pbc) if f == 'tuple' else np.array(pbc, dtype=bool) if f == 'nparray' else pbc


def spell_pos(pos0, form, narrow=0):
    """the positions in the form the case asks for; every form holds exactly the numbers of pos0"""
    if form == 'narrow':
        dt = g3.narrow_pos_dtype(pos0, narrow)
        with np.errstate(over='ignore', under='ignore', invalid='ignore'):
            a = pos0.astype(dt)
        assert np.array_equal(a.astype(np.float64), pos0), 'narrow dtype %s does not hold the positions' % dt
        return a
    if form == 'array':
        return pos0.copy()
    if form == 'readonly':
        a = pos0.copy()
        a.setflags(write=False)
        return a
    if form == 'frombuffer':
        return np.frombuffer(pos0.tobytes(), dtype=np.float64).reshape(pos0.shape)
    if form == 'memmap':
        tmp = tempfile.mkdtemp(prefix='c03-')
        try:
            path = os.path.join(tmp, 'pos.npy')
            np.save(path, pos0)
            return np.load(path, mmap_mode='r')          # the mapping outlives the directory entry
        finally:
            shutil.rmtree(tmp, ignore_errors=True)
    if form == 'fortran':
        return np.asfortranarray(pos0)
    if form == 'strided':
        big = np.full((2 * len(pos0) + 1, 7), np.nan)
        big[1::2, 1::2] = pos0
        return big[1::2, 1::2]
    if form == 'list':
        return pos0.tolist()
    if form == 'tuple':
        return tuple(tuple(r) for r in pos0.tolist())
    if form == 'float32':
        a = pos0.astype(np.float32)
        assert np.array_equal(a.astype(float), pos0), 'generator asked for float32 positions that are not exact in float32'
        return a
    if form in INT_FORMS:
        a = np.rint(pos0).astype(np.int64)
        assert np.array_equal(a.astype(float), pos0), 'generator asked for integer-typed positions that are not whole'
        return a if form == 'intarray' else a.tolist() if form == 'intlist' else tuple(tuple(r) for r in a.tolist())
    raise AssertionError('unknown position form %r' % (form,))


def length_scale(case):
    """the overall length unit of a system (cell vectors, origin, positions, cutoff are all expressed in it)"""
    return float((case.get('cell') or {}).get('scale', 1.0))


def scale_labels(case):
    ls = length_scale(case)
    if ls == 1.0:
        return {'scale_1'}
    labels = {'scaled', 'scale_small' if ls < 1.0 else 'scale_large'}
    if 0.5e-10 <= ls <= 2e-10:
        labels.add('scale_1e-10')            # SI metres (10^-10, or 2^-33 for the dyadic kind)
    if ls <= 1e-8:
        labels.add('scale_le_1e-8')          # at and below numpy's default absolute tolerance
    return labels


def form_labels(case, system):
    f = case.get('form') or {}
    pf = f.get('pos', 'array')
    labels = {'pos_' + pf} | scale_labels(case)
    if pf == 'narrow':
        dt = np.dtype(g3.narrow_pos_dtype(np.array(case['pos'], dtype=float).reshape(-1, 3), f.get('narrow', 0)))
        if dt.byteorder == '>':
            labels.add('pos_bigendian')
        if dt.kind in 'iub':
            labels.add('pos_narrow_int')
            if dt.kind == 'u':
                labels.add('pos_unsigned')
        elif dt.itemsize < 8:
            labels.add('pos_narrow_float')
    if f.get('cutoff') == 'narrow':
        labels.add('cutoff_narrow_int' if np.dtype(g3.narrow_cut_type(float(case['cutoff']), f.get('narrow', 0))).kind in 'iu'
                   else 'cutoff_narrow_float')
    if f.get('sizes', 'int') not in ('int', 'npint64', 'npint32') and (case.get('initialsize') is not None or case.get('deltasize') is not None):
        labels.add('sizes_narrow_int')
    stored = np.asarray(system.atoms.pos)
    if not stored.flags['WRITEABLE']:
        labels.add('pos_readonly_stored')
    if not stored.flags['C_CONTIGUOUS']:
        labels.add('pos_noncontiguous_stored')
    if pf in ('list', 'tuple', 'intlist', 'inttuple'):
        labels.add('pos_sequence')
    if stored.dtype.kind in 'iu':
        labels.add('pos_int_stored')
    if stored.dtype != np.float64:
        labels.add('pos_not_float64_stored')
    if f.get('cutoff', 'float') != 'float':
        labels.add('cutoff_' + f['cutoff'])
    if f.get('sizes', 'int') != 'int' and (case.get('initialsize') is not None or case.get('deltasize') is not None):
        labels.add('sizes_numpy_int')
    if f.get('pbc', 'list') != 'list':
        labels.add('pbc_' + f['pbc'])
    return labels


def keyed(system, fn):
    """fn() builds a neighbour list for system.  KNOWN FINDING on the unchanged code: positions that Atoms stores with
    a dtype other than float64 (whole numbers handed over integer-typed, float32 arrays - both 'list/ndarray of float'
    in the words of the Atoms docstring, and dvect/dmag/wrap/supersize/rotate/dump all work with them) make nlist raise
    ValueError('Buffer dtype mismatch ...') from its typed memoryview.  Keyed for exactly that class and message;
    everything else propagates."""
    try:
        return fn()
    except ValueError as e:
        dt = np.asarray(system.atoms.pos).dtype
        if dt != np.float64 and str(e).startswith('Buffer dtype mismatch'):
            raise Violation('positions stored as %s (whole numbers handed over integer-typed, or a float32 array): the neighbour '
                            'list cannot be built: ValueError(%s)' % (dt, e), KEY_DTYPE)
        raise


def method_model(system, model):
    """System.neighborlist(model=...), documented there ('model : str or file-like object, optional.  Gives the file path
    or content to load.  If given, no other parameters are allowed').  KNOWN FINDING on the unchanged code: the method
    adds system= to the keywords it forwards and NeighborList.load does not take it -> TypeError; keyed for that message."""
    try:
        return system.neighborlist(model=model)
    except TypeError as e:
        if "unexpected keyword argument 'system'" in str(e):
            raise Violation('System.neighborlist(model=<file>) raises TypeError(%s)' % e, KEY_METHOD_MODEL)
        raise


def build_system(case):
    """returns (system, pos, V, o, pbc) where pos/V/o are the numbers the System holds (read back as data)"""
    return build_system2(case)[:5]


def build_system2(case):
    """build_system plus the caller's side of the hand-over: (..., handed) with handed = {'pos': the object given to Atoms,
    'vects' / 'origin': the arrays given to Box, 'pbc': the object given to System}"""
    import atomman as am
    c = case['cell']
    V0, o0 = g3.cell_vects3(c), g3.cell_origin3(c)
    pos0 = np.array(case['pos'], dtype=float).reshape(-1, 3)
    s = (pos0 - o0) @ np.linalg.inv(V0)
    # domain of the property: all atoms inside the cell (generator bug otherwise -> harness error)
    assert s.min() >= -INSIDE_TOL and s.max() <= 1 + INSIDE_TOL, 'generator produced an atom outside the cell'
    handed = {'pos': spell_pos(pos0, form_of(case, 'pos', 'array'), form_of(case, 'narrow', 0)), 'vects': V0.copy(), 'origin': o0.copy(),
              'pbc': spell_pbc(case, case['pbc'])}
    system = am.System(atoms=am.Atoms(pos=handed['pos']), box=am.Box(vects=handed['vects'], origin=handed['origin']), pbc=handed['pbc'])
    pos = np.array(system.atoms.pos, dtype=float)
    V = np.array(system.box.vects, dtype=float)
    o = np.array(system.box.origin, dtype=float)
    vmax = np.abs(V0).max()
    require(pos.shape == pos0.shape and np.array_equal(pos, pos0), 'System does not hold the positions it was given')
    require(np.abs(V - V0).max() <= 1e-9 * vmax and np.abs(o - o0).max() == 0.0, 'System does not hold the cell it was given')
    return system, pos, V, o, [bool(p) for p in case['pbc']], handed


def read_lists(nl, N, what='NeighborList'):
    """structure of a NeighborList: coord = nlist[:,0] = len(list), entries valid, strictly ascending, no self entry.
    Returns the lists as python lists of int."""
    coord = np.asarray(nl.coord)
    arr = np.asarray(nl.nlist)
    require(len(nl) == N, lambda: '%s: len() = %r for %d atoms' % (what, len(nl), N))
    require(coord.shape == (N,) and arr.ndim == 2 and arr.shape[0] == N and arr.shape[1] >= 1,
            lambda: '%s: coord shape %r, nlist shape %r for %d atoms' % (what, coord.shape, arr.shape, N))
    require(coord.dtype.kind in 'iu' and arr.dtype.kind in 'iu', lambda: '%s: non-integer dtype %r/%r' % (what, coord.dtype, arr.dtype))
    require(np.array_equal(arr[:, 0], coord), lambda: '%s: coord %r differs from first column of nlist %r' % (what, coord.tolist(), arr[:, 0].tolist()))
    require(coord.min() >= 0 and coord.max() <= arr.shape[1] - 1,
            lambda: '%s: coordination %r outside [0, %d]' % (what, coord.tolist(), arr.shape[1] - 1))
    rows = []
    for i in range(N):
        row = np.asarray(nl[i])
        require(row.ndim == 1 and len(row) == int(coord[i]),
                lambda: '%s: atom %d: coord = %d but list has %d entries' % (what, i, coord[i], len(row)))
        require(np.array_equal(row, arr[i, 1:1 + int(coord[i])]), lambda: '%s: atom %d: list differs from the stored row' % (what, i))
        r = [int(x) for x in row]
        require(all(0 <= x < N for x in r), lambda: '%s: atom %d: entry outside [0,%d): %r' % (what, i, N, r))
        require(all(r[k] < r[k + 1] for k in range(len(r) - 1)), lambda: '%s: atom %d: list not strictly ascending (unsorted or duplicate): %r' % (what, i, r))
        require(i not in r, lambda: '%s: atom %d lists itself: %r' % (what, i, r))
        rows.append(r)
    return rows


def same_lists(rows_a, rows_b, what):
    for i, (a, b) in enumerate(zip(rows_a, rows_b)):
        require(a == b, lambda: '%s: atom %d: %r versus %r' % (what, i, a, b))
    require(len(rows_a) == len(rows_b), lambda: '%s: %d versus %d atoms' % (what, len(rows_a), len(rows_b)))


def is_exact_case(case, pos, V, o, cutoff):
    """dyadic sub-generator: orthogonal cell, every number a small dyadic rational, so that every sum and square in
    a squared distance (here and in any straightforward implementation) is exact and '<' is decided exactly"""
    sc = float(case.get('scale', 1.0))       # 1 or 8: a power-of-two rescaling changes no rounding decision
    ls = length_scale(case)                  # overall length unit: for dyadic systems a power of two, 2^-40 .. 2^30
    mant, ex = np.frexp(ls)
    if not (bool(case.get('dyadic')) and sc in (1.0, 8.0) and mant == 0.5 and -45 <= ex <= 35):
        return False
    sc = sc * ls                             # exact
    # orthogonal cell along the axes: a diagonal matrix or one of its exact images (axes / vectors renamed and reversed)
    nz = V != 0.0
    return bool(np.all(nz.sum(axis=0) == 1) and np.all(nz.sum(axis=1) == 1)) \
        and is_small_dyadic(pos / sc, V / sc, o / sc, bits=3) and is_small_dyadic(cutoff / sc, bits=20, bound=2 ** 5)


def expected(pos, V, pbc, cutoff, exact=False):
    """(exp, near, D, D0, atcut): exp[i,j] True when j is expected in the list of i; near marks the exempt band
    (empty in exact mode); atcut marks pairs whose distance equals the cutoff exactly (exact mode only)"""
    D, D0, L2 = periodic_distances(pos, V, pbc)
    off = ~np.eye(len(pos), dtype=bool)
    if exact:
        c2 = cutoff * cutoff
        return (L2 < c2) & off, np.zeros_like(off), D, D0, (L2 == c2) & off
    band = 1e-9 * cutoff + distance_rounding(pos, V)
    near = (np.abs(D - cutoff) <= band) & off
    exp = (D < cutoff) & off
    return exp, near, D, D0, np.zeros_like(off)


def case_labels(case, pos, V, o, pbc, cutoff, exp, near, D0, rb, maxcoord, atcut=None, exact=False, D=None):
    c = case['cell']
    labels = gens.cell_labels(c) | g3.sym_labels(c, V)
    if c.get('tiny'):
        labels.add('tiny_tilt')
    labels.add('kind_' + case.get('kind', 'unknown'))
    npb = sum(pbc)
    labels.add({0: 'pbc_none', 3: 'pbc_all'}.get(npb, 'pbc_mixed'))
    N = len(pos)
    if N == 1:
        labels.add('single_atom')
    w = g3.widths(V)
    if cutoff > w.min():
        labels.add('cutoff_gt_width')
    if any(pbc[k] and cutoff > np.linalg.norm(V[k]) for k in range(3)):
        labels.add('own_image_within_cutoff')
    if near.any():
        labels.add('band_exempt')
    has = bool(exp.any())
    if has:
        labels.add('has_pairs')
    img = bool((exp & (D0 >= cutoff)).any())
    if img:
        labels.add('image_pair')
    if rb.ghost_only:
        labels.add('ghost_only_bin')
    isz = case.get('initialsize')
    grew = maxcoord > (20 if isz is None else isz)
    if grew:
        labels.add('grew_rows')
    if rb.max_occupancy >= 40:
        labels.add('bin_grew')
    s = (pos - o) @ np.linalg.inv(V)
    if np.any((np.abs(s) <= 1e-12) | (np.abs(s - 1) <= 1e-12)):
        labels.add('on_face')
    # near-threshold classes (judged like everything else: the exempt band is `near`, 1e-9 * cutoff + rounding)
    face = np.minimum(np.abs(s), np.abs(s - 1))
    if np.any((face > 1e-12) & (face <= 1e-3)):
        labels.add('near_face')
        if np.any((face > 1e-12) & (face <= 1e-6)):
            labels.add('near_face_le_1e-6')
    if N > 1 and D is not None:
        off = ~np.eye(N, dtype=bool)
        gap = np.abs(D - cutoff)
        judged = off & ~near & (gap <= 1e-3 * cutoff)
        if judged.any():
            labels.add('near_cut')
            if (judged & (gap <= 1e-6 * cutoff)).any():
                labels.add('near_cut_le_1e-6')
            if (judged & (D < cutoff)).any():
                labels.add('near_cut_inside')
            if (judged & (D >= cutoff)).any():
                labels.add('near_cut_outside')
            if (judged & (D0 > D)).any():
                labels.add('near_cut_image')
        pd = D[off & (D > 0)]
        if (pd <= 1e-3 * cutoff).any():
            labels.add('near_coincident')
        if len(pd) and pd.max() >= 1e8 * pd.min():
            labels.add('decades')                # separations over 8+ orders of magnitude in one call
    if N > 1 and (D0 + np.eye(N) == 0).any():
        labels.add('coincident_atoms')
    if case.get('initialsize') is not None or case.get('deltasize') is not None:
        labels.add('sizes_given')
    if exact:
        labels.add('exact_arithmetic')
        if length_scale(case) != 1.0:
            labels.add('exact_scaled')       # the boundary '<' decided exactly in a length unit other than 1
    cut = atcut is not None and bool(atcut.any())
    if cut:
        labels.add('pair_exactly_at_cutoff')
    if (has and (img or rb.ghost_only or grew or rb.max_occupancy >= 40)) or cut:
        labels.add('nt')
    return labels


# ----------------------------------------------------------------------------- exact

def compare_with_reference(rows, pos, V, o, pbc, cutoff, exp, near, D, rb, what='list'):
    N = len(pos)
    got = np.zeros((N, N), dtype=bool)
    for i, r in enumerate(rows):
        got[i, r] = True
    require(np.array_equal(got, got.T), lambda: '%s not symmetric: %r' % (what, [(int(i), int(j)) for i, j in np.argwhere(got & ~got.T)][:5]))
    bad = (got != exp) & ~near
    if not bad.any():
        return
    missing = [(int(i), int(j)) for i, j in np.argwhere(bad & exp) if i < j]
    extra = [(int(i), int(j)) for i, j in np.argwhere(bad & got) if i < j]
    key = None
    note = ''
    if missing and not extra:
        # of which kind is the loss?  keyed only when EVERY missing pair is adjacent (in the independently recomputed
        # bins) solely through representations whose later bin holds no real atom
        if all(rb.sweep_finds(i, j, 'occupied') and not rb.sweep_finds(i, j, 'real') for i, j in missing):
            key = KEY_GHOST
            i, j = missing[0]
            note = ('; by independent re-binning the pair is adjacent only as: ' + rb.describe(i, j)
                    + ' -- a half-stencil sweep over bins that hold a real atom never compares them')
    raise Violation('%s: cutoff %.17g, pbc %r: missing pairs (periodic distance < cutoff, not listed) %s; '
                    'extra pairs (listed, periodic distance >= cutoff) %s%s'
                    % (what, cutoff, pbc, [(i, j, float(D[i, j])) for i, j in missing[:4]],
                       [(i, j, float(D[i, j])) for i, j in extra[:4]], note), key)


class LazyRebin:
    """the independent re-binning is needed only to decide of which kind a missing pair is: built on first use"""

    def __init__(self, *args):
        self._args = args
        self._rb = None

    def __getattr__(self, name):
        if self._rb is None:
            self._rb = Rebin(*self._args)
        return getattr(self._rb, name)


def oracle_exact(case):
    import atomman as am
    system, pos, V, o, pbc = build_system(case)
    cutoff = float(case['cutoff'])
    N = len(pos)
    nl = keyed(system, lambda: am.NeighborList(system=system, cutoff=spell_cutoff(case, cutoff), **size_kwargs(case)))
    rows = read_lists(nl, N)
    exact = is_exact_case(case, pos, V, o, cutoff)
    exp, near, D, D0, atcut = expected(pos, V, pbc, cutoff, exact)
    rb = Rebin(pos, V, o, pbc, cutoff)
    compare_with_reference(rows, pos, V, o, pbc, cutoff, exp, near, D, rb)
    if not near.any():
        cnt = exp.sum(axis=1)
        require(np.array_equal(np.asarray(nl.coord), cnt), lambda: 'coord %r differs from the expected counts %r' % (nl.coord.tolist(), cnt.tolist()))
    require(np.array_equal(np.asarray(system.atoms.pos, dtype=float), pos) and list(system.pbc) == pbc,
            'building a neighbour list changed the system')
    maxcoord = max((len(r) for r in rows), default=0)
    return case_labels(case, pos, V, o, pbc, cutoff, exp, near, D0, rb, maxcoord, atcut, exact, D) | form_labels(case, system)


# ----------------------------------------------------------------------------- sizes

_sz = st.one_of(st.integers(1, 25), st.integers(1, 3))
_sizes_kinds = st.sampled_from(['dense', 'dense', 'dense', 'cluster', 'faces', 'sparse', 'binedge'])


@st.composite
def sizes_cases(draw):
    case = draw(g3.systems(kind=draw(_sizes_kinds)))
    case['initialsize'] = draw(_sz)
    case['deltasize'] = draw(_sz)
    return case


def oracle_sizes(case):
    import atomman as am
    system, pos, V, o, pbc = build_system(case)
    cutoff = float(case['cutoff'])
    carg = spell_cutoff(case, cutoff)
    N = len(pos)
    conv = _INTS[form_of(case, 'sizes', 'int')]
    isz, dsz = int(case['initialsize']), int(case['deltasize'])
    ref = read_lists(keyed(system, lambda: am.NeighborList(system=system, cutoff=carg)), N, 'default sizes')
    variants = [('initialsize=%d, deltasize=%d' % (isz, dsz), dict(initialsize=conv(isz), deltasize=conv(dsz))),
                ('initialsize=%d' % isz, dict(initialsize=conv(isz))),
                ('deltasize=%d' % dsz, dict(deltasize=conv(dsz)))]
    for what, kw in variants:
        nl = am.NeighborList(system=system, cutoff=carg, **kw)
        rows = read_lists(nl, N, what)
        same_lists(ref, rows, 'default sizes versus ' + what)
    # ... and once more with the default sizes, after the other calls in this process
    same_lists(ref, read_lists(am.NeighborList(system=system, cutoff=carg), N, 'default sizes again'),
               'default sizes, first versus repeated call')
    maxcoord = max((len(r) for r in ref), default=0)
    labels = {'kind_' + case['kind']} | form_labels(case, system)
    if maxcoord > 0:
        labels.add('has_pairs')
    if maxcoord > isz:
        labels.update({'grew_rows', 'nt'})
        if maxcoord > isz + dsz:
            labels.add('grew_twice')
    if maxcoord > 20:
        labels.add('default_grew')
    if isz == 1 or dsz == 1:
        labels.add('size_one')
    return labels


# ----------------------------------------------------------------------------- file

_file_reader = st.sampled_from(['ctor', 'ctor', 'ctor', 'method'])


@st.composite
def file_cases(draw):
    case = draw(g3.systems())
    case['reader'] = draw(_file_reader)
    return case


def oracle_file(case):
    import atomman as am
    system, pos, V, o, pbc = build_system(case)
    cutoff = float(case['cutoff'])
    N = len(pos)
    nl = keyed(system, lambda: am.NeighborList(system=system, cutoff=spell_cutoff(case, cutoff), **size_kwargs(case)))
    rows = read_lists(nl, N)
    tmp = tempfile.mkdtemp(prefix='c03-')
    try:
        path = os.path.join(tmp, 'nlist.txt')
        nl.dump(path)
        with open(path) as fh:
            text = fh.read()
        if case.get('reader') == 'method':
            # the reading entry point documented on System (blocked by a known finding on the unchanged code: raised first)
            back0 = method_model(system, path)
            require(isinstance(back0, am.NeighborList), lambda: 'System.neighborlist(model=) returned %r' % type(back0))
            same_lists(rows, read_lists(back0, N, 'read back by System.neighborlist(model=path)'),
                       'built versus read back by System.neighborlist(model=path)')
            same_lists(rows, read_lists(method_model(system, text), N, 'read back by System.neighborlist(model=content)'),
                       'built versus read back by System.neighborlist(model=content)')
        back = am.NeighborList(model=path)
        same_lists(rows, read_lists(back, N, 'read back from path'), 'built versus read back from file path')
        with open(path, 'rb') as fh:
            back2 = am.NeighborList(model=fh)
        same_lists(rows, read_lists(back2, N, 'read back from stream'), 'built versus read back from open binary stream')
        back3 = am.NeighborList(model=io.BytesIO(text.encode()))
        same_lists(rows, read_lists(back3, N, 'read back from BytesIO'), 'built versus read back from BytesIO')
        back4 = am.NeighborList(model=text)
        same_lists(rows, read_lists(back4, N, 'read back from content'), 'built versus read back from file content string')
        # (text-mode streams are a documented refusal: ValueError 'open file-like objects need to be in a bytes mode')
        require(np.array_equal(np.asarray(back.coord), np.asarray(nl.coord)), 'coord changed by the file round trip')
        # second generation: dump of the loaded list is the same text
        path2 = os.path.join(tmp, 'nlist2.txt')
        back.dump(path2)
        with open(path2) as fh:
            require(fh.read() == text, 'dump of the read-back list differs from the first dump')
        # writing is repeatable and leaves the list as it was
        nl.dump(path2)
        with open(path2) as fh:
            require(fh.read() == text, 'second dump of the same list differs from the first')
        same_lists(rows, read_lists(nl, N, 'after dump'), 'list before versus after dump')
    finally:
        shutil.rmtree(tmp, ignore_errors=True)
    maxcoord = max((len(r) for r in rows), default=0)
    labels = {'kind_' + case['kind'], 'reader_' + case.get('reader', 'ctor')} | form_labels(case, system)
    if maxcoord > 0:
        labels.update({'has_pairs', 'nt'})
    if min((len(r) for r in rows), default=0) == 0:
        labels.add('has_empty_row')
    if maxcoord == 0:
        labels.add('all_empty')
    if len({len(r) for r in rows}) > 1:
        labels.add('ragged')
    if N >= 11:
        labels.add('two_digit_ids')
    return labels


# ----------------------------------------------------------------------------- api

_via = st.sampled_from(['method', 'function', 'build'])
_bool = st.booleans()


@st.composite
def api_cases(draw):
    case = draw(g3.systems())
    case['via'] = draw(_via)
    case['positional'] = draw(_bool)
    case['inspect'] = draw(_bool)
    return case


def oracle_api(case):
    import atomman as am
    system, pos, V, o, pbc = build_system(case)
    cutoff = float(case['cutoff'])
    carg = spell_cutoff(case, cutoff)
    N = len(pos)
    kw = size_kwargs(case)
    positional = bool(case.get('positional'))
    nl = keyed(system, lambda: am.NeighborList(system=system, cutoff=carg, **kw))
    rows = read_lists(nl, N)
    via = case['via']
    if via == 'method':
        other = system.neighborlist(cutoff=carg, **kw)
        require(isinstance(other, am.NeighborList), lambda: 'System.neighborlist returned %r' % type(other))
        orows = read_lists(other, N, 'System.neighborlist')
    elif via == 'function':
        if positional:
            arr = np.asarray(am.nlist(system, carg, *[kw[k] for k in ('initialsize', 'deltasize')[:2 if len(kw) == 2 else 1 if 'initialsize' in kw else 0]],
                                      **({'deltasize': kw['deltasize']} if len(kw) == 1 and 'deltasize' in kw else {})))
        else:
            arr = np.asarray(am.nlist(system=system, cutoff=carg, **kw))
        require(arr.ndim == 2 and arr.shape[0] == N, lambda: 'nlist() returned shape %r' % (arr.shape,))
        orows = [[int(x) for x in arr[i, 1:1 + int(arr[i, 0])]] for i in range(N)]
        # columns beyond the coordination number are uninitialised storage: only shape and used part are compared
        require(arr.shape == np.asarray(nl.nlist).shape, lambda: 'nlist() array shape %r differs from NeighborList.nlist %r' % (arr.shape, np.asarray(nl.nlist).shape))
        require(np.array_equal(arr[:, 0], np.asarray(nl.coord)), 'first column of nlist() differs from NeighborList.coord')
    else:
        # build() on an existing object (here: one holding the list of a different cutoff) replaces its content
        other = am.NeighborList(system=system, cutoff=0.5 * cutoff)
        if case.get('inspect'):
            read_lists(other, N, 'list of half the cutoff')          # the object has been looked at before it is re-built
        if positional:
            other.build(system, carg, **kw)
        else:
            other.build(system=system, cutoff=carg, **kw)
        orows = read_lists(other, N, 'NeighborList.build')
    same_lists(rows, orows, 'NeighborList(system=, cutoff=) versus ' + via)
    # the system is left as it was
    require(np.array_equal(np.asarray(system.atoms.pos, dtype=float), pos) and np.array_equal(np.asarray(system.box.vects), V)
            and list(system.pbc) == pbc, 'building a neighbour list changed the system')
    labels = {'kind_' + case['kind'], 'via_' + via} | form_labels(case, system)
    if positional:
        labels.add('positional_arguments')
    if via == 'build' and case.get('inspect'):
        labels.add('rebuilt_after_read')
    if any(rows):
        labels.update({'has_pairs', 'nt'})
    return labels


# ----------------------------------------------------------------------------- history

_hist_kinds = st.sampled_from(['sparse', 'targeted', 'targeted', 'faces', 'binedge', 'dense', 'dense', 'cluster', 'dyadic'])
_create = st.sampled_from(['ctor', 'ctor', 'ctor', 'ctor', 'method', 'method', 'method', 'model_path', 'model_stream', 'method_model'])
_peek = st.lists(st.sampled_from(['coord', 'item', 'len', 'nlist', 'iter']), max_size=3)
_step = st.fixed_dictionaries({
    'op': st.sampled_from(['build', 'build', 'build', 'load', 'load', 'selfload', 'edit', 'edit']),
    'sys': st.integers(0, 1),
    'fac': st.sampled_from([0.5, 0.75, 1.0, 1.0, 1.25, 1.5]),
    'sizes': st.one_of(st.none(), st.tuples(st.integers(1, 6), st.integers(1, 4)).map(list)),
    'how': st.integers(0, 3),
    'edit': st.sampled_from(['pbc', 'roll', 'copyatom', 'setpos', 'viewset']),
    'a': st.integers(0, 1000), 'b': st.integers(0, 1000),
    'pbc': gens.pbcs.map(lambda p: [bool(x) for x in p]),
    'peek': _peek,
    'judge': st.sampled_from([True, True, True, False]),
})
_nsteps = st.sampled_from([1, 2, 2, 3, 3, 4])


@st.composite
def history_cases(draw):
    nsys = 2
    return {'systems': [draw(g3.systems(kind=draw(_hist_kinds))) for _ in range(nsys)], 'create': draw(_create),
            'inspect0': draw(_peek), 'judge0': draw(_bool), 'steps': [draw(_step) for _ in range(draw(_nsteps))]}


class _Model:
    """one system of a history: the atomman System and, as plain data, what it must hold"""

    def __init__(self, sub):
        self.sub = sub
        self.system, self.pos, self.V, self.o, self.pbc = build_system(sub)
        self.cutoff = float(sub['cutoff'])

    def check_system(self, when):
        s = self.system
        require(np.array_equal(np.asarray(s.atoms.pos, dtype=float), self.pos) and np.array_equal(np.asarray(s.box.vects), self.V)
                and np.array_equal(np.asarray(s.box.origin), self.o) and [bool(p) for p in s.pbc] == self.pbc,
                lambda: 'the system does not hold what it was given (%s)' % when)

    def snapshot(self, cutoff):
        return {'sub': self.sub, 'pos': self.pos.copy(), 'V': self.V, 'o': self.o, 'pbc': list(self.pbc), 'cutoff': float(cutoff)}


def _peek_at(nl, tokens, a, N, what):
    """read the public views of the list in the given order (no judgement beyond self-consistency)"""
    for t in tokens:
        if t == 'coord':
            require(len(np.asarray(nl.coord)) == N, lambda: '%s: coord has %d entries for %d atoms' % (what, len(nl.coord), N))
        elif t == 'item':
            np.asarray(nl[a % N])
        elif t == 'len':
            require(len(nl) == N, lambda: '%s: len() = %r for %d atoms' % (what, len(nl), N))
        elif t == 'nlist':
            require(np.asarray(nl.nlist).shape[0] == N, lambda: '%s: nlist has %d rows for %d atoms' % (what, np.asarray(nl.nlist).shape[0], N))
        elif t == 'iter':
            for i in range(min(N, 3)):
                np.asarray(nl[i])


def _judge(nl, snap, what):
    """the judgement of clause exact for a list that must describe the snapshot"""
    pos, V, o, pbc, cutoff = snap['pos'], snap['V'], snap['o'], snap['pbc'], snap['cutoff']
    N = len(pos)
    rows = read_lists(nl, N, what)
    exact = is_exact_case(snap['sub'], pos, V, o, cutoff)
    exp, near, D, D0, atcut = expected(pos, V, pbc, cutoff, exact)
    compare_with_reference(rows, pos, V, o, pbc, cutoff, exp, near, D, LazyRebin(pos, V, o, pbc, cutoff), what)
    if not near.any():
        cnt = exp.sum(axis=1)
        require(np.array_equal(np.asarray(nl.coord), cnt), lambda: '%s: coord %r differs from the expected counts %r' % (what, np.asarray(nl.coord).tolist(), cnt.tolist()))
    return rows


def _edit(m, step, labels):
    """change the system in place through a public setter / mutable attribute; the model follows"""
    kind = step['edit']
    N = len(m.pos)
    stored = m.system.atoms.pos
    if kind != 'pbc' and not stored.flags['WRITEABLE']:
        kind = 'pbc'                         # a read-only position array cannot be edited in place: numpy refuses, not atomman
    if kind == 'pbc':
        m.pbc = [bool(p) for p in step['pbc']]
        m.system.pbc = spell_pbc(m.sub, m.pbc)
    else:
        new = m.pos.copy()
        if kind == 'roll':
            new = np.roll(m.pos, 1 + step['a'] % max(N - 1, 1), axis=0)
        elif kind == 'copyatom':
            new[step['a'] % N] = m.pos[step['b'] % N]
        else:
            new = m.pos[::-1].copy()
        if kind == 'setpos':
            m.system.atoms.pos = new                                   # whole-property assignment (writes into the held array)
        elif kind == 'viewset':
            m.system.atoms.view['pos'][...] = new
        elif kind == 'copyatom':
            m.system.atoms.pos[step['a'] % N] = new[step['a'] % N]
        else:
            m.system.atoms.pos[:] = new
        m.pos = new
    labels.add('edit_' + kind)
    m.check_system('after in-place edit ' + kind)


def oracle_history(case):
    import atomman as am
    models = [_Model(sub) for sub in case['systems']]
    labels = {'create_' + case['create']}
    for k, m in enumerate(models):
        labels.add('kind_' + m.sub['kind'])
        labels |= form_labels(m.sub, m.system)
    if len({length_scale(m.sub) for m in models}) > 1:
        labels.add('mixed_scales')           # the one object is handed systems expressed in different length units
    tmp = tempfile.mkdtemp(prefix='c03-')
    try:
        path = os.path.join(tmp, 'nlist.txt')
        m0 = models[0]

        def fresh(m, cutoff, sizes=None):
            kw = {} if sizes is None else dict(initialsize=int(sizes[0]), deltasize=int(sizes[1]))
            return keyed(m.system, lambda: am.NeighborList(system=m.system, cutoff=spell_cutoff(m.sub, cutoff), **kw))

        # a second list that nothing is done to: must read the same at the end
        mb = models[-1]
        bystander = fresh(mb, mb.cutoff)
        snap_by = mb.snapshot(mb.cutoff)
        rows_by = _judge(bystander, snap_by, 'second list')

        # ---- creation
        create = case['create']
        snap = m0.snapshot(m0.cutoff)
        if create == 'ctor':
            nl = keyed(m0.system, lambda: am.NeighborList(system=m0.system, cutoff=spell_cutoff(m0.sub, m0.cutoff), **size_kwargs(m0.sub)))
        elif create == 'method':
            nl = keyed(m0.system, lambda: m0.system.neighborlist(cutoff=spell_cutoff(m0.sub, m0.cutoff), **size_kwargs(m0.sub)))
        else:
            fresh(m0, m0.cutoff).dump(path)
            if create == 'model_path':
                nl = am.NeighborList(model=path)
            elif create == 'model_stream':
                with open(path, 'rb') as fh:
                    nl = am.NeighborList(model=fh)
            else:
                nl = method_model(m0.system, path)
        N = len(snap['pos'])
        _peek_at(nl, case['inspect0'], 0, N, 'new list')
        was_read = bool(case['inspect0'])
        rows = None
        if case['judge0']:
            rows = _judge(nl, snap, 'new list (%s)' % create)
            was_read = True
        if was_read:
            labels.add('read_before_first_step')

        # ---- steps on the same object
        steps = case['steps']
        for n, step in enumerate(steps):
            m = models[step['sys'] % len(models)]
            op = step['op']
            cutoff = m.cutoff * float(step['fac'])
            prev_snap = snap
            if op == 'edit':
                _edit(m, step, labels)
            if op in ('build', 'edit'):
                kw = {} if step['sizes'] is None else dict(initialsize=int(step['sizes'][0]), deltasize=int(step['sizes'][1]))
                carg = spell_cutoff(m.sub, cutoff)
                if step['how'] % 2:
                    keyed(m.system, lambda: nl.build(system=m.system, cutoff=carg, **kw))
                else:
                    keyed(m.system, lambda: nl.build(m.system, carg, **kw))
                snap = m.snapshot(cutoff)
                what = 'step %d: build() on the same object (%s)' % (n + 1, 'after in-place edit of the system' if op == 'edit' else 'system %d' % (step['sys'] % len(models)))
            elif op == 'load':
                fresh(m, cutoff, step['sizes']).dump(path)
                how = step['how'] % 4
                if how == 0:
                    nl.load(path)
                elif how == 1:
                    with open(path, 'rb') as fh:
                        nl.load(fh)
                elif how == 2:
                    with open(path, 'rb') as fh:
                        nl.load(io.BytesIO(fh.read()))
                else:
                    with open(path) as fh:
                        nl.load(model=fh.read())
                snap = m.snapshot(cutoff)
                what = 'step %d: load() into the same object (%s)' % (n + 1, ('path', 'binary stream', 'BytesIO', 'content')[how])
            else:
                # dump of the object itself, loaded into itself: the content stays
                nl.dump(path)
                nl.load(path)
                what = 'step %d: dump() and load() of the object itself' % (n + 1)
            labels.add('op_' + op)
            N = len(snap['pos'])
            last = n == len(steps) - 1
            if was_read and op != 'selfload':
                labels.add('replaced_after_read')
                if len(prev_snap['pos']) != N:
                    labels.add('replaced_other_natoms')
            _peek_at(nl, step['peek'], step['a'], N, what)
            if step['judge'] or last:
                new_rows = _judge(nl, snap, what)
                if was_read and op != 'selfload' and rows is not None and new_rows != rows:
                    labels.update({'replaced_by_different_lists', 'nt'})
                rows = new_rows
                was_read = True
            else:
                labels.add('unjudged_step')
                rows = None
                was_read = was_read or bool(step['peek'])

        # ---- the second list, the donor systems
        same_lists(rows_by, _judge(bystander, snap_by, 'second list at the end'), 'second list, at the start versus at the end')
        for m in models:
            m.check_system('at the end')
    finally:
        shutil.rmtree(tmp, ignore_errors=True)
    labels.add('steps_%d' % len(case['steps']))
    return labels


# ----------------------------------------------------------------------------- ledger
#
# Classes A (result ledger) and B (caller-side mutation) of the cross-pollination round.  Everything a call hands out - the raw
# array of nlist(), NeighborList objects built by the constructor / System.neighborlist / read from a file, and the arrays
# their properties return - is entered in a ledger together with a copy of what the documentation defines of it (coordination
# numbers and the first coord entries of every row), judged by the reference when it is first read, and compared bit for bit
# with that copy after EVERY later call on the same or the other system.  The caller overwrites in place what it handed in
# (the position array given to Atoms, the arrays given to Box, the pbc object; the system through its setters) and what was
# handed out (an array of nlist(), the arrays behind a NeighborList): no other entry may move, an object that had not been
# read yet must describe the system as it was when it was built, and the same call made again must be right.

class _ArrView:
    """a raw array returned by nlist(), read through the same checks as a NeighborList"""

    def __init__(self, arr):
        self.nlist = arr
        self.coord = arr[:, 0]

    def __len__(self):
        return len(self.nlist)

    def __getitem__(self, i):
        return self.nlist[i, 1:1 + int(self.coord[i])]


def _used(arr):
    """(coordination numbers, the listed neighbours row after row) - the documented part of a coord + neighbours array
    (columns beyond the coordination number are uninitialised storage)"""
    arr = np.asarray(arr)
    coord = arr[:, 0].copy()
    mask = np.arange(arr.shape[1] - 1)[None, :] < coord[:, None]
    return coord, arr[:, 1:][mask].copy()


class _Model2(_Model):
    """_Model plus the caller's side of the hand-over (the very objects given to Atoms, Box and System)"""

    def __init__(self, sub):
        self.sub = sub
        self.system, self.pos, self.V, self.o, self.pbc, self.handed = build_system2(sub)
        self.cutoff = float(sub['cutoff'])


class _Entry:
    def __init__(self, what, kind, obj, snap, route, model):
        self.what, self.kind, self.obj, self.snap, self.route, self.model = what, kind, obj, snap, route, model
        self.read = False
        self.alive = True
        self.mutated = False          # the caller changed the system between the call and the first read
        self.rows = None
        self.copy = None
        self.views = []               # (name, array handed out by a property, copy)


class _Ledger:
    def __init__(self, labels):
        self.entries = []
        self.labels = labels

    def add(self, what, kind, obj, snap, route, model, read=True):
        e = _Entry(what, kind, obj, snap, route, model)
        self.entries.append(e)
        if read:
            self.first_read(e)
        return e

    def first_read(self, e, a=0):
        nl = _ArrView(e.obj) if e.kind == 'array' else e.obj
        e.rows = _judge(nl, e.snap, e.what + (' (first read after the caller changed the system)' if e.mutated else ''))
        e.copy = _used(nl.nlist)
        e.read = True
        if e.mutated:
            self.labels.add('unread_then_mutated')
        if e.kind == 'object':
            N = len(e.rows)
            item = nl[a % N]
            e.views = [('coord', nl.coord, np.array(nl.coord)), ('nlist', nl.nlist, _used(nl.nlist)), ('item %d' % (a % N), item, np.array(item))]
        if any(e.rows):
            self.labels.add('has_pairs')

    def live(self, kinds=('array', 'object')):
        return [e for e in self.entries if e.alive and e.kind in kinds]

    def rebuilt(self, e, what, snap, route, model, read):
        """build() / load() on the object replaced its content: the arrays its properties handed out before are 'the
        underlying array' in the words of the docstring - whether they follow or keep the old content is not stated, they
        leave the ledger; the object is entered anew"""
        e.what, e.snap, e.route, e.model = what, snap, route, model
        e.read, e.mutated, e.rows, e.copy, e.views = False, False, None, None, []
        if read:
            self.first_read(e)

    def overwrite(self, e, how):
        """the caller writes into what it was handed; returns False where numpy does not let it"""
        if e.kind == 'array':
            if not e.obj.flags['WRITEABLE']:
                return False
            e.obj[...] = -7
        else:
            nl = e.obj
            how = how % 3
            if how == 0:
                nl.nlist[...] = 0
            elif how == 1:
                nl.coord[...] = 0
                nl.nlist[:, 1:] = -1
            else:
                for i in range(len(nl)):
                    nl[i][...] = -1
                nl.nlist[:, 0] = 0
        e.alive = False
        return True

    def verify(self, when, full=False):
        n, counts = 0, set()
        for e in self.entries:
            if not (e.alive and e.read):
                continue
            arr = np.asarray(e.obj if e.kind == 'array' else e.obj.nlist)
            require(arr.ndim == 2 and arr.shape[0] == len(e.rows), lambda: '%s: shape %r %s' % (e.what, arr.shape, when))
            coord, flat = _used(arr)
            require(np.array_equal(coord, e.copy[0]) and np.array_equal(flat, e.copy[1]),
                    lambda: '%s: was %r when it was handed out, reads %r %s (no call was made on it in between)'
                    % (e.what, e.rows[:6], [[int(x) for x in arr[i, 1:1 + max(0, min(int(arr[i, 0]), arr.shape[1] - 1))]] for i in range(min(len(arr), 6))], when))
            for name, view, copy in e.views:
                if name == 'nlist':
                    c2, f2 = _used(view)
                    ok = np.array_equal(c2, copy[0]) and np.array_equal(f2, copy[1])
                else:
                    ok = np.array_equal(np.asarray(view), copy)
                require(ok, lambda: '%s: the array handed out as .%s changed %s (no call was made on the object in between)' % (e.what, name, when))
            if full:
                same_lists(e.rows, read_lists(_ArrView(e.obj) if e.kind == 'array' else e.obj, len(e.rows), e.what + ' ' + when),
                           e.what + ': when handed out versus ' + when)
            n += 1
            counts.add(len(e.rows))
        return n, counts


def _edit2(m, step, labels):
    """_edit, plus 'handed': the caller overwrites in place the very objects it gave to Atoms / Box / System"""
    if step['edit'] != 'handed':
        return _edit(m, step, labels)
    h = m.handed
    hp, hb = h['pos'], h['pbc']
    if isinstance(hp, np.ndarray) and hp.flags['WRITEABLE'] and len(hp) > 1:
        hp[...] = np.roll(hp, 1, axis=0)              # the same atoms in another order: exact in every dtype, all inside the cell
    elif isinstance(hp, list) and len(hp) > 1:
        hp.reverse()
    h['vects'][...] = np.nan
    h['origin'][...] = np.nan
    if isinstance(hb, np.ndarray):
        hb[...] = ~hb
    elif isinstance(hb, list):
        hb[:] = [not x for x in hb]
    # what the system holds now is read back as data (whether Atoms / System keep the caller's object is C06's matter) ...
    pos = np.array(m.system.atoms.pos, dtype=float)
    pbc = [bool(p) for p in m.system.pbc]
    if not np.array_equal(pos, m.pos) or pbc != m.pbc:
        labels.add('edit_handed_aliased')
    m.pos, m.pbc = pos, pbc
    # ... except the box, which every earlier and later list depends on through the cell vectors
    require(np.array_equal(np.asarray(m.system.box.vects), m.V) and np.array_equal(np.asarray(m.system.box.origin), m.o),
            'overwriting the arrays that had been given to Box changed the box of the system')
    labels.add('edit_handed')


_led_kinds = st.sampled_from(['sparse', 'sparse', 'targeted', 'targeted', 'faces', 'faces', 'dense', 'dyadic', 'dyadic', 'near', 'near', 'binedge'])
_LED_SYSTEMS = {k: g3.systems(kind=k) for k in ('sparse', 'targeted', 'faces', 'dense', 'dyadic', 'near', 'binedge')}
_led_op = st.fixed_dictionaries({
    'op': st.sampled_from(['fn', 'fn', 'ctor', 'method', 'lazy', 'lazy', 'lazy', 'load', 'load', 'load', 'rebuild', 'mutin', 'mutin', 'mutout', 'mutout', 'again']),
    'sys': st.integers(0, 1),
    'fac': st.sampled_from([0.5, 0.75, 1.0, 1.0, 1.0, 1.25, 1.5]),
    'sizes': st.one_of(st.none(), st.none(), st.tuples(st.integers(1, 6), st.integers(1, 4)).map(list)),
    'how': st.integers(0, 11),
    'edit': st.sampled_from(['pbc', 'roll', 'copyatom', 'setpos', 'viewset', 'handed', 'handed']),
    'a': st.integers(0, 1000), 'b': st.integers(0, 1000),
    'pbc': gens.pbcs.map(lambda p: [bool(x) for x in p]),
})
_led_nops = st.sampled_from([3, 4, 4, 5, 5, 6, 7])


@st.composite
def ledger_cases(draw):
    return {'systems': [draw(_LED_SYSTEMS[draw(_led_kinds)]) for _ in range(2)], 'ops': [draw(_led_op) for _ in range(draw(_led_nops))]}


def oracle_ledger(case):
    import atomman as am
    models = [_Model2(sub) for sub in case['systems']]
    labels = set()
    for m in models:
        labels.add('kind_' + m.sub['kind'])
        labels |= form_labels(m.sub, m.system)
    led = _Ledger(labels)
    tmp = tempfile.mkdtemp(prefix='c03-')
    try:
        def call(route, m, cutoff, sizes, read=True):
            kw = {} if sizes is None else dict(initialsize=int(sizes[0]), deltasize=int(sizes[1]))
            carg = spell_cutoff(m.sub, cutoff)
            what = '%s for system %d, cutoff %.17g, sizes %r' % ({'fn': 'nlist()', 'ctor': 'NeighborList()', 'method': 'System.neighborlist()'}[route],
                                                                models.index(m), cutoff, sizes)
            if route == 'fn':
                arr = keyed(m.system, lambda: am.nlist(m.system, carg, **kw))
                require(isinstance(arr, np.ndarray) and arr.ndim == 2, lambda: 'nlist() returned %r' % type(arr))
                return led.add(what, 'array', arr, m.snapshot(cutoff), (route, m, cutoff, sizes), m)
            if route == 'ctor':
                nl = keyed(m.system, lambda: am.NeighborList(system=m.system, cutoff=carg, **kw))
            else:
                nl = keyed(m.system, lambda: m.system.neighborlist(cutoff=carg, **kw))
            require(isinstance(nl, am.NeighborList), lambda: '%s returned %r' % (what, type(nl)))
            return led.add(what, 'object', nl, m.snapshot(cutoff), (route, m, cutoff, sizes), m, read=read)

        made_calls = 0
        for n, op in enumerate(case['ops']):
            m = models[op['sys'] % len(models)]
            cutoff = m.cutoff * float(op['fac'])
            sizes, how, kind = op['sizes'], int(op['how']), op['op']
            objs = led.live(('object',))
            live = led.live()
            fresh_source = kind == 'load' and bool((how // 4) % 3)
            if (kind == 'rebuild' or (kind == 'load' and not fresh_source)) and not objs:
                kind = 'ctor'
            if kind in ('mutout', 'again') and not live:
                kind = 'fn'
            if kind in ('fn', 'ctor', 'method'):
                call(kind, m, cutoff, sizes)
            elif kind == 'lazy':
                call(('ctor', 'method')[how % 2], m, cutoff, sizes, read=False)
            elif kind == 'load':
                # another source every time (a loaded object is a source only where there is nothing else)
                if fresh_source:
                    src = call('ctor', m, cutoff, sizes)          # a list made for the purpose (it stays in the ledger as well)
                else:
                    built = [x for x in objs if x.route is not None] or objs
                    src = built[(op['a'] + sum(1 for x in led.entries if x.route is None)) % len(built)]
                if not src.read:
                    led.first_read(src, op['b'])
                path = os.path.join(tmp, 'nlist_%d.txt' % n)
                src.obj.dump(path)
                h = how % 4
                if h == 0:
                    nl = am.NeighborList(model=path)
                elif h == 1:
                    with open(path, 'rb') as fh:
                        nl = am.NeighborList(model=fh)
                elif h == 2:
                    with open(path, 'rb') as fh:
                        nl = am.NeighborList(model=io.BytesIO(fh.read()))
                else:
                    with open(path) as fh:
                        nl = am.NeighborList(model=fh.read())
                e = led.add('read (%s) from the dump of [%s]' % (('path', 'binary stream', 'BytesIO', 'content')[h], src.what), 'object', nl,
                            src.snap, None, src.model)
                if sum(1 for x in led.live(('object',)) if x.route is None and x.rows != e.rows) >= 1:
                    labels.add('loaded_different_alive')
            elif kind == 'rebuild':
                e = objs[op['b'] % len(objs)]
                kw = {} if sizes is None else dict(initialsize=int(sizes[0]), deltasize=int(sizes[1]))
                carg = spell_cutoff(m.sub, cutoff)
                if how % 2:
                    keyed(m.system, lambda: e.obj.build(system=m.system, cutoff=carg, **kw))
                else:
                    keyed(m.system, lambda: e.obj.build(m.system, carg, **kw))
                led.rebuilt(e, 'build() for system %d, cutoff %.17g on the object of [%s]' % (models.index(m), cutoff, e.what), m.snapshot(cutoff),
                            ('ctor', m, cutoff, sizes), m, read=(how // 2) % 2 == 0)
            elif kind == 'mutin':
                pending = [e for e in led.entries if e.alive and not e.read and e.model is not None]
                if pending and how % 3:
                    m = pending[-1].model                 # the system an object was built for that has not been read yet
                for e in led.entries:
                    if e.alive and not e.read and e.model is m:
                        e.mutated = True
                _edit2(m, op, labels)
            elif kind == 'mutout':
                e = live[op['a'] % len(live)]
                if not e.read:
                    led.first_read(e, op['b'])
                if led.overwrite(e, how):
                    labels.add('overwrote_' + e.kind)
                    if e.route is not None and e.model is not None:
                        # the same call again: a cached or shared result would now be the caller's scribble
                        call(*e.route)
                        labels.add('again_after_overwrite')
            else:
                e = live[op['b'] % len(live)]
                if e.route is not None:
                    call(*e.route)
                    labels.add('repeated_call')
                else:
                    call('fn', m, cutoff, sizes)
            labels.add('op_' + kind)
            nver, counts = led.verify('after step %d (%s)' % (n + 1, kind))
            if nver >= 2 and kind != 'mutin':
                labels.add('ledger')
                if len(counts) > 1:
                    labels.add('ledger_mixed_counts')
                if nver >= 4:
                    labels.add('ledger_ge_4')
            if nver >= 1 and kind == 'mutin':
                labels.add('ledger_after_caller_change')
        for e in led.entries:
            if e.alive and not e.read:
                led.first_read(e)
                labels.add('read_at_the_end')
        led.verify('at the end', full=True)
        for m in models:
            m.check_system('at the end')
    finally:
        shutil.rmtree(tmp, ignore_errors=True)
    if 'ledger' in labels and 'has_pairs' in labels:
        labels.add('nt')
    return labels


# ----------------------------------------------------------------------------- combos (enumerated)
#
# Class H: every creation route x every ordered pair (thorough: triple) of operations on ONE object, read after every step or
# not before the end (judged by oracle_history), and every ordered pair of routes handing out TWO results for the same or
# for different systems followed by each caller-side operation on the first (judged by oracle_ledger) - enumerated, on three
# fixed small systems with 3, 5 and 2 atoms that each have a pair realised only through a periodic image.

def _fixed_systems():
    def sub(lx, ly, lz, xy, xz, yz, origin, pbc, rel, cutoff, kind):
        c = {'lx': lx, 'ly': ly, 'lz': lz, 'xy': xy, 'xz': xz, 'yz': yz, 'origin': origin, 'rot': None, 'lefthanded': False}
        V, o = gens.cell_vects(c), gens.cell_origin(c)
        return {'cell': c, 'kind': kind, 'initialsize': None, 'deltasize': None, 'pbc': pbc, 'cutoff': cutoff,
                'pos': (np.array(rel, dtype=float) @ V + o).tolist()}
    return [sub(4.0, 5.0, 6.0, 0.0, 0.0, 0.0, [0.0, 0.0, 0.0], [True, False, True], [[0.05, 0.2, 0.2], [0.975, 0.2, 0.2], [0.5, 0.5, 0.5]], 1.0, 'fixed3'),
            sub(3.0, 3.5, 4.0, 0.5, -0.4, 0.3, [-1.0, 2.0, 0.5], [True, True, False],
                [[0.05, 0.5, 0.5], [0.95, 0.5, 0.5], [0.5, 0.05, 0.2], [0.5, 0.97, 0.2], [0.5, 0.5, 0.8]], 0.9, 'fixed5'),
            sub(10.0, 10.0, 11.0, 0.0, 0.0, 0.0, [0.0, 0.0, 0.0], [False, False, True], [[0.5, 0.19, 1.5 / 11.0], [0.5, 0.21, 0.999]], 2.0, 'fixed2')]


_COMBO_OPS = [
    {'op': 'build', 'sys': 0, 'fac': 1.0, 'sizes': None, 'how': 0},
    {'op': 'build', 'sys': 1, 'fac': 1.25, 'sizes': [2, 1], 'how': 1},
    {'op': 'load', 'sys': 1, 'fac': 1.0, 'sizes': None, 'how': 0},
    {'op': 'load', 'sys': 0, 'fac': 0.75, 'sizes': [1, 1], 'how': 3},
    {'op': 'selfload', 'sys': 0, 'fac': 1.0, 'sizes': None, 'how': 0},
    {'op': 'edit', 'sys': 0, 'fac': 1.0, 'sizes': None, 'how': 0, 'edit': 'pbc', 'pbc': [True, True, True]},
    {'op': 'edit', 'sys': 1, 'fac': 1.0, 'sizes': [3, 2], 'how': 1, 'edit': 'roll'},
]
_COMBO_CREATE = ['ctor', 'method', 'model_path', 'model_stream', 'method_model']
_COMBO_ROUTES = ['fn', 'ctor', 'method', 'lazy', 'load']
_COMBO_SECOND = ['rebuild', 'mutout', 'mutin', 'again', 'load']


def combo_cases(tier):
    import itertools
    fixed = _fixed_systems()
    cases = []

    def step(k, read):
        d = {'edit': 'pbc', 'a': 1, 'b': 2, 'pbc': [False, True, True], 'peek': ['coord', 'item'] if read else [], 'judge': bool(read)}
        d.update(_COMBO_OPS[k])
        return d

    seqs = list(itertools.product(range(7), repeat=2))
    seqs += list(itertools.product(range(7), repeat=3)) if tier == 'thorough' else list(itertools.product((1, 3, 4, 6), repeat=3))
    n = 0
    for create in _COMBO_CREATE:
        for seq in seqs:
            for read in (True, False):
                cases.append({'family': 'history', 'systems': [fixed[n % 3], fixed[(n + 1 + n // 3) % 3]], 'create': create,
                              'inspect0': ['coord', 'item', 'len'] if read else [], 'judge0': bool(read), 'steps': [step(k, read) for k in seq]})
                n += 1
    for r1 in _COMBO_ROUTES:
        for r2 in _COMBO_ROUTES:
            for second in _COMBO_SECOND:
                for other in (0, 1):
                    for how in ((0, 1, 2) if second == 'mutout' else (0, 2) if second == 'rebuild' else (0, 1) if second == 'mutin' else (0,)):
                        for target in (0, 1):                  # the operation acts on the first / on the second of the two results
                            base = {'fac': 1.0, 'sizes': None, 'how': how, 'edit': 'handed' if how else 'pbc', 'a': 0, 'b': 0, 'pbc': [True, True, False]}
                            ops = [dict(base, op='ctor', sys=0), dict(base, op='ctor', sys=1, fac=1.25)] if 'load' in (r1, r2) else []   # something to dump
                            k = len(ops) + target
                            ops += [dict(base, op=r1, sys=0, a=0), dict(base, op=r2, sys=other, a=0 if r1 == 'load' else 1),
                                    dict(base, op=second, sys=(0, other)[target] if second == 'mutin' else 1 - other, a=k, b=k)]
                            ops.append(dict(base, op='fn', sys=0))
                            cases.append({'family': 'ledger', 'systems': [fixed[n % 3], fixed[(n + 1) % 3]], 'ops': ops})
                            n += 1
    return cases


def oracle_combos(case):
    if case['family'] == 'history':
        labels = oracle_history(case)
        labels.add('single_%d_steps' % len(case['steps']))
    else:
        labels = oracle_ledger(case)
        labels.add('two_results')
    labels.add('family_' + case['family'])
    return labels


CLAUSES = [
    Clause('exact', oracle_exact, g3.systems, quick=8500, thorough=330000,
           min_share={'nt': 0.3, 'has_pairs': 0.3, 'ghost_only_bin': 0.35, 'image_pair': 0.15, 'grew_rows': 0.071,
                      'bin_grew': 0.025, 'pair_exactly_at_cutoff': 0.012, 'pbc_mixed': 0.3, 'rotated': 0.12,
                      'tilted': 0.2, 'cutoff_gt_width': 0.04, 'own_image_within_cutoff': 0.015, 'kind_targeted': 0.086,
                      'kind_binedge': 0.062, 'on_face': 0.2, 'pos_readonly_stored': 0.088, 'pos_noncontiguous_stored': 0.04,
                      'pos_sequence': 0.035, 'scale_1': 0.24, 'scaled': 0.2, 'scale_1e-10': 0.059, 'scale_le_1e-8': 0.11,
                      'scale_large': 0.04, 'exact_scaled': 0.025,
                      # cross-pollination round (below half of the lowest share seen at seeds 1-4, runs cut short by the wall budget included)
                      'kind_near': 0.047, 'near_cut': 0.065, 'near_cut_le_1e-6': 0.037, 'near_cut_inside': 0.023, 'near_cut_outside': 0.043,
                      'near_cut_image': 0.017, 'near_coincident': 0.024, 'near_face_le_1e-6': 0.03, 'decades': 0.005, 'tiny_tilt': 0.02,
                      'sym': 0.1, 'sym_negdiag': 0.047, 'sym_upper': 0.01, 'sym_mixed': 0.02, 'lefthanded': 0.038,
                      'pos_bigendian': 0.036, 'pos_narrow_int': 0.0034, 'pos_narrow_float': 0.0045, 'cutoff_narrow_float': 0.04,
                      'cutoff_narrow_int': 0.0028, 'sizes_narrow_int': 0.094},
           desc='every list equals the independent reference {j != i : shortest of the 27 candidates < cutoff}; strictly '
                'ascending, no self entry, symmetric, coord = length = first column; for every input form'),
    Clause('sizes', oracle_sizes, sizes_cases, quick=1700, thorough=55000,
           min_share={'nt': 0.14, 'grew_twice': 0.1, 'size_one': 0.2, 'pos_readonly_stored': 0.088,
                      'scale_1': 0.24, 'scaled': 0.2, 'scale_1e-10': 0.059, 'scale_le_1e-8': 0.11, 'scale_large': 0.04,
                      'pos_bigendian': 0.02, 'sizes_narrow_int': 0.1},
           desc='identical lists for default and drawn initialsize/deltasize (both, and each alone), and for the default again afterwards'),
    Clause('file', oracle_file, file_cases, quick=1700, thorough=38000,
           min_share={'nt': 0.3, 'ragged': 0.15, 'has_empty_row': 0.25, 'two_digit_ids': 0.08, 'pos_readonly_stored': 0.07,
                      'scale_1': 0.24, 'scaled': 0.2, 'scale_1e-10': 0.059, 'scale_le_1e-8': 0.11, 'scale_large': 0.04,
                      'pos_bigendian': 0.034, 'sizes_narrow_int': 0.09},
           desc='dump then NeighborList(model=path | open binary stream | BytesIO | content string) and System.neighborlist(model=): '
                'identical lists; second dump identical text'),
    Clause('api', oracle_api, api_cases, quick=1500, thorough=22000,
           min_share={'nt': 0.28, 'via_function': 0.12, 'via_build': 0.1, 'positional_arguments': 0.17, 'pos_readonly_stored': 0.07,
                      'scale_1': 0.24, 'scaled': 0.2, 'scale_1e-10': 0.059, 'scale_le_1e-8': 0.11, 'scale_large': 0.04,
                      'pos_bigendian': 0.037, 'sizes_narrow_int': 0.09},
           desc='System.neighborlist, nlist(), NeighborList.build (positional and keyword) give the same lists as NeighborList(system=, cutoff=); system untouched'),
    Clause('history', oracle_history, history_cases, quick=1200, thorough=30000,
           min_share={'nt': 0.17, 'replaced_after_read': 0.28, 'replaced_other_natoms': 0.15, 'read_before_first_step': 0.25,
                      'op_load': 0.15, 'op_edit': 0.13, 'op_selfload': 0.06, 'unjudged_step': 0.09, 'pos_readonly_stored': 0.12,
                      'mixed_scales': 0.25, 'scaled': 0.3, 'scale_1e-10': 0.1, 'scale_le_1e-8': 0.19, 'scale_large': 0.08,
                      'pos_bigendian': 0.05, 'sizes_narrow_int': 0.15},
           desc='one NeighborList object through build / load / dump-load / in-place system edits, read in varying orders: after every '
                'step it equals the independent reference for what it was last given; an untouched second list stays as it was'),
    Clause('ledger', oracle_ledger, ledger_cases, quick=1100, thorough=30000,
           min_share={'nt': 0.3, 'ledger': 0.4, 'ledger_mixed_counts': 0.14, 'ledger_ge_4': 0.16, 'ledger_after_caller_change': 0.07,
                      'loaded_different_alive': 0.021, 'unread_then_mutated': 0.012, 'again_after_overwrite': 0.085, 'overwrote_array': 0.028,
                      'overwrote_object': 0.06, 'edit_handed': 0.038, 'edit_handed_aliased': 0.032, 'repeated_call': 0.053, 'op_rebuild': 0.042,
                      'read_at_the_end': 0.14, 'pos_bigendian': 0.07, 'pos_readonly_stored': 0.1, 'scaled': 0.27},
           desc='everything handed out by nlist() / NeighborList / System.neighborlist / a file for two systems is judged by the reference when first '
                'read and compared bit for bit (documented part) with a copy after every later call; the caller overwrites what it handed in '
                'and what it was handed: no other result moves, an unread object describes the system as it was, the same call again is right'),
    Clause('combos', oracle_combos, enumerate=combo_cases,
           min_share={'nt': 0.2, 'family_history': 0.25, 'family_ledger': 0.08},
           desc='enumerated: 5 creation routes x every ordered pair (thorough: triple) of 7 operations on one object, read after every step or '
                'only at the end; 5 x 5 routes handing out two results x 5 caller-side operations on the first, same and different systems'),
]
