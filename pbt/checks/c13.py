"""C13 - Dislocation configurations: reference crystal displaced by the elastic solution.

Clauses
  reference    Dislocation(...).rcell / .uvws / .transform / .shifts / base_system: the reference system is the unit cell's
               crystal rotated by `transform`, shifted by `shift`, filling the stated box exactly once
  monopole     monopole(): every reference atom kept, displaced by the elastic solution at (reference position - centre),
               periodic along the line only, boundary atoms re-typed exactly outside the stated box / cylinder
  array        periodicarray(): deletion count implied by the edge component, deleted atoms are duplicates, no overlap
               across the two in-plane periodic directions, old_id maps back, displacement field re-derived
  disregistry  atomman.defect.disregistry across the slip plane accumulates to one Burgers vector (analytic tail bound)
               monopole / array judge the LAST call of a history on one object (shift given at initialisation, then a different
               explicit shift at the call; an earlier monopole()/periodicarray() call with other arguments)
  sizemults    the documented argument types of sizemults (tuple; list left untouched, call repeatable)
  options_shift / options_size   (H) enumerated combinations of the options that touch the same state, judged by the monopole / array oracles

Generator classes carried over from other properties (round 5; labels in brackets):
  A result ledger [ledger, ledger_later_calls, ledger_other_object, ledger_same_size]: what the constructor and every call handed out
    is kept with a snapshot and compared bit for bit after later calls on the same and on another Dislocation object; results of
    different calls must not share memory (monopole, array, reference, disregistry)
  B caller-side mutation [mut_inputs, mut_inputs_shift, mut_outputs, mut_shift_attribute]: arguments bit-identical after each call,
    then overwritten by the caller; systems handed out by an earlier call overwritten; the array read from .shift written into
  C forms [forms, narrow, form_*, ucell_*, int_limit]: int8 .. uint16 / big-endian / bool / float32 / float16 / read-only / strided /
    tuple arguments, numpy-scalar multipliers, indices, widths, cutoffs, minimum lengths; unit cell stored in single precision etc.
  D working units [units, units_pre, units_default_cutoff]: histories under reset_units(named | seed | 'SI'), before that under the
    default or another configuration in the same process, outcomes compared; default cutoff = 0.5 Angstrom physically
  E near-threshold values [near, near_plane, near_face, near_bd, near_min, near_cen]
  F many decades in one call: does not apply - the generators take no free (N, 3) array; their array arguments are 3-vectors
    (shift, centre) and the positions come from one crystal with one lattice parameter (<= 3 decades between the nearest atom and
    the system size); the length scale as a whole is the `scaled` class
  G exactly structured inputs [oriented, oriented_diagonal_negative, halves]: unit cell in the 24 signed-permutation frames, exact
    halves / quarters for in-plane shifts and centres (mirrored / relabelled slip systems: the enumerated tables hold every
    (hkl), [uvw], b with |index| <= 2, each judged absolutely; negative m / n axes are refused by the solver's documented assertion)
  H enumerated option combinations: clauses options_shift, options_size
"""
import math
import re

import numpy as np
from hypothesis import strategies as st

from ..core import Clause, Violation, require
from .. import gens_c13 as g
from ..oracles import crystal_match as cm

RULE = ("hand-built unit cells (sc, B2, L1_2, fcc/diamond conventional 'f', bcc conventional 'i', fcc and bcc primitive, hcp "
        "with 3- or 4-index Miller input; nearest-neighbour distance 2.2-3.2 A, cubic C anisotropic or exactly isotropic, "
        "hexagonal C), slip plane with |index| <= 2, line direction any primitive in-plane integer vector with |index| <= 2, "
        "Burgers vector among the short in-plane translations (screw / edge / mixed; a share of partials), all six m/n axis "
        "assignments as default / strings / float or integer vectors, shift by default / index / Cartesian / box-relative "
        "vector at construction or at the call, size multipliers (list or tuple, amin/bmin/cmin), centre absolute / "
        "box-relative / integer typed, both boundary shapes, widths 0-6 A absolute or scaled, linear or solution field, "
        "cutoff.  monopole / array: in three cases of four the ONE Dislocation object has a history before the judged call - "
        "built with a shift / shiftindex / shiftscale choice and called with a different explicit one (shiftindex=0, other "
        "indices, Cartesian or box-relative vectors as list / array / tuple, the vector equal to an entry of shifts, the "
        "all-zero vector), and / or an earlier monopole() or periodicarray() call with its own shift choice, size, centre and "
        "boundary; the judged call is always the last one.  LENGTH UNIT: the whole geometric input of a case (lattice parameter, "
        "hence cell, positions, Burgers vector and shifts; boundary widths, duplicate cutoff - always given explicitly then, its "
        "default being 0.5 Angstrom converted to working units -, a/b/cmin, Cartesian centres) is multiplied by 10^k, k = 0 in "
        "half of the cases, else -12 .. 6 with 1e-10 (metres) favoured; every length tolerance of the oracles is a multiple of "
        "10^k.  `tol` stays at its default (documented as the dimensionless tolerance of the elastic solver).  The elastic "
        "constants carry an independent magnitude 1e-2 .. 1e3 (the range in which the Stroh solver accepts every medium "
        "generated here; a refusal outside C11 = 1 is counted, not judged).  Round 5 (classes carried over from other properties): "
        "LEDGER - the attributes read at construction, the systems of an earlier call and of the judged call are kept with snapshots; after "
        "the judged call, in half of the cases, later calls follow on the same object and / or on another Dislocation object of the same "
        "crystal (same multipliers in half of those) and everything kept must be bit-identical and share no memory.  MUTATION - in a third "
        "of the cases the caller overwrites every array / list it handed in after the constructor and after each call (shift vectors in a "
        "third of those), in a third the systems an earlier call returned, in one of eight the array read from .shift.  FORMS - in two of "
        "three cases each array-like argument independently as tuple / float64 / int8 / int16 / int32 / uint8 / uint16 / big-endian / bool "
        "/ float32 / float16 (values exactly representable, or the rounded vector is the input) / read-only / strided array; multipliers "
        "and shift indices as numpy integers; widths, cutoffs, minimum lengths as numpy scalars; integer centres with the line component "
        "at the limit of the dtype; the unit cell stored in single precision (exact coordinates) / from Fortran-ordered, strided input / "
        "read-only / int8 types / nested lists.  UNITS - one case in six or seven runs under atomman.unitconvert.reset_units(length = nm | "
        "pm | m | cm | aBohr | um [+ other quantities] | integer seed | 'SI'): the crystal (k = 0) re-expressed with my own numericalunits "
        "product, two thirds after the same history under the default or another configuration in the same process.  NEAR - one case in "
        "four has an atomic plane a relative 1.7e-8 .. 1e-3 (of half the plane spacing) off the slip plane / cut plane, an atom a relative "
        "1e-12 .. 1e-3 of a cell off a box face, the boundary surface 1e-12 .. 1e-3 length units off an atomic plane, or a minimum length a "
        "relative 1e-12 .. 1e-3 off a whole number of cells.  FRAMES - cubic structures: the unit cell in one of the 24 proper signed "
        "permutations of the axes in half of the cases; in-plane shifts / centres at exact halves, quarters, eighths in one of six.  "
        "OPTIONS - enumerated, see the options clauses.  Non-trivial: edge or mixed character AND a non-default m/n assignment.")
ASSUMPTIONS = [
    "the elastic solution object (VolterraDislocation.displacement, .burgers, .m, .n, .transform) is judged by C12; here it is "
    "evaluated by the oracle at positions the oracle chooses",
    "System.supersize / wrap (C04, C05) are used to rebuild the full reference system of a periodic array",
    "scipy.spatial.cKDTree and numpy linear algebra are correct",
    "unit cells are built by hand (no prototype database): sc, B2, L1_2, fcc, diamond, bcc, hcp",
    "length scale class: the working units stay at their default and a crystal 'in metres' is a crystal whose numbers are 1e-10 times "
    "the Angstrom ones, arguments with a unit-aware default (cutoff) given explicitly; unit plans: atomman.unitconvert.reset_units "
    "applies the configuration (C09's subject), numericalunits.angstrom is then the size of one Angstrom, and the default units are "
    "restored after every case (process-global state)",
    "the elastic constants are NOT re-expressed under a unit plan (the field does not depend on their magnitude; in SI the same "
    "medium has C ~ 1e11, outside the range in which the Stroh solver accepts every medium: C12's ground)",
    "building an atomman.System from the forms of class C (single precision, Fortran-ordered, strided positions) is C01 / C03's subject",
]
LEVEL_TEXT = ("Random search over hand-built fcc/bcc/hcp/sc/ordered cells (primitive and centred settings), all slip planes and "
              "line directions with |index| <= 2, screw/edge/mixed and partial Burgers vectors, the six m/n axis assignments, "
              "size multipliers, shifts, centres, boundary shapes/widths, linear/solution arrays; systems up to 3000 atoms; every "
              "case in Angstrom-like numbers or multiplied by an overall length scale 1e-12 .. 1e6 (on the unchanged tree the open "
              "finding on `tol` excludes cells <= 1e-2 units), elastic constants of magnitude 1e-2 .. 1e3; object and process "
              "histories with a result ledger and caller-side overwriting, narrow / non-contiguous / numpy-scalar argument forms, "
              "working-unit configurations, near-threshold geometry, signed-permutation frames of the unit cell, and enumerated "
              "combinations of the shift / size / boundary / centre options.")
TECHNIQUE = ("lattice map-back of the reference system through `transform`; re-evaluated displacement field at reference "
             "positions; own half-space/cylinder predicates; duplicate/overlap search under the new periodicity; analytic "
             "tail bound for the disregistry; bit-for-bit ledger of everything handed out; same physical history under two "
             "working-unit configurations")
WALL = {'quick': 70, 'thorough': 560}

KEY_TUPLE = 'C13:sizemults:tuple'
KEY_MUT = 'C13:sizemults:list-mutated'
KEY_ANTI = 'C13:rcell:anticyclic-mn:turned-180-about-n'
KEY_FACE = 'C13:array:screw:atom-on-upper-face-duplicated'
KEY_SKEW = 'C13:rcell:nondefault-mn:lammps-orientation-not-solution-frame'
KEY_TOL = 'C13:init:solution-tol-used-as-absolute-length:cell-1e-2-or-1e6-working-units'
KEY_DISREG = 'C13:disregistry:absolute-isclose-tolerance:plane-spacing-below-1e-8-units'

CAP = 3000          # atoms per configuration
TUPLE_MSG = "'tuple' object does not support item assignment"


# ----------------------------------------------------------------------------- construction of the inputs

# ----------------------------------------------------------------------------- generator classes carried over from other properties
# A  result ledger: every system / array a call handed out (and the attributes read from the object at construction) is kept with
#    a snapshot and compared bit for bit after LATER calls on the same and on another Dislocation object; results of different
#    calls must not share memory
# B  caller-side mutation: arrays / lists handed IN must be bit-identical after the call; the caller then overwrites them (and, in
#    a share of the cases, the systems an earlier call handed OUT and the array read from .shift): later answers must not move
# C  forms: every array-like argument as tuple / float64 / int8 .. uint16 / big-endian / bool / float32 / float16 (exactly
#    representable values) / read-only / strided array, numpy-scalar multipliers, indices and widths, unit cell stored in single
#    precision / Fortran order / from lists
# D  working units: the judged history under atomman.unitconvert.reset_units(<configuration>), physical system re-expressed with
#    my own numericalunits product; the same history judged first under another configuration in the same process
# E  near-threshold values (gens_c13.nears), G signed-permutation frames of the unit cell and exact halves, H the `options` clauses
KEY_ALIAS = 'C13:set_shift:no-copy:shift-aliases-caller-array-or-row-of-shifts'
KEY_NPINT = 'C13:sizemults:numpy-integer-multipliers-refused'


def angstrom_now():
    import numericalunits as nu
    A = float(nu.angstrom)
    return 1.0 if abs(A - 1.0) < 1e-12 else A


def _bits(a):
    a = np.asarray(a)
    return (a.dtype.str, a.shape, a.tobytes())


def _same_bits(a, b):
    return _bits(a) == _bits(b)


class Ledger(object):
    """(what, live arrays, snapshots taken at return time, judged then or by the call that follows)"""

    def __init__(self):
        self.entries = []
        self.inputs = []

    def add(self, what, arrays, group):
        arrays = [np.asarray(a) for a in arrays]
        self.entries.append((what, arrays, [np.array(a, copy=True) for a in arrays], group))

    def add_system(self, what, system, group):
        arrs = [system.atoms.pos, system.atoms.atype, system.box.vects, system.box.origin, np.asarray(system.pbc)]
        if 'old_id' in system.atoms.prop():
            arrs.append(system.atoms.old_id)
        self.add(what, arrs, group)
        self.entries[-1] = self.entries[-1] + (tuple(system.symbols), system)

    def drop(self, group):
        self.entries = [e for e in self.entries if e[3] != group]

    def verify(self, when):
        for e in self.entries:
            what, live, snap = e[0], e[1], e[2]
            for k, (a, b) in enumerate(zip(live, snap)):
                if not _same_bits(a, b):
                    diff = ''
                    if a.shape == b.shape and a.dtype.kind in 'fiu':
                        with np.errstate(invalid='ignore'):
                            diff = ' (max change %.3g)' % float(np.nanmax(np.abs(np.asarray(a, dtype=float) - np.asarray(b, dtype=float)))) if a.size else ''
                    raise Violation('ledger: array %d of %s changed %s%s: it was\n%r\nat return time and is now\n%r'
                                    % (k, what, when, diff, b[:4], a[:4]))
            if len(e) > 4:
                require(tuple(e[5].symbols) == e[4], lambda: 'ledger: symbols of %s changed %s: %r -> %r' % (what, when, e[4], e[5].symbols))
        # results of different calls (and the object's own cells) do not share memory
        ent = self.entries
        for i in range(len(ent)):
            for j in range(i + 1, len(ent)):
                if ent[i][3] == ent[j][3]:
                    continue
                for a in ent[i][1]:
                    for b in ent[j][1]:
                        if a.size and b.size and np.shares_memory(a, b):
                            raise Violation('ledger: %s and %s share memory (%s)' % (ent[i][0], ent[j][0], when))


_INT_DT = {'int8': np.int8, 'int16': np.int16, 'int32': np.int32, 'uint8': np.uint8, 'uint16': np.uint16, 'be': np.dtype('>i4')}


def hand(c, name, values, how, round_ok=False):
    """(the object handed to atomman, the float64 values it stands for).  Forms that cannot hold the values exactly fall back to a
    wider one (round_ok: the values are first rounded to the narrow float type instead - the rounded values are then THE input).
    ndarrays and lists are registered: they must be bit-identical after every call (class B)."""
    if how == 'given':
        obj = values
        val = np.array(values, dtype=float)
    else:
        val = np.array(values, dtype=float)
        integral = bool(np.all(val == np.rint(val)))
        if how in _INT_DT or how == 'bool':
            if not integral:
                how = 'array'
            elif how == 'bool' and not np.all((val == 0) | (val == 1)):
                how = 'int8'
            elif how in ('uint8', 'uint16') and val.min() < 0:
                how = 'int8' if how == 'uint8' else 'int16'
            for wider in ('int16', 'int32', 'array'):          # values beyond the limits of the type: the next wider one
                if how in _INT_DT and how != 'bool' and (val.min() < np.iinfo(_INT_DT[how]).min or val.max() > np.iinfo(_INT_DT[how]).max):
                    how = wider
        if how in ('f32', 'f16'):
            dt = np.float32 if how == 'f32' else np.float16
            with np.errstate(over='ignore', under='ignore'):
                cast = val.astype(dt)
            fine = bool(np.all(np.isfinite(cast))) and (how == 'f32' or bool(np.all((cast != 0) | (val == 0))))
            if fine and round_ok and (how == 'f32' or np.all(np.abs(val[val != 0]) > 1e-3)):
                val = cast.astype(float)
            if not (fine and np.array_equal(cast.astype(float), val)):
                how = 'array'
        if how == 'plain':
            obj = list(values)
        elif how == 'tuple':
            obj = tuple(values) if not isinstance(values, np.ndarray) else tuple(float(x) for x in values)
        elif how == 'array':
            obj = np.array(val)
        elif how in _INT_DT:
            obj = np.array(np.rint(val), dtype=_INT_DT[how])
        elif how == 'bool':
            obj = val.astype(bool)
        elif how == 'f32':
            obj = val.astype(np.float32)
        elif how == 'f16':
            obj = val.astype(np.float16)
        elif how == 'readonly':
            obj = np.array(val)
            obj.setflags(write=False)
        elif how == 'strided':
            buf = np.full(2 * len(val) + 1, np.nan)
            obj = buf[1::2]
            obj[:] = val
        else:
            raise ValueError('harness: form %r' % (how,))
    if isinstance(obj, (np.ndarray, list)):
        c.handed.append([name, obj, np.array(obj, copy=True) if isinstance(obj, np.ndarray) else list(obj)])
    return obj, val


def check_handed(c, when):
    """B: whatever was handed in is bit-identical after the call"""
    for name, obj, snap in c.handed:
        if isinstance(obj, np.ndarray):
            same = _same_bits(obj, snap)
        else:
            same = len(obj) == len(snap) and all(type(a) is type(b) and a == b for a, b in zip(obj, snap))
        if not same:
            key = KEY_MUT if name == 'sizemults' and isinstance(obj, list) else None
            raise Violation('the %s handed in as %s was changed %s: %r -> %r'
                            % (name, type(obj).__name__ if not isinstance(obj, np.ndarray) else 'ndarray(%s)' % obj.dtype, when, snap, obj), key=key)


def junk_handed(c, labels, keep=()):
    """B: the caller re-uses its arrays / lists for something else.  Read-only arrays cannot be overwritten (skipped); `keep`:
    name prefixes of arguments that are left alone (not handed over yet / shift vectors)."""
    n = 0
    kept = [item for item in c.handed if item[0].startswith(tuple(keep))] if keep else []
    for item in c.handed:
        name, obj, snap = item
        if keep and name.startswith(tuple(keep)):
            continue
        if isinstance(obj, np.ndarray):
            if not obj.flags.writeable:
                continue
            if obj.dtype.kind == 'f':
                obj[...] = np.nan
            elif obj.dtype.kind == 'b':
                obj[...] = ~obj
            else:
                obj[...] = np.array(snap[::-1] + 1 if snap.ndim == 1 else snap + 1, dtype=float).astype(obj.dtype)
        else:
            obj[:] = [None] * len(obj)
        n += 1
        if name.startswith('shift'):
            labels.add('mut_inputs_shift')
    c.handed = kept
    if n:
        labels.add('mut_inputs')


def junk_system(system):
    """B: the caller overwrites in place a system a call handed out"""
    system.atoms.pos[...] = np.nan
    system.atoms.atype[...] = 0
    if 'old_id' in system.atoms.prop():
        system.atoms.old_id[...] = -1


def make_ucell(am, c, uform, symbols):
    """the unit cell of the case, stored as the form says (C): single precision Cartesian positions (exact values), Fortran
    ordered / read-only / strided position input, narrow integer atom types, everything from nested lists"""
    cart = c.rel @ c.V
    if uform == 'f32':
        p32 = cart.astype(np.float32)
        require(np.array_equal(p32.astype(float), cart), 'harness: unit cell positions are not exact in single precision')
        cell = am.System(atoms=am.Atoms(pos=p32, atype=c.types.copy()), box=am.Box(vects=c.V.copy()), symbols=symbols)
        return cell
    if uform == 'fortran':
        return am.System(atoms=am.Atoms(pos=np.asfortranarray(c.rel.copy()), atype=c.types.copy()), box=am.Box(vects=np.asfortranarray(c.V.copy())),
                         scale=True, symbols=symbols)
    if uform == 'readonly':
        # the caller's cell is read-only once it is built (building a System on read-only arrays is not C13's subject)
        cell = am.System(atoms=am.Atoms(pos=c.rel.copy(), atype=c.types.copy()), box=am.Box(vects=c.V.copy()), scale=True, symbols=symbols)
        cell.atoms.pos.setflags(write=False)
        cell.atoms.atype.setflags(write=False)
        require(not cell.atoms.pos.flags.writeable, 'harness: read-only unit cell')
        return cell
    if uform == 'strided':
        buf = np.full((len(c.rel), 6), np.nan)
        buf[:, ::2] = c.rel
        return am.System(atoms=am.Atoms(pos=buf[:, ::2], atype=c.types.copy()), box=am.Box(vects=c.V.copy()), scale=True, symbols=symbols)
    if uform == 'atype_int8':
        return am.System(atoms=am.Atoms(pos=c.rel.copy(), atype=c.types.astype(np.int8)), box=am.Box(vects=c.V.copy()), scale=True, symbols=symbols)
    if uform == 'lists':
        return am.System(atoms=am.Atoms(pos=c.rel.tolist(), atype=c.types.tolist()), box=am.Box(vects=c.V.tolist()), scale=True, symbols=tuple(symbols))
    return am.System(atoms=am.Atoms(pos=c.rel.copy(), atype=c.types.copy()), box=am.Box(vects=c.V.copy()), scale=True, symbols=symbols)


def np_scalar(x, how):
    """C: a width / cutoff / minimum length as a numpy scalar (float32: the value rounded to single precision IS the input)"""
    if how == 'np_float64':
        return np.float64(x)
    if how == 'np_float32':
        return np.float32(x)
    if how == 'array0d':
        return np.array(float(x))
    return x


def np_int(x, how):
    """C: a multiplier / index as a numpy integer scalar (unsigned forms only for non-negative values)"""
    t = {'np_int64': np.int64, 'np_int8': np.int8, 'np_uint8': np.uint8, 'np_int32': np.int32, 'np_int16': np.int16, 'np_intp': np.intp}.get(how)
    if t is None or (x < 0 and t is np.uint8):
        return int(x)
    return t(x)


class Ctx(object):
    pass


def _axes(mn):
    if mn['kind'] == 'default':
        m, n = 'y', 'z'
    else:
        m, n = mn['m'], mn['n']
    m_ax, n_ax = np.array(g.AXV[m]), np.array(g.AXV[n])
    return m, n, m_ax, n_ax, np.cross(m_ax, n_ax)


def _mn_kwargs(c, mn):
    k = mn['kind']
    if k == 'default':
        return {}
    if k == 'str':
        return {'m': mn['m'], 'n': mn['n']}
    f = c.forms.get('mn', 'plain')
    if f != 'plain':
        return {'m': hand(c, 'm', [int(x) for x in g.AXV[mn['m']]], f)[0], 'n': hand(c, 'n', [int(x) for x in g.AXV[mn['n']]], f)[0]}
    if k == 'vec':
        return {'m': list(g.AXV[mn['m']]), 'n': hand(c, 'n', np.array(g.AXV[mn['n']]), 'given')[0]}
    return {'m': [int(x) for x in g.AXV[mn['m']]], 'n': [int(x) for x in g.AXV[mn['n']]]}


def _int4(v3):
    """smallest integer Miller-Bravais [uvtw] parallel to the integer Miller vector [uvw]"""
    f = [int(round(3 * x)) for x in g.vec3to4(v3)]
    gg = 0
    for x in f:
        gg = math.gcd(gg, abs(x))
    return [x // gg for x in f]


def setup(cr):
    """unit cell, elastic constants, expected frame: everything known *before* atomman's Dislocation is built"""
    import atomman as am
    c = Ctx()
    c.am = am
    c.cr = cr
    name = cr['struct']
    S = g.STRUCTS[name]
    # overall length scale of the case (every length below carries it; c.s is also the unit of the oracle's length tolerances)
    c.lk = int(cr.get('lk', 0))
    # D: the size of one Angstrom in the working units in force (my own product of numericalunits attributes; 1 in the default
    # configuration): the case describes a PHYSICAL crystal (numbers in Angstrom x 10^lk), handed to atomman in working units
    c.uf = angstrom_now()
    c.s = 10.0 ** c.lk * c.uf
    c.forms = cr.get('forms') or {}
    c.handed = []
    c.ledger = Ledger()
    a0 = cr['a']
    uform = c.forms.get('uc', 'plain')
    if uform == 'f32' and name not in g.CUBIC_C:
        uform = 'plain'
    if uform == 'f32':
        # every Cartesian coordinate a multiple of a / 4 with a = k / 64: exact in single precision (the lattice parameter of the
        # case whatever the unit system; the single precision storage itself only where the numbers are the Angstrom ones)
        a0 = max(1, round(a0 * 64)) / 64.0
        if c.s != 1.0:
            uform = 'plain'
    c.a = a0 * c.s
    # G: the crystal in a frame turned by a proper signed permutation of the axes (rows of V are the cell vectors)
    c.Q = g.SIGNED_PERMS[int(cr.get('orient', 0))]
    c.V = (g.struct_vects(name, cr.get('coa', 1.633)) @ c.Q.T) * c.a
    c.rel = np.array(S[1], dtype=float)
    c.types = np.array(S[2], dtype=int)
    c.setting = S[3]
    c.symbols = tuple(S[5])
    c.natypes = len(S[5])
    c.uform = uform
    c.ucell = make_ucell(am, c, uform, list(S[5]))
    C = cr['C']
    c.ce = int(cr.get('ce', 0))
    cs = 10.0 ** c.ce                       # magnitude of the elastic constants (energy / length^3): the field does not depend on it
    if C['kind'] == 'hex':
        c.C = am.ElasticConstants(C11=C['C11'] * cs, C12=C['C12'] * cs, C13=C['C13'] * cs, C33=C['C33'] * cs, C44=C['C44'] * cs)
    else:
        c.C = am.ElasticConstants(C11=C['C11'] * cs, C12=C['C12'] * cs, C44=C['C44'] * cs)
    b3, xi3, hkl3 = np.array(cr['b'], dtype=float), np.array(cr['xi'], dtype=float), np.array(cr['hkl'], dtype=float)
    mil = c.forms.get('mil', 'plain')
    if cr.get('hex4'):
        c.args = (hand(c, 'burgers', g.vec3to4(cr['b']), 'array' if mil != 'plain' else 'plain')[0],
                  hand(c, 'xi_uvw', _int4(cr['xi']), mil)[0], hand(c, 'slip_hkl', g.plane3to4(cr['hkl']), mil)[0])
    else:
        c.args = (hand(c, 'burgers', list(cr['b']), mil)[0], hand(c, 'xi_uvw', list(cr['xi']), mil)[0],
                  hand(c, 'slip_hkl', list(cr['hkl']), mil)[0])
    # Cartesian Burgers vector, line direction, plane normal in the unit cell's frame
    c.b_old = b3 @ c.V
    xi_c = xi3 @ c.V
    c.xi_hat = xi_c / np.linalg.norm(xi_c)
    nrm = np.linalg.inv(c.V) @ hkl3                  # h a* + k b* + l c*
    c.n_hat = nrm / np.linalg.norm(nrm)
    c.m_hat = np.cross(c.n_hat, c.xi_hat)
    c.mname, c.nname, c.m_ax, c.n_ax, c.xi_ax = _axes(cr['mn'])
    c.default_mn = (c.mname, c.nname) == ('y', 'z')
    c.cyclic = (c.mname, c.nname) in (('x', 'y'), ('y', 'z'), ('z', 'x'))
    c.T = np.outer(c.xi_ax, c.xi_hat) + np.outer(c.n_ax, c.n_hat) + np.outer(c.m_ax, c.m_hat)
    c.b = c.T @ c.b_old                               # Burgers vector in the dislocation frame
    c.line = int(np.argmax(np.abs(c.xi_ax)))
    c.cut = int(np.argmax(np.abs(c.n_ax)))
    c.motion = 3 - c.line - c.cut
    ang = math.degrees(math.atan2(np.linalg.norm(np.cross(c.b_old, xi_c)), float(c.b_old @ xi_c)))
    c.character = 'screw' if min(ang, 180 - ang) < 1e-6 else 'edge' if abs(ang - 90) < 1e-6 else 'mixed'
    c.bmag = float(np.linalg.norm(c.b))
    c.kw = dict(conventional_setting=c.setting)
    c.kw.update(_mn_kwargs(c, cr['mn']))
    # the same arguments once more as plain Python objects (for objects built after the caller overwrote its arrays)
    if cr.get('hex4'):
        c.args0 = (g.vec3to4(cr['b']), _int4(cr['xi']), g.plane3to4(cr['hkl']))
    else:
        c.args0 = (list(cr['b']), list(cr['xi']), list(cr['hkl']))
    c.kw0 = dict(conventional_setting=c.setting)
    if cr['mn']['kind'] != 'default':
        c.kw0.update(m=cr['mn']['m'], n=cr['mn']['n'])
    c.near_used = set()
    c.lm = {}
    return c


def labels_of(c):
    cr = c.cr
    labs = {cr['struct'], c.character, 'mn_' + cr['mn']['kind'], 'shift_' + cr['shift']['kind'], 'C_' + cr['C']['kind']}
    labs.add('mn_default_axes' if c.default_mn else 'mn_cyclic' if c.cyclic else 'mn_anticyclic')
    if cr.get('hex4'):
        labs.add('hex4')
    if cr.get('partial'):
        labs.add('partial')
    if c.character != 'screw' and not c.default_mn:
        labs.add('nt')
    if c.lk:
        labs.add('scaled')
        labs.add('scaled_small' if c.lk < 0 else 'scaled_large')
        labs.add('scale_1e%d' % c.lk if c.lk in (-10, -12, 6) else 'scale_other')
        if c.character != 'screw' and not c.default_mn:
            labs.add('nt_scaled')
    if c.ce:
        labs.add('C_magnitude_scaled')
    # C: forms
    f = c.forms
    narrow = [k for k in ('mil', 'mn', 'sh', 'cen', 'sm', 'si', 'sc') if f.get(k, 'plain') != 'plain']
    if narrow or c.uform != 'plain':
        labs.add('forms')
        for k in narrow:
            labs.add('form_' + k)
        if any(f.get(k) in ('int8', 'int16', 'int32', 'uint8', 'uint16', 'be', 'bool', 'f32', 'f16') for k in ('mil', 'mn', 'sh', 'cen')) \
                or f.get('sm', 'plain') != 'plain' or f.get('si', 'plain') != 'plain' or f.get('sc') == 'np_float32':
            labs.add('narrow')
        if c.uform != 'plain':
            labs.add('ucell_' + c.uform)
    # G: frame of the unit cell
    if int(cr.get('orient', 0)):
        labs.add('oriented')
        if np.any(np.diag(c.Q) < 0) and np.count_nonzero(c.Q - np.diag(np.diag(c.Q))) == 0:
            labs.add('oriented_diagonal_negative')
    if c.uf != 1.0:
        labs.add('units_A_gt1' if c.uf > 1 else 'units_A_ge1e-3' if c.uf >= 1e-3 else 'units_A_lt1e-3')
    return labs


def class_labels(c, case, labels):
    """labels of the E / G classes of a monopole / array case, once the calls have been made"""
    nr = case.get('near')
    if nr:
        labels.add('near')
        for k in ('plane', 'face', 'cen'):
            if k in nr:
                labels.add('near_' + k)
    for k in c.near_used:
        labels.add(k if k in ('int_limit', 'default_sizemults') else 'near_' + k)
    if c.near_used & {'bd', 'min'}:
        labels.add('near')

    def exact(sp):
        return sp and sp.get('kind') in ('vec', 'vecscaled', 'vec_call') and any(abs(x) in (0.5, 0.25, 0.125) for x in sp.get('inplane', []))
    h = case.get('hist')
    if exact(h['call'] if h else c.cr['shift']) or (case['center']['kind'] in ('abs', 'scaled') and abs(case['center']['m']) in (0.125, 0.0625, 0.25)):
        labels.add('halves')


def planes_of(c, pos, shift):
    """sorted distinct coordinates along n (mod the rotated cell's period) of the atomic planes after `shift`"""
    P = c.P
    y = (pos @ c.n_ax + float(np.dot(shift, c.n_ax))) % P
    y = np.sort(y)
    keep = np.concatenate(([True], np.diff(y) > 1e-6 * c.s))
    y = y[keep]
    if len(y) > 1 and y[-1] - y[0] > P - 1e-6 * c.s:
        y = y[:-1]
    return y


def gap_at_zero(c, pos, shift):
    """(y_above, y_below) of the atomic planes adjoining the plane y = 0 (y_below < 0 < y_above)"""
    y = planes_of(c, pos, shift)
    P = c.P
    y = np.where(y > P / 2, y - P, y)
    y = np.sort(np.concatenate((y, y + P, y - P)))
    above = y[y > 1e-9 * c.s]
    below = y[y < -1e-9 * c.s]
    return float(above.min()), float(below.max())


def build(c):
    """atomman's Dislocation for the case (with the shift option of the case), plus the quantities derived from it that the
    later oracles need.  Raises the keyed orientation finding early when the rotated cell is not in the solution's frame.
    None: the elastic solver refused a medium with scaled constants (label solver_refused)."""
    am = c.am
    cr = c.cr
    b, xi, hkl = c.args
    # `tol` is left at its default whatever the length unit: it is documented as "a cutoff tolerance used with obtaining the
    # dislocation solution" and the solvers compare it with dimensionless quantities (a tol of 1e-8 x 1e-10 makes Stroh refuse
    # every medium).  Dislocation.__init__ also uses it as an absolute length (atol of conventional_to_primitive, rounding and
    # atol of the plane coordinates in __identify_shifts): the open finding KEY_TOL, met when 1e-8 working units is not
    # negligible against the plane spacing (cell <= 1e-2 units) or is below the rounding of the coordinates (cell >= 1e6 units).
    # Same constructor, same class of input: conventional_to_primitive is called with its default smallshift = 0.001 working
    # units (1e9 lattice parameters at 1e-12: 'N atoms found, M expected', or positions good to 7 digits only).
    c.tol_class = c.lk <= -2 or c.lk >= 6
    try:
        d0 = am.defect.Dislocation(c.ucell, c.C, b, xi, hkl, **c.kw)
    except (ValueError, IndexError, AssertionError) as e:
        if 'C must be isotropic elastic constants' in str(e):     # (also at magnitude 1: an elastically degenerate line direction, seed 7 of the sweeps)
            # the Stroh solver refused the medium (its self-checks are not independent of the magnitude of C: 2 media of 1500
            # at 1e3, none seen at 1) and the dispatcher fell through to the isotropic solver's refusal.  The solvers are C12's
            # subject ("that the solver accepts"): counted (max_share guard), not judged
            return None
        if c.tol_class and (isinstance(e, IndexError) or 'Multiple overlapping atoms found' in str(e)
                            or 'do not seem to match indicated setting' in str(e)
                            or (isinstance(e, AssertionError) and re.search(r'\d+ atoms found, \d+ expected', str(e)))):
            raise Violation('Dislocation(...) of a crystal with a = %.6g working units (default tol) raised %s: %s'
                            % (c.a, type(e).__name__, e), key=KEY_TOL)
        raise
    c.d = d0
    c.d0 = d0
    check_handed(c, 'by Dislocation(...)')
    check_frame(c, d0)
    rv = np.array(d0.rcell.box.vects, dtype=float)
    c.rvects = rv
    c.P = abs(float(rv[c.cut] @ c.n_ax))
    c.nshifts = len(d0.shifts)
    if c.tol_class:
        # every clause: with a wrong list of shifts nothing behind it is defined
        try:
            check_shifts(c, d0)
        except Violation as v:
            raise Violation('a = %.6g working units (default tol): %s' % (c.a, v.detail), key=KEY_TOL)
    sh = cr['shift']
    kind = sh['kind']
    c.callshift = {}
    shifts = np.array(d0.shifts, dtype=float)
    if kind == 'default':
        c.shift = shifts[0]
    elif kind in ('index', 'index_call'):
        i = sh['index'] % c.nshifts
        c.shift = shifts[i]
        if sh['index'] < 0:
            i -= c.nshifts
        ii = np_int(i, c.forms.get('si', 'plain'))
        if kind == 'index':
            c.d = am.defect.Dislocation(c.ucell, c.C, b, xi, hkl, shiftindex=ii, **c.kw)
        else:
            c.callshift = {'shiftindex': ii}
    else:
        i = sh['index'] % c.nshifts
        ya, yb = gap_at_zero(c, np.array(d0.rcell.atoms.pos), shifts[i])
        hh = (ya - yb) / 2
        vec = (shifts[i] + sh['inplane'][0] * rv[c.line] + sh['inplane'][1] * rv[c.motion]
               + sh['normal'] * hh * c.n_ax)
        how = c.forms.get('sh', 'plain')
        if kind == 'vecscaled':
            obj, relv = hand(c, 'shift', np.linalg.solve(rv.T, vec).tolist(), how, round_ok=True)
            c.shift = relv @ rv
            c.d = am.defect.Dislocation(c.ucell, c.C, b, xi, hkl, shift=obj, shiftscale=True, **c.kw)
        elif kind == 'vec':
            obj, c.shift = hand(c, 'shift', vec.tolist(), how, round_ok=True)
            c.d = am.defect.Dislocation(c.ucell, c.C, b, xi, hkl, shift=obj, **c.kw)
        else:
            obj, c.shift = hand(c, 'shift of the coming call', vec, 'given' if how == 'plain' else how, round_ok=True)
            c.callshift = {'shift': obj}
        check_handed(c, 'by Dislocation(..., shift=...)')
    # A: what the object hands out about itself, kept for the whole case
    for dd, nm in ((d0, 'first object'), (c.d, 'object')) if c.d is not d0 else ((d0, 'object'),):
        c.ledger.add('.shifts / .uvws / .transform / rcell of the ' + nm,
                     [dd.shifts, dd.uvws, dd.transform, dd.rcell.atoms.pos, dd.rcell.atoms.atype, dd.rcell.box.vects, dd.rcell.box.origin,
                      dd.dislsol.burgers, dd.dislsol.m, dd.dislsol.n], 'ctor ' + nm)
    return c.d


FIRSTCAP = 800      # atoms in the configuration of an earlier (unjudged) call of a history


def _as(c, vec, how):
    """(object handed in, the vector it stands for): container of the shift spec, overridden by the form of the case (C)"""
    f = c.forms.get('sh', 'plain')
    how = f if f != 'plain' else (how if how in ('array', 'tuple') else 'plain')
    return hand(c, 'shift', [float(x) for x in vec], how, round_ok=True)


def resolve_callshift(c, spec, gen, cen):
    """(expected Cartesian shift, keyword arguments, tag) of a shift choice given to monopole() / periodicarray() on the existing
    object c.d.  'keep' (neither shift nor shiftindex given): (None, {}, 'keep') - the object's shift stays what it is."""
    shifts = np.array(c.d.shifts, dtype=float)
    n, rv = len(shifts), c.rvects
    k = spec['kind']
    if k == 'keep':
        return None, {}, 'keep'
    if k == 'index0':
        return shifts[0], {'shiftindex': np_int(0, c.forms.get('si', 'plain'))}, 'index'
    if k == 'index':
        i = spec['index'] % n
        vec = shifts[i]
        if spec['index'] < 0:
            i -= n
        return vec, {'shiftindex': np_int(int(i), c.forms.get('si', 'plain'))}, 'index'
    if k == 'zero':
        # the all-zero vector leaves an atomic plane on y = 0.  periodicarray answers with its documented refusal (so only half
        # of the draws are spent on it); monopole is defined when the centre moves the cut plane off that atomic plane
        # (resolve_center keeps it short of the next one).  Otherwise: the explicit vector equal to one of .shifts
        if (gen == 'periodicarray' and spec['index'] % 2 == 0) or (gen == 'monopole' and cen['kind'] in ('abs', 'scaled') and abs(cen['n']) >= 0.05):
            v = spec['variant']
            fi = c.forms.get('cen', 'plain')
            kw = {'shift': [0, 0, 0] if v == 'int' else np.zeros(3) if v == 'array' else [0.0, 0.0, 0.0]}
            if v == 'int' and fi in _INT_DT:
                kw['shift'] = hand(c, 'shift', [0, 0, 0], fi)[0]
            if v == 'scaled':
                kw['shiftscale'] = True
            return np.zeros(3), kw, 'zero'
        spec = {'kind': 'vec', 'index': spec['index'], 'inplane': [0.0, 0.0], 'normal': 0.0, 'as': 'list'}
        k = 'vec'
    i = spec['index'] % n
    ya, yb = gap_at_zero(c, np.array(c.d.rcell.atoms.pos), shifts[i])
    vec = (shifts[i] + spec['inplane'][0] * rv[c.line] + spec['inplane'][1] * rv[c.motion]
           + spec['normal'] * (ya - yb) / 2 * c.n_ax)
    if k == 'vecscaled':
        obj, relv = _as(c, np.linalg.solve(rv.T, vec), spec.get('as'))
        return relv @ rv, {'shift': obj, 'shiftscale': True}, 'vecscaled'
    obj, vec = _as(c, vec, spec.get('as'))
    return vec, {'shift': obj}, 'vec'


def after_ctor(c, case, labels):
    """B: once the object is built the caller re-uses the arrays / lists it handed to the constructor"""
    lm = case.get('lm') or {}
    c.lm = lm
    if lm.get('mut_in'):
        junk_handed(c, labels, keep=('shift of the coming call',) + (() if lm.get('mut_shift_in') else ('shift',)))
        if not c.callshift:
            probe_shift_alias(c, 'after the arrays handed to Dislocation(...) were overwritten by the caller')
    # (the unit cell and the ElasticConstants object are not overwritten: the object keeps the caller's cell by reference and
    # hands it back as .ucell, "the reference conventional unit cell" - boundaryscale reads its box at call time; what a solved
    # solution does when C is re-defined is C12's history clause)


def probe_shift_alias(c, when):
    got = np.asarray(c.d.shift, dtype=float)
    ok = got.shape == (3,) and np.all(np.isfinite(got)) and np.abs(got - c.shift).max() <= 1e-9 * (c.s + np.abs(c.shift).max())
    require(ok, lambda: 'attribute shift = %r %s; the shift that was set is %r (set_shift keeps the caller\'s array instead of a copy)'
            % (c.d.shift, when, np.asarray(c.shift).tolist()), key=KEY_ALIAS)


def after_call(c, labels, when, results=None, group=None):
    """A / B bookkeeping after a generator call: arguments untouched; the caller then overwrites them (mut_in); the systems handed
    out are overwritten (mut_out, earlier calls only) or entered in the ledger"""
    check_handed(c, 'by ' + when)
    lm = c.lm
    if lm.get('mut_in'):
        junk_handed(c, labels, keep=() if lm.get('mut_shift_in') else ('shift',))
        probe_shift_alias(c, 'after the arrays handed to %s were overwritten by the caller' % when)
    c.handed = []
    if results is None:
        return
    base, disl = results
    if group != 'judged' and lm.get('mut_out'):
        junk_system(base)
        junk_system(disl)
        labels.add('mut_outputs')
    else:
        c.ledger.add_system('base system returned by ' + when, base, group)
        c.ledger.add_system('dislocation system returned by ' + when, disl, group + "'")
        labels.add('ledger_' + group)


def overwrite_shift_attribute(c, labels):
    """B: the caller writes into the array .shift handed out (and then names the shift of the next call explicitly): the table
    .shifts must not move"""
    d = c.d
    arr = d.shift
    if not (isinstance(arr, np.ndarray) and arr.flags.writeable):
        return
    before = np.array(d.shifts, dtype=float, copy=True)
    arr[...] = np.nan if arr.dtype.kind == 'f' else 7
    now = np.array(d.shifts, dtype=float)
    require(_same_bits(before, now), lambda: '.shifts changed from %r to %r when the caller overwrote the array handed out as .shift '
            '(set_shift(shiftindex=i) hands out a view of row i of .shifts)' % (before.tolist(), now.tolist()), key=KEY_ALIAS)
    for name, obj, snap in c.handed:
        if isinstance(obj, np.ndarray):
            require(_same_bits(obj, snap), lambda: 'writing into the array read from .shift wrote into the %s array the caller handed in '
                    '(set_shift keeps the caller\'s array instead of a copy)' % name, key=KEY_ALIAS)
    labels.add('mut_shift_attribute')


def apply_history(c, case, gen, labels):
    """History of the ONE Dislocation object c.d (built by build() with the shift option given at initialisation) up to the
    judged call of `gen`: an optional earlier generator call with its own arguments, then the shift choice of the judged call.
    Leaves c.shift (the shift the judged call asks for) and c.callshift (its keyword arguments)."""
    after_ctor(c, case, labels)
    h = case.get('hist')
    if not h:
        if c.callshift.get('shiftindex') is not None and int(c.callshift['shiftindex']) == 0:
            labels.add('explicit_shiftindex0')
        return
    d = c.d
    shifts0 = np.array(d.shifts, dtype=float)[0]
    ctor = np.array(c.shift, dtype=float)
    f = h.get('first')
    if f:
        vec, kw, tag = resolve_callshift(c, f['shift'], f['gen'], f['center'])
        if vec is not None:
            c.shift = vec
        c.callshift = kw
        if f['gen'] == 'monopole':
            r = run_monopole(c, f, cap=FIRSTCAP)
        else:
            r = run_array(c, f, set(), cap=FIRSTCAP)
        after_call(c, labels, 'the earlier %s() call' % f['gen'], None if r is None else (r['base'], r['disl']), 'first')
        labels.add('history_second_call')
        labels.add('history_first_' + ('refused' if r is None else f['gen']))
        labels.add('history_first_shift_' + tag)
        if f['gen'] != gen:
            labels.add('history_other_generator')
    current = np.array(c.shift, dtype=float)        # the shift the object holds now: last one set, at initialisation or by a call
    vec, kw, tag = resolve_callshift(c, h['call'], gen, case['center'])
    c.callshift = kw
    if vec is None:
        # no shift argument: "will use the shift set during class initialization" (monopole) / the attribute `shift`, "the
        # particular shift value that will be ... used".  The generator only draws this when both name the same vector.
        labels.add('history_keep')
        require(np.abs(np.asarray(d.shift, dtype=float) - current).max() <= 1e-9 * (c.s + np.abs(current).max()),
                lambda: 'attribute shift = %r before a call without shift arguments, last set %r' % (d.shift, current))
        return
    if c.lm.get('mut_shift') and h['call']['kind'] != 'index0':
        overwrite_shift_attribute(c, labels)
    c.shift = vec
    labels.add('call_shift_' + tag)
    differs = np.abs(vec - current).max() > 1e-6 * c.s
    if f:
        if differs:
            labels.add('history_shift_changes')
    elif c.cr['shift']['kind'] != 'default' and np.abs(vec - ctor).max() > 1e-6 * c.s:
        labels.add('history_ctor_shift_differs')
    if kw.get('shiftindex') is not None and int(kw['shiftindex']) == 0:
        labels.add('explicit_shiftindex0')
        if np.abs(current - shifts0).max() > 1e-6 * c.s:
            labels.add('explicit_shiftindex0_stale')
    if tag == 'zero':
        labels.add('explicit_zero_shift')


def later_calls(c, case, r, labels):
    """A: once the judged call has been judged, later calls are made - on the same object, on another Dislocation object of the
    same crystal - and everything handed out earlier (by the constructor, by an earlier call, by the judged call) must still be,
    bit for bit, what it was at return time"""
    lm = c.lm
    c.ledger.verify('by the calls of the history')
    what = lm.get('after', 'none')
    if what == 'none':
        if len([e for e in c.ledger.entries if e[3].startswith('first')]):
            labels.add('ledger')
        return
    am = c.am
    kw = {}
    if lm.get('same_size') and r is not None:
        kw = {k: v for k, v in r['kw'].items() if k in ('sizemults', 'amin', 'bmin', 'cmin')}
        if not isinstance(kw.get('sizemults', []), (list, tuple)) or any(not isinstance(x, int) for x in kw.get('sizemults', [])):
            kw['sizemults'] = [int(x) for x in r['exp']]
        labels.add('ledger_same_size')
    targets = []
    if what in ('same', 'both'):
        targets.append((c.d, 'the same object'))
    if what in ('other', 'both'):
        other = c.d0 if c.d0 is not c.d else am.defect.Dislocation(c.ucell, c.C, *c.args0, shiftindex=1 % c.nshifts, **c.kw0)
        targets.append((other, 'another Dislocation object'))
        labels.add('ledger_other_object')
    for obj, nm in targets:
        fn = getattr(obj, lm.get('gen', 'monopole'))
        try:
            res = fn(shiftindex=0, return_base_system=True, **kw)
        except ValueError as e:
            if not any(text in str(e) for _, text in REFUSALS):
                raise
            res = None
        if res is not None:
            c.ledger.add_system('base system of a later call on ' + nm, res[0], 'later ' + nm)
            c.ledger.add_system('dislocation system of a later call on ' + nm, res[1], 'later ' + nm + "'")
        c.ledger.verify('by a later %s() call on %s' % (lm.get('gen', 'monopole'), nm))
    labels.add('ledger')
    labels.add('ledger_later_calls')


def check_shift_attribute(c, d, when):
    """the attribute `shift` is documented as the particular shift value that was used to construct the dislocation system"""
    got = np.asarray(d.shift, dtype=float)
    require(got.shape == (3,) and np.abs(got - c.shift).max() <= 1e-9 * (c.s + np.abs(c.shift).max()),
            lambda: 'attribute shift = %r %s, the call asked for %r' % (d.shift, when, c.shift.tolist()))


def check_frame(c, d):
    """The rotated cell must be in the frame of the elastic solution: its box vectors are the crystal vectors `uvws` mapped
    by `transform`.  (Everything downstream evaluates the solution at the Cartesian positions of this cell.)"""
    T = np.array(d.transform, dtype=float)
    require(np.abs(T - c.T).max() <= 1e-9,
            lambda: 'transform differs from the rotation taking xi_uvw to m x n, the plane normal to n:\n%r\nexpected\n%r' % (T, c.T))
    for name, exp in (('lineindex', c.line), ('cutindex', c.cut), ('motionindex', c.motion)):
        require(int(getattr(d, name)) == exp, lambda: '%s = %r, expected %d for m=%s n=%s' % (name, getattr(d, name), exp, c.mname, c.nname))
    uv = np.array(d.uvws, dtype=float)
    if c.cr.get('hex4'):
        require(uv.shape == (3, 4), lambda: 'uvws shape %r for 4-index input' % (uv.shape,))
        uv = np.array([[2 * r[0] + r[1], 2 * r[1] + r[0], r[3]] for r in uv])
    require(uv.shape == (3, 3), lambda: 'uvws shape %r' % (uv.shape,))
    exp = (uv @ c.V) @ c.T.T
    rv = np.array(d.rcell.box.vects, dtype=float)
    scale = np.abs(exp).max()
    c.uvw3 = uv
    c.rv_expected = exp
    if np.abs(rv - exp).max() <= 1e-7 * scale:
        return
    # not in the solution frame.  Pure misorientation (same cell, rotated)?
    R = np.linalg.solve(exp, rv)                 # exp @ R = rv
    pure = (np.abs(R @ R.T - np.eye(3)).max() <= 1e-7 and abs(np.linalg.det(R) - 1) <= 1e-7)
    detail = ('rcell.box.vects are not the crystal vectors uvws mapped by transform (m=%s, n=%s):\n%r\nexpected\n%r'
              % (c.mname, c.nname, rv, exp))
    if pure:
        p = np.array(d.rcell.atoms.pos, dtype=float) @ R.T
        bad = crystal_problems(c, p, np.array(d.rcell.atoms.atype), np.zeros(3))
        if not bad and not c.default_mn:
            ang = math.degrees(math.acos(max(-1.0, min(1.0, (np.trace(R) - 1) / 2))))
            ax = _rot_axis(R)
            half_turn = (not c.cyclic and abs(ang - 180) < 1e-5 and abs(abs(np.dot(ax, c.n_ax)) - 1) < 1e-6)
            # the open finding is exactly "rcell is left in the LAMMPS-normalised orientation rotate() returns":
            # any other rotation of the right crystal is a different defect and stays unkeyed
            key = KEY_ANTI if half_turn else (KEY_SKEW if _is_lammps_normal_form_of(rv, exp) else None)
            raise Violation(detail + '\nthe cell is the right crystal turned by %.6g deg about %r' % (ang, np.round(ax, 4).tolist()),
                            key=key)
    raise Violation(detail)


def _is_lammps_normal_form_of(rv, exp):
    """rv equals the cell exp re-expressed with a along x, b in the xy plane (right-handed), to 1e-6"""
    a, b, c = (np.array(v, dtype=float) for v in exp)
    ex = a / np.linalg.norm(a)
    by = b - np.dot(b, ex) * ex
    ey = by / np.linalg.norm(by)
    ez = np.cross(ex, ey)
    lmp = np.array([[np.dot(v, ex), np.dot(v, ey), np.dot(v, ez)] for v in (a, b, c)])
    return bool(np.abs(np.array(rv, dtype=float) - lmp).max() <= 1e-6 * np.abs(lmp).max())


def _rot_axis(R):
    w, v = np.linalg.eig(R)
    ax = np.real(v[:, np.argmin(np.abs(w - 1))])
    return ax / np.linalg.norm(ax)


def crystal_problems(c, pos, atype, shift, tol=1e-6):
    """list of problems mapping positions (dislocation frame, after `shift`) back on the unit cell's crystal (tol x the length
    scale of the case)"""
    motif = cm.Motif(c.V, None, c.rel @ c.V, tol * c.s)      # tol in units of the length scale
    p_old = (np.asarray(pos, dtype=float) - shift) @ c.T          # row vectors: T^T applied
    m = motif.match(p_old)
    out = []
    un = m.unmatched
    if len(un):
        out.append('%d of %d atoms are not on a site of the unit cell crystal rotated by transform and shifted by shift '
                   '(first #%d at %r, %.3g from the nearest site)' % (len(un), len(p_old), un[0], np.asarray(pos)[un[0]].tolist(), m.dist[un[0]]))
    ok = m.index >= 0
    wrongtype = ok & (c.types[np.clip(m.index, 0, None)] != np.asarray(atype))
    if wrongtype.any():
        i = int(np.where(wrongtype)[0][0])
        out.append('%d atoms sit on a site of another atom type (first #%d: type %d on a type %d site)'
                   % (wrongtype.sum(), i, int(np.asarray(atype)[i]), int(c.types[m.index[i]])))
    return out


def resolve_sizes(c, size, cap=CAP, min_motion=0.0):
    """multipliers passed, multipliers expected after the a/b/cmin rule, keyword arguments.  `min_motion`: smallest
    system length along m (periodic arrays need |b.m| |b| / 2L well below the duplicate cutoff, see run_array).
    size['min'] one minimum length, size['mins'] several (H), size['min_near'] one a relative 1e-12 .. 1e-3 above / below a whole
    number of cells (E), size['default'] no sizemults argument where the documented default (2, 2 and 1 along the line) will do"""
    k = [0, 0, 0]
    k[c.line], k[c.motion], k[c.cut] = size['line'], size['motion'], size['cut']
    if size.get('default'):
        k[c.line], k[c.motion], k[c.cut] = 1, 2, 2
    n0 = c.d.rcell.natoms
    wm = abs(float(c.rvects[c.motion] @ c.m_ax))
    kmin = 2
    if min_motion > 0:
        kmin = max(2, 2 * int(math.ceil(min_motion / wm / 2)))
        k[c.motion] = max(k[c.motion], kmin)

    def total(kk):
        return n0 * kk[0] * kk[1] * kk[2]
    while total(k) > cap:
        if k[c.cut] > 2 and (k[c.cut] >= k[c.motion] or k[c.motion] <= kmin):
            k[c.cut] -= 2
        elif k[c.motion] > kmin:
            k[c.motion] -= 2
        elif k[c.line] > 1:
            k[c.line] -= 1
        else:
            break
    exp = list(k)
    kw = {}
    sform = c.forms.get('sc', 'plain')
    mins = ([size['min']] if 'min' in size else []) + list(size.get('mins', []))
    for axis, v in mins:
        idx = 'abc'.index(axis)
        L = float(np.linalg.norm(c.rvects[idx]))
        val = float(v) * c.s
        if sform == 'np_float32':
            val = float(np.float32(val))
        mult = int(math.ceil(val / L))
        if idx != c.line and mult % 2 == 1:
            mult += 1
        trial = list(exp)
        trial[idx] = max(trial[idx], mult)
        # keep clear of the rounding edge of ceil() and of the atom cap
        if abs(val / L - round(val / L)) > 1e-6 and total(trial) <= cap and val > 0:
            exp = trial
            kw[axis + 'min'] = np_scalar(val, sform)
    nr = size.get('min_near')
    if nr and (nr['axis'] + 'min') not in kw:
        # E: a minimum length a hair above / below kk cells: "minimum thickness" - above needs one more cell, below does not
        idx = 'abc'.index(nr['axis'])
        L = float(np.linalg.norm(c.rvects[idx]))
        kk = int(nr['k'])
        val = kk * L * (1.0 + nr['e'])
        mult = kk + 1 if nr['e'] > 0 else kk
        if idx != c.line and mult % 2 == 1:
            mult += 1
        trial = list(exp)
        trial[idx] = max(trial[idx], mult)
        if total(trial) <= cap and abs(nr['e']) >= 1e-12:
            exp = trial
            kw[nr['axis'] + 'min'] = val
            c.near_used.add('min')
    if size.get('default') and k == [1 if i == c.line else 2 for i in range(3)]:
        c.near_used.add('default_sizemults')
        return k, exp, kw
    smf = c.forms.get('sm', 'plain')
    if smf in ('array', 'array_int16'):
        kw['sizemults'] = hand(c, 'sizemults', np.array(k, dtype=np.int16 if smf == 'array_int16' else np.int64), 'given')[0]
    else:
        kk = [np_int(x, smf) for x in k]
        kw['sizemults'] = tuple(kk) if size.get('tuple') else hand(c, 'sizemults', kk, 'plain')[0]
    return k, exp, kw


INT_LIMITS = {'int8': (-128, 127), 'int16': (-32768, 32767), 'int32': (-2 ** 31, 2 ** 31 - 1), 'be': (-2 ** 31, 2 ** 31 - 1),
              'uint8': (0, 255), 'uint16': (0, 65535)}


def resolve_center(c, cen, base_vects):
    """Cartesian centre and keyword arguments"""
    k = cen['kind']
    form = c.forms.get('cen', 'plain')
    if k == 'none':
        return np.zeros(3), {}
    if k == 'int':
        # integer typed Cartesian centre: whole units x the length scale when that is a whole number (10^k, k >= 0, default working
        # units), else the integer zero vector (whole working units are 10^-k lattice parameters away)
        whole = c.lk >= 0 and c.uf == 1.0
        vec = (cen['m'] * c.m_ax + cen['l'] * c.xi_ax) * (10 ** c.lk if whole else 0)
        vals = [int(round(x)) for x in vec]
        if form not in INT_LIMITS and form not in ('plain', 'tuple', 'array', 'readonly', 'strided'):
            form = 'plain'
        big = c.forms.get('big', 0)
        if whole and c.lk == 0 and big in (1, 2):
            # C: the component along the line (on which nothing depends) at the limit of the integer type
            lo, hi = INT_LIMITS.get(form, (-10 ** 6, 10 ** 6))
            vals[c.line] = hi if big == 1 or lo == 0 else lo
            c.near_used.add('int_limit')
        obj, val = hand(c, 'center', vals, form)
        return val, {'center': obj}
    W = abs(float(base_vects[c.motion] @ c.m_ax))
    ya, yb = gap_at_zero(c, np.array(c.d.rcell.atoms.pos), c.shift)
    room = min(ya, -yb)
    # the cut plane y = c_n stays strictly between the two planes adjoining y = 0
    vec = cen['m'] * W * c.m_ax + cen['n'] * room * c.n_ax + cen['l'] * float(np.linalg.norm(c.rvects[c.line])) * c.xi_ax
    if form in INT_LIMITS or form == 'bool':
        form = 'array'
    if abs(cen['n']) > 0.5:
        form = form if form in ('plain', 'tuple', 'array', 'readonly', 'strided') else 'array'      # E: no rounding of a near value
    if k == 'scaled':
        obj, relv = hand(c, 'center', np.linalg.solve(c.rvects.T, vec), form if form != 'plain' else 'given', round_ok=True)
        return relv @ c.rvects, {'center': obj, 'centerscale': True}
    obj, vec = hand(c, 'center', vec.tolist(), form, round_ok=True)
    return vec, {'center': obj}


def expected_box(c, mults):
    """box vectors and origin of the reference system: the rotated cell repeated symmetrically about the origin in the two
    non-periodic directions"""
    vects = c.rvects * np.array(mults, dtype=float)[:, None]
    origin = np.zeros(3)
    for i in range(3):
        if i != c.line:
            origin = origin - (mults[i] // 2) * c.rvects[i]
    return vects, origin


def check_reference(c, base, mults, what='base_system', full=True):
    """the reference system is the unit cell's crystal rotated by transform, shifted by shift, exactly filling its box"""
    vects, origin = expected_box(c, mults)
    bv, bo = np.array(base.box.vects, dtype=float), np.array(base.box.origin, dtype=float)
    scale = np.abs(vects).max()
    require(np.abs(bv - vects).max() <= 1e-9 * scale,
            lambda: '%s box vectors\n%r\nexpected rcell vectors x %r\n%r' % (what, bv, list(mults), vects))
    require(np.abs(bo - origin).max() <= 1e-9 * scale, lambda: '%s box origin %r expected %r' % (what, bo, origin))
    pos = np.array(base.atoms.pos, dtype=float)
    atype = np.array(base.atoms.atype)
    probs = crystal_problems(c, pos, atype, c.shift)
    require(not probs, lambda: '%s: %s' % (what, '; '.join(probs)))
    s = cm.rel_coords(pos, vects, origin)
    require(s.min() >= -1e-9 and s.max() < 1 + 1e-9, lambda: '%s: atoms outside the box after wrap: relative coordinates in [%.12g, %.12g]' % (what, s.min(), s.max()))
    pairs = cm.coincidences(pos, vects, origin, 1e-4 * c.s)
    require(not pairs, lambda: '%s: atoms coincide modulo the box: %r' % (what, pairs[:3]))
    if full:
        nexp = int(round(abs(np.linalg.det(vects)) / abs(np.linalg.det(c.V)) * len(c.rel)))
        require(base.natoms == nexp, lambda: '%s has %d atoms, box volume / unit cell volume x atoms per cell = %d' % (what, base.natoms, nexp))
        require(tuple(base.pbc) == (True, True, True), lambda: '%s pbc %r' % (what, base.pbc))
    require(tuple(base.symbols) == c.symbols, lambda: '%s symbols %r expected %r' % (what, base.symbols, c.symbols))


def call_generator(c, fn, kw):
    """call monopole / periodicarray; the tuple finding is raised with its key"""
    try:
        return fn(**kw)
    except TypeError as e:
        sm = kw.get('sizemults')
        if sm is not None and 'Invalid sizemults' in str(e) and any(isinstance(x, np.integer) for x in sm) \
                and all(int(x) > 0 for x in sm) and all(int(sm[i]) % 2 == 0 for i in range(3) if i != c.line):
            raise Violation('%s(sizemults=%r) raised TypeError(%s): numpy integers are positive integers too (System.supersize '
                            'takes them)' % (fn.__name__, sm, e), key=KEY_NPINT)
        if isinstance(kw.get('sizemults'), tuple) and TUPLE_MSG in str(e):
            raise Violation('%s(sizemults=%r) (the documented type is tuple) raised TypeError: %s' % (fn.__name__, kw['sizemults'], e),
                            key=KEY_TUPLE)
        raise


def solution_u(c, x):
    return np.asarray(c.d.dislsol.displacement(np.asarray(x, dtype=float)), dtype=float)


def reduce_mod(delta, periods):
    """residual of delta after removing integer multiples of the given period vectors (least squares coefficients rounded)"""
    A = np.array(periods, dtype=float)
    coef = np.linalg.lstsq(A.T, delta.T, rcond=None)[0].T
    k = np.rint(coef)
    return delta - k @ A, k


# ----------------------------------------------------------------------------- D: working-unit plans

def with_units(case, fn):
    """fn(case, out) under the unit plan of the case: first under plan['pre'] (same process, same oracles), then under plan['W'];
    the outcomes (configuration or which refusal, atom counts, deleted atoms) must agree - it is the same physical system.  The
    default working units are ALWAYS restored (the cases of a shard share the process)."""
    plan = case.get('units')
    if not plan:
        return fn(case, {})
    import atomman.unitconvert as uc
    try:
        out0 = None
        if plan['pre'] is not None:
            g.apply_units(uc, plan['pre'])
            out0 = {}
            try:
                fn(case, out0)
            except Violation as v:
                raise Violation('%s [under %s]' % (v.detail, g.cfg_text(plan['pre'])), key=v.key) from None
        g.apply_units(uc, plan['W'])
        out = {}
        note = ', after the same history under %s in the same process' % g.cfg_text(plan['pre']) if plan['pre'] is not None else ''
        try:
            labels = set(fn(case, out))
        except Violation as v:
            raise Violation('%s [under %s%s]' % (v.detail, g.cfg_text(plan['W']), note), key=v.key) from None
        labels |= {'units', 'units_' + plan['W']['kind']}
        if out0 is not None:
            labels.add('units_pre')
            labels.add('units_pre_default' if plan['pre'] == g.DEFAULT_CFG else 'units_pre_other')
            for key in ('kind', 'natoms', 'nrem'):           # (which atom of a duplicate pair goes is decided by rounding)
                require(out0.get(key) == out.get(key),
                        lambda: 'the same physical history gives %s = %s under %s (one Angstrom = %.6g working units) and %s under %s (%.6g)'
                        % (key, _short(out0.get(key)), g.cfg_text(plan['pre']), out0.get('s', float('nan')), _short(out.get(key)),
                           g.cfg_text(plan['W']), out.get('s', float('nan'))))
        return labels
    finally:
        g.restore_units(uc)


def _short(x):
    t = repr(x)
    return t if len(t) < 200 else t[:200] + '...'


# ----------------------------------------------------------------------------- reference

def _plan_fix(cs, near=False):
    """a case with a unit plan is a crystal in Angstrom numbers (lk = 0); narrow float forms ROUND the vector handed in (the
    rounded vector is the input): not where the same physical input is to be given in two unit systems, nor where the value is a
    near-threshold one"""
    f = cs['disl'].get('forms')
    if cs.get('units'):
        cs['disl']['lk'] = 0
    if f and (cs.get('units') or near):
        for k in ('sh', 'cen'):
            if f[k] in ('f32', 'f16'):
                f[k] = 'strided'
        if f['sc'] == 'np_float32':
            f['sc'] = 'np_float64'
    return cs


@st.composite
def reference_cases(draw):
    cs = {'disl': draw(g.dislocations()), 'size': draw(g.sizes()), 'units': draw(g._PLANS)}
    return _plan_fix(cs)


def check_shifts(c, d):
    """every entry of .shifts puts the plane y = 0 midway between two adjacent atomic planes; one entry per gap"""
    shifts = np.array(d.shifts, dtype=float)
    pos = np.array(d.rcell.atoms.pos, dtype=float)
    require(shifts.ndim == 2 and shifts.shape[1] == 3 and len(shifts) >= 1, lambda: 'shifts shape %r' % (shifts.shape,))
    perp = shifts - np.outer(shifts @ c.n_ax, c.n_ax)
    require(np.abs(perp).max() <= 1e-9 * c.s, lambda: 'shifts are not along n: %r' % shifts)
    y0 = planes_of(c, pos, np.zeros(3))
    require(len(shifts) == len(y0), lambda: '%d shifts for %d distinct atomic planes per period (planes at %r, shifts %r)'
            % (len(shifts), len(y0), y0.tolist(), (shifts @ c.n_ax).tolist()))
    sn = shifts @ c.n_ax * float(np.sign(c.rvects[c.cut] @ c.n_ax))
    require(np.all(np.diff(sn) > -1e-7 * c.s) and sn.min() >= -1e-7 * c.s and sn.max() <= c.P + 1e-7 * c.s,
            lambda: 'shifts not sorted within one period: %r' % sn.tolist())
    gaps = set()
    for s in shifts:
        ya, yb = gap_at_zero(c, pos, s)
        require(abs(ya + yb) <= 2e-7 * c.s, lambda: 'shift %r does not put the slip plane midway between atomic planes: planes at %.9g and %.9g' % (s.tolist(), ya, yb))
        gaps.add(round(((-float(s @ c.n_ax)) % c.P) / c.P, 5) % 1.0)
    require(len(gaps) == len(shifts), lambda: 'two shifts select the same gap: %r' % (shifts @ c.n_ax).tolist())


def oracle_reference(case):
    return with_units(case, _oracle_reference)


def _oracle_reference(case, out):
    c = setup(case['disl'])
    labels = labels_of(c)
    d = build(c)
    if d is None:
        return labels | {'solver_refused'}
    labels.add('frame_ok')
    # the solution object describes this dislocation
    sol = d.dislsol
    require(np.abs(np.asarray(sol.burgers) - c.b).max() <= 1e-9 * c.bmag, lambda: 'dislsol.burgers %r, transform @ (b_uvw . vects) = %r' % (sol.burgers, c.b))
    require(np.abs(np.asarray(sol.m) - c.m_ax).max() <= 1e-12 and np.abs(np.asarray(sol.n) - c.n_ax).max() <= 1e-12,
            lambda: 'dislsol.m, n = %r, %r' % (sol.m, sol.n))
    # rotated cell: line vector along xi, in-plane vector in the slip plane, a true cell of the crystal
    rv = c.rvects
    xi3 = np.array(c.cr['xi'], dtype=float)
    lv = c.uvw3[c.line]
    cr_ = np.cross(lv, xi3)
    require(np.abs(cr_).max() <= 1e-9 and abs(lv @ xi3) > 0, lambda: 'uvws[lineindex] = %r is not along xi_uvw = %r' % (lv.tolist(), xi3.tolist()))
    hkl = np.array(c.cr['hkl'], dtype=float)
    require(abs(c.uvw3[c.motion] @ hkl) <= 1e-9, lambda: 'uvws[motionindex] = %r is not in the slip plane %r' % (c.uvw3[c.motion].tolist(), hkl.tolist()))
    require(abs(c.uvw3[c.cut] @ hkl) > 1e-9, lambda: 'uvws[cutindex] = %r lies in the slip plane' % c.uvw3[c.cut].tolist())
    require(np.linalg.det(rv) > 0, 'rcell box is left handed')
    rc = d.rcell
    nexp = int(round(abs(np.linalg.det(rv)) / abs(np.linalg.det(c.V)) * len(c.rel)))
    require(rc.natoms == nexp, lambda: 'rcell has %d atoms, expected %d' % (rc.natoms, nexp))
    probs = crystal_problems(c, np.array(rc.atoms.pos), np.array(rc.atoms.atype), np.zeros(3))
    require(not probs, lambda: 'rcell: ' + '; '.join(probs))
    pairs = cm.coincidences(np.array(rc.atoms.pos), rv, None, 1e-4 * c.s)
    require(not pairs, lambda: 'rcell: atoms coincide modulo the cell: %r' % pairs[:3])
    check_shifts(c, d)
    labels.add('nshifts_%d' % min(c.nshifts, 4))
    if c.callshift == {}:
        require(np.abs(np.asarray(d.shift, dtype=float) - c.shift).max() <= 1e-9 * (c.s + np.abs(c.shift).max()),
                lambda: 'shift = %r, requested %r' % (d.shift, c.shift))
    # reference system through monopole()
    k, exp, kw = resolve_sizes(c, case['size'], cap=2000)
    kw.update(c.callshift)
    kw['return_base_system'] = True
    base, disl = call_generator(c, d.monopole, kw)
    require(np.abs(np.asarray(d.shift, dtype=float) - c.shift).max() <= 1e-9 * (c.s + np.abs(c.shift).max()),
            lambda: 'shift after the call = %r, requested %r' % (d.shift, c.shift))
    check_reference(c, base, exp)
    require(d.base_system is base and d.disl_system is disl, 'base_system / disl_system attributes are not the returned systems')
    check_handed(c, 'by monopole()')
    c.ledger.verify('by monopole()')            # A: what the object handed out about itself at construction
    out.update(kind='reference', natoms=int(base.natoms))
    if exp != k:
        labels.add('min_raised_mult')
    if isinstance(kw.get('sizemults'), tuple):
        labels.add('tuple')
    return labels


# ----------------------------------------------------------------------------- monopole

_hist_monopole, _hist_array = g.histories('monopole'), g.histories('periodicarray')
_disl_fresh, _disl_hist = g.dislocations(partial_share=True), g.dislocations(partial_share=True, ctor_shift_only=True)


def with_classes(draw, cs):
    """the A / B / D / E choices of a monopole / array case (gens_c13: afters, unit_plans, nears).  The near-threshold values are
    written into the specs of the JUDGED call: its shift becomes an explicit vector with an atomic plane a relative 1e-8 .. 1e-3
    (of half the plane spacing) off the slip plane and / or an atom a relative 1e-12 .. 1e-3 (of the rotated cell) off a box face;
    the boundary width, a minimum length, the centre likewise."""
    cs['lm'] = draw(g._AFTERS)
    cs['units'] = draw(g._PLANS)
    nr = draw(g._NEARS)
    _plan_fix(cs, bool(nr))
    if not nr:
        return cs
    cs['near'] = nr
    if 'plane' in nr or 'face' in nr:
        spec = {'kind': 'vecscaled' if nr['scaled'] else 'vec', 'index': nr['index'], 'as': nr['as'],
                'inplane': [float(x) for x in nr.get('face', [0.0, 0.0])], 'normal': float(nr.get('plane', 0.0))}
        if cs['hist']:
            if cs['hist']['call']['kind'] != 'index0':          # (the explicit shiftindex=0 calls stay what they are)
                cs['hist']['call'] = spec
        else:
            if not nr['scaled'] and nr['index'] % 2:
                spec['kind'] = 'vec_call'
            cs['disl']['shift'] = spec
    if 'bd' in nr:
        cs['boundary']['near'] = nr['bd']
        cs['boundary']['width'] = max(cs['boundary']['width'], 1.0)
    if 'min' in nr:
        cs['size'].pop('min', None)
        cs['size']['min_near'] = nr['min']
    if 'cen' in nr:
        cs['center'] = {'kind': 'scaled' if nr['scaled'] else 'abs', 'm': cs['center'].get('m', 0.0) if cs['center']['kind'] in ('abs', 'scaled') else 0.05,
                        'n': float(nr['cen']), 'l': 0.25}
    return cs


@st.composite
def monopole_cases(draw):
    h = draw(_hist_monopole)
    return with_classes(draw, {'disl': draw(_disl_hist if h else _disl_fresh), 'size': draw(g.sizes()), 'center': draw(g.centers()),
                               'boundary': draw(g.boundaries()), 'hist': h})


def face_distances(c, vects, origin, pos):
    """for the two non-periodic directions i: (distance of pos from the lower face, height between the two faces)"""
    out = []
    for i in range(3):
        if i == c.line:
            continue
        j, k = [x for x in range(3) if x != i]
        nrm = np.cross(vects[j], vects[k])
        nrm = nrm / np.linalg.norm(nrm)
        if nrm @ vects[i] < 0:
            nrm = -nrm
        out.append(((np.asarray(pos) - origin) @ nrm, float(vects[i] @ nrm), nrm))
    return out


def boundary_setup(c, bd, vects, origin):
    """effective width (capped below the smallest half height so that both shapes are non-empty) and keyword arguments"""
    a_len = float(np.linalg.norm(c.V[0]))
    fd = face_distances(c, vects, origin, np.zeros((1, 3)))
    half = min(min(float(dist[0]), h - float(dist[0])) for dist, h, _ in fd)
    w = min(float(bd['width']) * c.s, round(0.9 * half / c.s, 6) * c.s)
    sform = c.forms.get('sc', 'plain')
    nr = bd.get('near')
    if nr:
        # E: the surface of the boundary region a relative 1e-12 .. 1e-3 (of the length unit) off an atomic plane parallel to the
        # slip plane, counted from the lower face across the slip plane
        ylo = min(float(origin @ c.n_ax), float((origin + vects[c.cut]) @ c.n_ax))
        yp = np.sort((planes_of(c, np.array(c.d.rcell.atoms.pos, dtype=float), c.shift) - ylo) % c.P)
        yp = yp[yp > 1e-3 * c.s]
        if len(yp):
            wn = float(yp[nr['plane'] % len(yp)]) + nr['e'] * c.s
            if 0 < wn < 0.9 * half:
                w = wn
                sform = 'plain'
                c.near_used.add('bd')
    kw = {'boundaryshape': bd['shape']}
    if w > 0:
        if bd['scale']:
            kw['boundarywidth'] = np_scalar(w / a_len, sform if sform != 'np_float32' else 'np_float64')
            kw['boundaryscale'] = True
            w = float(kw['boundarywidth']) * a_len
        else:
            if sform == 'np_float32':
                w = float(np.float32(w))
            kw['boundarywidth'] = np_scalar(w, sform)
    return w, kw


def outside_region(c, shape, w, vects, origin, pos, axis_point=None):
    """(outside, near): my own predicate for 'atom is in the boundary region', and a mask of atoms within 1e-8 (x the length
    scale) of its surface"""
    pos = np.asarray(pos, dtype=float)
    e8 = 1e-8 * c.s
    fd = face_distances(c, vects, origin, pos)
    if shape == 'box':
        out = np.zeros(len(pos), dtype=bool)
        near = np.zeros(len(pos), dtype=bool)
        for dist, h, _ in fd:
            out |= (dist < w) | (dist > h - w)
            near |= (np.abs(dist - w) < e8) | (np.abs(dist - (h - w)) < e8)
        return out, near
    p0 = np.zeros(3) if axis_point is None else np.asarray(axis_point, dtype=float)
    f0 = face_distances(c, vects, origin, p0[None, :])
    R = min(min(float(dist[0]), h - float(dist[0])) for dist, h, _ in f0) - w
    lhat = vects[c.line] / np.linalg.norm(vects[c.line])
    rel = pos - p0
    rad = np.linalg.norm(rel - np.outer(rel @ lhat, lhat), axis=1)
    return rad > R, np.abs(rad - R) < e8


def run_monopole(c, case, cap=CAP):
    """calls monopole with the size / centre / boundary of the case and the shift choice in c.callshift (expected: c.shift)"""
    k, exp, kw = resolve_sizes(c, case['size'], cap=cap)
    kw.update(c.callshift)
    vects, origin = expected_box(c, exp)
    center, ckw = resolve_center(c, case['center'], vects)
    kw.update(ckw)
    w, bkw = boundary_setup(c, case['boundary'], vects, origin)
    kw.update(bkw)
    kw['return_base_system'] = True
    base, disl = call_generator(c, c.d.monopole, kw)
    return dict(base=base, disl=disl, kw=kw, exp=exp, k=k, vects=vects, origin=origin, center=center, w=w)


def oracle_monopole(case):
    return with_units(case, _oracle_monopole)


def _oracle_monopole(case, out):
    c = setup(case['disl'])
    labels = labels_of(c)
    d = build(c)
    if d is None:
        out['kind'] = 'solver_refused'
        return labels | {'solver_refused'}
    apply_history(c, case, 'monopole', labels)
    r = run_monopole(c, case)
    after_call(c, labels, 'the judged monopole() call', (r['base'], r['disl']), 'judged')
    out.update(kind='monopole', natoms=int(r['disl'].natoms), s=c.s)
    base, disl, kw, exp, k = r['base'], r['disl'], r['kw'], r['exp'], r['k']
    vects, origin, center, w = r['vects'], r['origin'], r['center'], r['w']
    check_shift_attribute(c, d, 'after monopole()')
    check_reference(c, base, exp)
    N = base.natoms
    require(disl.natoms == N, lambda: 'monopole system has %d atoms, reference %d' % (disl.natoms, N))
    bp, dp = np.array(base.atoms.pos, dtype=float), np.array(disl.atoms.pos, dtype=float)
    u = solution_u(c, bp - center)
    lvec = vects[c.line]
    resid, kk = reduce_mod(dp - bp - u, [lvec])
    tol = 1e-9 * (np.abs(bp).max() + np.abs(u).max() + c.s)
    err = np.abs(resid).max()
    require(err <= tol, lambda: 'disl.pos - base.pos differs from the solution at (base.pos - center) by %.3g (tol %.3g) at atom %d: base %r disl %r u %r center %r'
            % (err, tol, int(np.argmax(np.abs(resid).max(axis=1))), bp[np.argmax(np.abs(resid).max(axis=1))].tolist(),
               dp[np.argmax(np.abs(resid).max(axis=1))].tolist(), u[np.argmax(np.abs(resid).max(axis=1))].tolist(), center.tolist()))
    if np.any(kk != 0):
        labels.add('wrapped_along_line')
    pbc = [bool(x) for x in disl.pbc]
    require(pbc == [i == c.line for i in range(3)], lambda: 'monopole pbc %r, line index %d' % (pbc, c.line))
    dv = np.array(disl.box.vects, dtype=float)
    require(np.abs(dv[c.line] - lvec).max() <= 1e-9 * np.abs(lvec).max(), lambda: 'periodic box vector changed: %r -> %r' % (lvec, dv[c.line]))
    require(np.abs(np.cross(lvec, c.xi_ax)).max() <= 1e-8 * np.linalg.norm(lvec), lambda: 'the periodic box vector %r is not along the line direction %r' % (lvec, c.xi_ax))
    s = cm.rel_coords(dp, dv, np.array(disl.box.origin, dtype=float))
    require(s.min() >= -1e-9 and s.max() <= 1 + 1e-9, lambda: 'monopole atoms outside the box: %r .. %r' % (s.min(axis=0), s.max(axis=0)))
    # boundary
    bt, dt = np.array(base.atoms.atype), np.array(disl.atoms.atype)
    if w > 0:
        shape = case['boundary']['shape']
        labels.add('bd_' + shape)
        out_d, near_d = outside_region(c, shape, w, vects, origin, dp)
        out_b, near_b = outside_region(c, shape, w, vects, origin, bp)
        free = near_d | near_b | (out_d != out_b)         # on the surface, or moved through it: either reading accepted
        got = dt - bt
        require(set(np.unique(got).tolist()) <= {0, c.natypes}, lambda: 'atype changes %r, natypes %d' % (np.unique(got).tolist(), c.natypes))
        gotb = got == c.natypes
        bad = (gotb != out_d) & ~free
        if bad.any() and shape == 'cylinder' and np.abs(center - (center @ c.xi_ax) * c.xi_ax).max() > 0:
            # centre off the default position: a cylinder about the dislocation line with the largest admissible radius
            # is an equally valid reading of "axis along the dislocation line, boundary at least boundarywidth thick"
            o2, n2 = outside_region(c, shape, w, vects, origin, dp, axis_point=center)
            o2b, n2b = outside_region(c, shape, w, vects, origin, bp, axis_point=center)
            bad2 = (gotb != o2) & ~(n2 | n2b | (o2 != o2b))
            if not bad2.any():
                bad = bad2
                labels.add('cylinder_about_center')
        require(not bad.any(), lambda: '%d atoms re-typed inconsistently with the %s region of width %.6g (first #%d at %r: boundary type %r, outside %r)'
                % (bad.sum(), shape, w, int(np.where(bad)[0][0]), dp[np.where(bad)[0][0]].tolist(), bool(gotb[np.where(bad)[0][0]]), bool(out_d[np.where(bad)[0][0]])))
        require(tuple(disl.symbols) == c.symbols * 2, lambda: 'symbols %r, expected the reference symbols twice' % (disl.symbols,))
        require(disl.natypes == 2 * c.natypes, lambda: 'natypes %d' % disl.natypes)
        if gotb.any() and (~gotb).any():
            labels.add('bd_mixed')
        if free.any():
            labels.add('bd_exempt')
    else:
        labels.add('bd_none')
        require(np.array_equal(bt, dt), 'atom types changed without a boundary width')
        require(tuple(disl.symbols) == c.symbols, lambda: 'symbols %r' % (disl.symbols,))
    require(d.base_system is base and d.disl_system is disl, 'base_system / disl_system attributes are not the returned systems')
    labels.add('center_' + case['center']['kind'])
    if isinstance(kw.get('sizemults'), tuple):
        labels.add('tuple')
    if exp != k:
        labels.add('min_raised_mult')
    later_calls(c, case, r, labels)
    class_labels(c, case, labels)
    return labels


# ----------------------------------------------------------------------------- periodic array

_cutoff = st.sampled_from([None, None, None, 0.3, 0.5, 0.8])


@st.composite
def array_cases(draw):
    h = draw(_hist_array)
    cs = {'disl': draw(_disl_hist if h else _disl_fresh), 'size': draw(g.sizes()), 'center': draw(g.centers()),
          'boundary': draw(g.boundaries(shapes=('box',))), 'linear': draw(st.integers(0, 2)) == 0, 'cutoff': draw(_cutoff),
          'hist': h}
    cs = with_classes(draw, cs)
    if cs['units']:
        cs['cutoff'] = None          # D: under a unit plan the documented default (0.5 Angstrom, converted by the tool) is what is tested
    return cs


REFUSALS = (('onplane', 'atom positions found on slip plane'),
            ('noninteger', 'expected number of atoms to delete not an integer'),
            ('mismatch', 'Deleted atom mismatch'))


def my_linear(x, b, L, m_ax, n_ax):
    """linear displacement with the long-range limits of the dislocation: upper half +(1/4 - x/2L) b, lower half the
    opposite; the disregistry falls linearly from b at x = -L/2 to 0 at x = +L/2"""
    xm, yn = x @ m_ax, x @ n_ax
    return np.outer(np.where(yn > 0, 1.0, -1.0) * (0.25 - xm / (2 * L)), b)


def images_2d(pos, v1, v2):
    out = [pos + i * v1 + j * v2 for i in (-1, 0, 1) for j in (-1, 0, 1)]
    return np.concatenate(out)


def count_close(pos_a, pos_b_images, r):
    from scipy.spatial import cKDTree
    ta, tb = cKDTree(pos_a), cKDTree(pos_b_images)
    return int(ta.count_neighbors(tb, r))


def overlap_violation(c, q, qi, r_ov, cutoff, bp, vects, origin, bm):
    """raise the overlap violation; keyed when it is the screw / atom-on-the-upper-face class"""
    from scipy.spatial import cKDTree
    N = len(q)
    hits = cKDTree(qi).query_ball_point(q, r_ov)          # qi holds the 9 in-plane images, block 4 is the identity
    real = sorted({(min(i, j % N), max(i, j % N)) for i, lst in enumerate(hits) for j in lst if j % N != i})
    detail = ('%d pairs of remaining atoms closer than %.3g (cutoff %.3g) across the in-plane periodic directions (linear field): first %r at reference positions %r / %r'
              % (len(real), r_ov, cutoff, real[:1], bp[real[0][0]].tolist() if real else None, bp[real[0][1]].tolist() if real else None))
    key = None
    if real and abs(bm) <= 1e-9 * c.bmag:
        s = cm.rel_coords(bp, vects, origin)[:, c.motion]
        if all(max(s[i], s[j]) > 1 - 1e-6 for i, j in real):
            key = KEY_FACE
            detail += ' - pure screw, one atom of every pair sits on the upper in-plane face of the reference box (relative coordinate 1 - eps)'
    raise Violation(detail, key=key)


def own_duplicate_count(c, exp, center, cutoff, bm, L):
    """(number of atoms of the full reference system that have a later atom within `cutoff` once the linear field is applied and
    the in-plane box vector is tilted by b/2, whether these pairs are disjoint and well inside the cutoff / every other pair well
    outside)"""
    from scipy.spatial import cKDTree
    d = c.d
    tup = [(0, exp[i]) if i == c.line else (-(exp[i] // 2), exp[i] // 2) for i in range(3)]
    full = d.rcell.supersize(*tup)
    full.atoms.pos += c.shift
    full.wrap()
    fp = np.array(full.atoms.pos, dtype=float)
    vects, origin = expected_box(c, exp)
    q = fp + my_linear(fp - center, c.b, L, c.m_ax, c.n_ax)
    out = None
    for sgn in ((1.0,) if bm > 1e-9 * c.bmag else (-1.0,) if bm < -1e-9 * c.bmag else (1.0, -1.0)):
        v1, v2 = vects[c.line], vects[c.motion] - sgn * c.b / 2
        qi = images_2d(q, v1, v2)
        N = len(q)
        tree = cKDTree(qi)
        hits = tree.query_ball_point(q, 1.5 * cutoff)
        first, clear = set(), True
        for i, lst in enumerate(hits):
            for j in lst:
                jj = j % N
                if jj == i and j // N == 4:
                    continue
                dist = float(np.linalg.norm(qi[j] - q[i]))
                if dist < cutoff:
                    first.add(min(i, jj))
                if 0.75 * cutoff < dist:
                    clear = False               # a pair near the cutoff: rounding may decide
        res = (len(first), clear)
        out = res if out is None or res[0] < out[0] else out
    return out


def run_array(c, case, labels, cap=CAP):
    """calls periodicarray for the case.  Returns None on a documented refusal (labels updated), else a dict."""
    d = c.d
    # the default cutoff is documented as 0.5 Angstrom (converted to working units by the tool): in a scaled case the cutoff is
    # always given, in the case's length unit
    cutoff = (0.5 if case.get('cutoff') is None else float(case['cutoff'])) * c.s
    bm = float(c.b @ c.m_ax)
    # duplicates coincide only up to |b.m| |b| / 2L under the linear field (the two halves are strained by -+b/2L):
    # keep that at most 2/3 of the cutoff, else "Deleted atom mismatch ... adjust system dimensions" is the expected answer
    k, exp, kw = resolve_sizes(c, case['size'], cap=cap, min_motion=1.5 * abs(bm) * c.bmag / (2 * cutoff))
    kw.update(c.callshift)
    vects, origin = expected_box(c, exp)
    center, ckw = resolve_center(c, case['center'], vects)
    kw.update(ckw)
    bd = dict(case['boundary']); bd['shape'] = 'box'
    w, bkw = boundary_setup(c, bd, vects, origin)
    bkw.pop('boundaryshape')
    kw.update(bkw)
    if case.get('linear'):
        kw['linear'] = True
    if case.get('cutoff') is not None or c.lk:
        sform = c.forms.get('sc', 'plain')
        if sform == 'np_float32':
            cutoff = float(np.float32(cutoff))
        kw['cutoff'] = np_scalar(cutoff, sform)
    kw['return_base_system'] = True
    L = abs(float(vects[c.motion] @ c.m_ax))
    nfull = c.d.rcell.natoms * exp[0] * exp[1] * exp[2]
    nrem = nfull * abs(bm) / (2 * L)
    frac = abs(nrem - round(nrem))
    try:
        base, disl = call_generator(c, d.periodicarray, kw)
    except ValueError as e:
        msg = str(e)
        for lab, text in REFUSALS:
            if text in msg:
                labels.add('refusal'); labels.add('refusal_' + lab)
                if lab == 'onplane':
                    # "atom positions found on slip plane": an atomic plane of the shifted crystal is on y = 0 (the generator
                    # puts planes exactly there - the all-zero shift - or at least 0.7 of half a plane spacing away)
                    yp = planes_of(c, np.array(d.rcell.atoms.pos, dtype=float), c.shift)
                    dist = float(np.minimum(yp, c.P - yp).min())
                    require(dist <= 1e-6 * c.s, lambda: 'refused with %r, but the atomic plane nearest to the slip plane is %.6g away '
                            '(plane spacing period %.6g, shift %r)' % (msg, dist, c.P, np.asarray(c.shift).tolist()))
                if lab == 'noninteger':
                    require(frac > 1e-9 * max(1.0, nrem), lambda: 'refused as non-integer deletion count, but N |b.m| / 2L = %.12g (N=%d, b.m=%.9g, L=%.9g)' % (nrem, nfull, bm, L))
                if lab == 'mismatch':
                    # "adjust dimensions / cutoff" is the tool giving up on *finding* the duplicates; the number it set out
                    # to delete must still be the one implied by the edge component
                    mm = re.search(r'expected (-?\d+), found (-?\d+)', msg)
                    require(mm is not None, lambda: 'unparsable refusal: ' + msg)
                    require(int(mm.group(1)) == int(round(nrem)) and frac <= 1e-4 * max(1.0, nrem),
                            lambda: 'refusal %r, but the edge component implies N |b.m| / (2 L) = %.9g deletions (N=%d, b.m=%.9g, L=%.9g)' % (msg, nrem, nfull, bm, L))
                    # ... and "found" must be what a search at the stated cutoff finds (D: the default is 0.5 Angstrom whatever
                    # the working units): my own search over ALL atoms of the reference system under the linear field and the
                    # new in-plane periodicity; when it finds exactly the expected number, each atom paired once, the tool had
                    # no reason to give up
                    mine = own_duplicate_count(c, exp, center, cutoff, bm, L)
                    require(mine is None or mine[0] != int(round(nrem)) or not mine[1],
                            lambda: 'refusal %r, but a search over all atoms at the cutoff %.6g (%s) finds exactly the %d duplicates, every pair '
                            'within 3/4 of the cutoff and nothing else within 3/2 of it' % (msg, cutoff, 'given' if 'cutoff' in kw else 'the documented default, 0.5 Angstrom', mine[0]))
                    labels.add('refusal_mismatch_explained')
                return None
        raise
    require(frac <= 1e-4 * max(1.0, nrem), lambda: 'N |b.m| / (2 L) = %.9g is not an integer, yet a configuration was returned (N=%d)' % (nrem, nfull))
    return dict(base=base, disl=disl, kw=kw, exp=exp, k=k, vects=vects, origin=origin, center=center, w=w, cutoff=cutoff,
                L=L, bm=bm, nfull=nfull, nrem=int(round(nrem)))


def oracle_array(case):
    return with_units(case, _oracle_array)


def _oracle_array(case, out):
    c = setup(case['disl'])
    labels = labels_of(c)
    d = build(c)
    if d is None:
        out['kind'] = 'solver_refused'
        return labels | {'solver_refused'}
    am = c.am
    apply_history(c, case, 'periodicarray', labels)
    r = run_array(c, case, labels)
    after_call(c, labels, 'the judged periodicarray() call', None if r is None else (r['base'], r['disl']), 'judged')
    labels.add('linear' if case.get('linear') else 'solution')
    if r is None:
        out.update(kind='refusal:' + '+'.join(sorted(x for x in labels if x.startswith('refusal_'))), s=c.s)
        later_calls(c, case, None, labels)
        class_labels(c, case, labels)
        return labels
    out.update(kind='array', natoms=int(r['disl'].natoms), nrem=int(r['nrem']), old_id=np.array(r['disl'].atoms.old_id).tolist(), s=c.s)
    if c.uf != 1.0 and 'cutoff' not in r['kw'] and r['nrem']:
        labels.add('units_default_cutoff')
    check_shift_attribute(c, d, 'after periodicarray()')
    base, disl, vects, origin, center = r['base'], r['disl'], r['vects'], r['origin'], r['center']
    nfull, nrem, L, w, cutoff = r['nfull'], r['nrem'], r['L'], r['w'], r['cutoff']
    # the full reference system, rebuilt
    tup = []
    for i in range(3):
        tup.append((0, r['exp'][i]) if i == c.line else (-(r['exp'][i] // 2), r['exp'][i] // 2))
    full = d.rcell.supersize(*tup)
    full.atoms.pos += c.shift
    full.wrap()
    require(full.natoms == nfull, 'harness: full system size')
    fp, ft = np.array(full.atoms.pos, dtype=float), np.array(full.atoms.atype)
    # count
    require(disl.natoms == nfull - nrem, lambda: '%d atoms removed, N |b.m| / (2 L) = %d (N=%d, b.m=%.9g, L=%.9g)' % (nfull - disl.natoms, nrem, nfull, r['bm'], L))
    require(base.natoms == disl.natoms, lambda: 'returned base system has %d atoms, dislocation system %d' % (base.natoms, disl.natoms))
    labels.add('removed' if nrem else 'removed_none')
    # box and pbc
    newv = vects.copy()
    dv, do = np.array(disl.box.vects, dtype=float), np.array(disl.box.origin, dtype=float)
    scale = np.abs(vects).max()
    if abs(r['bm']) > 1e-9 * c.bmag:
        sgn = 1.0 if r['bm'] > 0 else -1.0
    else:
        # pure screw: no edge component, tilting the in-plane vector by +b/2 or -b/2 are both right; read which
        sgn = 1.0 if np.abs(dv[c.motion] - (vects[c.motion] - c.b / 2)).max() <= 1e-9 * scale else -1.0
    newv[c.motion] = vects[c.motion] - sgn * c.b / 2
    for i in (c.line, c.motion):
        require(np.abs(dv[i] - newv[i]).max() <= 1e-9 * scale, lambda: 'box vector %d of the array is %r, expected %r (reference %r, b %r)' % (i, dv[i], newv[i], vects[i], c.b))
    vol_old, vol_new = abs(np.linalg.det(vects)), abs(np.linalg.det(newv))
    require(abs(nfull * (1 - vol_new / vol_old) - nrem) <= 1e-6 * max(1, nrem), lambda: 'N (1 - Vnew/Vold) = %.9g, removed %d' % (nfull * (1 - vol_new / vol_old), nrem))
    cross = np.cross(dv[c.cut], vects[c.cut])
    require(np.abs(cross).max() <= 1e-9 * scale ** 2 and dv[c.cut] @ vects[c.cut] >= (1 - 1e-9) * (vects[c.cut] @ vects[c.cut]),
            lambda: 'non-periodic box vector %r, reference %r' % (dv[c.cut], vects[c.cut]))
    pbc = [bool(x) for x in disl.pbc]
    require(pbc == [i != c.cut for i in range(3)], lambda: 'array pbc %r, cut index %d' % (pbc, c.cut))
    # old_id and the trimmed base
    require('old_id' in disl.atoms.prop(), 'no old_id property')
    oid = np.array(disl.atoms.old_id)
    require(oid.dtype.kind in 'iu' and oid.shape == (disl.natoms,), lambda: 'old_id dtype %r shape %r' % (oid.dtype, oid.shape))
    require(np.all(np.diff(oid) > 0) and oid.min() >= 0 and oid.max() < nfull, 'old_id is not strictly increasing within the reference range')
    bp = np.array(base.atoms.pos, dtype=float)
    rb, _ = reduce_mod(bp - fp[oid], vects)       # the same sites; an atom on a box face may be kept on either face
    # E: with an atom a relative < 1e-8 (of the system) short of an upper box face (an in-plane shift a hair below a whole cell, a
    # single precision shift vector), periodicarray's clean-up - in the code: "atoms left on an upper box face by rounding belong
    # to the lower face", isclose at 1e-8 box-relative - moves it onto the lower face: by at most 1e-8 box vectors.  Only then the
    # comparison is widened by what that tolerance explains
    srel = cm.rel_coords(fp, vects, origin)[oid]
    gapf = 1.0 - srel
    slack = (np.where(gapf < 2e-8, gapf, 0.0) * np.linalg.norm(vects, axis=1)[None, :]).sum(axis=1) * 1.01
    if slack.max() > 1e-9 * c.s:
        labels.add('face_cleanup')
    exc = np.abs(rb).max(axis=1) - slack
    require(exc.max() <= 1e-9 * (c.s + np.abs(fp).max()), lambda: 'returned base system is not the reference system at old_id (max difference %.3g modulo the box)' % np.abs(rb).max())
    require(np.array_equal(np.array(base.atoms.atype), ft[oid]), 'returned base atom types differ from the reference at old_id')
    probs = crystal_problems(c, bp, np.array(base.atoms.atype), c.shift)
    require(not probs, lambda: 'returned base system: ' + '; '.join(probs))
    # deleted atoms are duplicates / nothing left overlaps, in the configuration where that is defined (linear field)
    kept = np.zeros(nfull, dtype=bool); kept[oid] = True
    q = bp + my_linear(bp - center, c.b, L, c.m_ax, c.n_ax)      # from the positions the configuration was built on
    v1, v2 = newv[c.line], newv[c.motion]
    qi = images_2d(q, v1, v2)
    # "overlapping": closer than the duplicate cutoff, but never demanding more than the crystal allows - atoms of the two
    # planes adjoining the slip plane slide over each other and may come as close as the gap between those planes
    gya, gyb = gap_at_zero(c, np.array(d.rcell.atoms.pos), c.shift)
    r_ov = min(cutoff, 0.9 * (gya - gyb), 0.5 * c.a * g.DNN[c.cr['struct']])
    nclose = count_close(q, qi, r_ov)
    if nclose != len(q):
        overlap_violation(c, q, qi, r_ov, cutoff, bp, vects, origin, r['bm'])
    if nrem:
        gone = fp[~kept] + my_linear(fp[~kept] - center, c.b, L, c.m_ax, c.n_ax)
        from scipy.spatial import cKDTree
        dist, _ = cKDTree(qi).query(gone)
        require(dist.max() < cutoff, lambda: 'deleted atom %d is %.4g from the nearest remaining atom: not a duplicate' % (int(np.where(~kept)[0][np.argmax(dist)]), dist.max()))
    # displacements
    dp = np.array(disl.atoms.pos, dtype=float)
    delta = dp - bp
    x = bp - center
    ulin = my_linear(x, c.b, L, c.m_ax, c.n_ax)
    tol = 1e-9 * (np.abs(bp).max() + c.bmag + c.s)
    y = bp @ c.n_ax
    ylo = float(origin @ c.n_ax); yhi = ylo + float(vects[c.cut] @ c.n_ax)
    if yhi < ylo:
        ylo, yhi = yhi, ylo
    if case.get('linear'):
        resid, _ = reduce_mod(delta - ulin, [v1, v2])
        err = np.abs(resid).max()
        require(err <= tol, lambda: 'linear array: displacement differs from sign(y)(1/4 - x/2L) b by %.3g at atom %d' % (err, int(np.argmax(np.abs(resid).max(axis=1)))))
        # the generated configuration itself is overlap free
        di = images_2d(dp, v1, v2)
        nclose = count_close(dp, di, r_ov)
        if nclose != len(dp):
            overlap_violation(c, dp, di, r_ov, cutoff, bp, vects, origin, r['bm'])
    else:
        usol = solution_u(c, x)
        umax = np.abs(usol @ c.n_ax).max() + 1e-9 * c.s
        band = (y <= ylo + w) | (y >= yhi - w)
        amb = (np.abs(y - (ylo + w)) <= umax) | (np.abs(y - (yhi - w)) <= umax)
        r_lin, _ = reduce_mod(delta - ulin, [v1, v2])
        r_sol, _ = reduce_mod(delta - usol, [v1, v2])
        e_lin = np.abs(r_lin).max(axis=1)
        # solution part: equal up to one rigid translation along n
        inner = ~band & ~amb
        if inner.any():
            off = r_sol[inner] @ c.n_ax
            kconst = float(np.median(off))
            r_in = r_sol[inner] - kconst * c.n_ax
            err = np.abs(r_in).max()
            require(err <= tol, lambda: 'array: displacement of interior atoms differs from the solution (+ a rigid shift along n) by %.3g (tol %.3g)' % (err, tol))
            require(abs(kconst) <= umax + 1e-9 * c.s, lambda: 'rigid shift along n %.3g exceeds the solution amplitude %.3g' % (kconst, umax))
            labels.add('interior')
        outer = band & ~amb
        if outer.any():
            require(e_lin[outer].max() <= tol, lambda: 'array: displacement of boundary-band atoms differs from the linear field by %.3g' % e_lin[outer].max())
            labels.add('band')
        if amb.any():
            kk = float(np.median(r_sol[inner] @ c.n_ax)) if inner.any() else 0.0
            e_sol = np.abs(r_sol[amb] - kk * c.n_ax).max(axis=1)
            ok = (e_lin[amb] <= tol) | (e_sol <= tol) | (~inner.any())
            require(ok.all(), lambda: 'array: atoms at the edge of the boundary band follow neither the linear nor the solution field')
    s = cm.rel_coords(dp, dv, do)
    require(s.min() >= -1e-9 and s.max() <= 1 + 1e-9, lambda: 'array atoms outside the box: %r .. %r' % (s.min(axis=0), s.max(axis=0)))
    # boundary types
    bt, dt = np.array(base.atoms.atype), np.array(disl.atoms.atype)
    if w > 0:
        def outside(p):
            yy = p @ c.n_ax
            return (yy < ylo + w) | (yy > yhi - w), (np.abs(yy - (ylo + w)) < 1e-8 * c.s) | (np.abs(yy - (yhi - w)) < 1e-8 * c.s)
        o_d, n_d = outside(dp)
        o_b, n_b = outside(bp)
        free = n_d | n_b | (o_d != o_b)
        got = dt - bt
        require(set(np.unique(got).tolist()) <= {0, c.natypes}, lambda: 'atype changes %r' % np.unique(got).tolist())
        bad = ((got == c.natypes) != o_d) & ~free
        require(not bad.any(), lambda: '%d atoms re-typed inconsistently with the boundary width %.6g' % (bad.sum(), w))
        require(tuple(disl.symbols) == c.symbols * 2, lambda: 'symbols %r' % (disl.symbols,))
        labels.add('bd_box')
    else:
        require(np.array_equal(bt, dt), 'atom types changed without a boundary width')
        require(tuple(disl.symbols) == c.symbols, lambda: 'symbols %r' % (disl.symbols,))
        labels.add('bd_none')
    require(d.disl_system is disl, 'disl_system attribute is not the returned system')
    require(d.base_system is base, 'base_system attribute is not the returned (trimmed) system')
    labels.add('center_' + case['center']['kind'])
    if isinstance(r['kw'].get('sizemults'), tuple):
        labels.add('tuple')
    later_calls(c, case, r, labels)
    class_labels(c, case, labels)
    return labels


# ----------------------------------------------------------------------------- disregistry

@st.composite
def disreg_cases(draw):
    cs = {'disl': draw(g.dislocations()), 'kind': draw(st.sampled_from(['monopole', 'monopole', 'array', 'array_linear'])),
          'size': draw(g.sizes()), 'center': draw(g.centers()), 'triple': draw(st.integers(0, 3)) == 0,
          'boundary': {'shape': 'box', 'width': draw(st.sampled_from([0.0, 2.0, 4.0])), 'scale': False}}
    cs['size']['motion'] = max(cs['size']['motion'], 4)
    cs['size'].pop('min', None)
    cs['units'] = draw(g._PLANS)
    return _plan_fix(cs)


def tail_prefactors(c):
    """(Pn-, Pn+, Px-, Px+): |du/dn| = Pn |b| / (2 pi |x|) and |du/dm| = Px |b| / (2 pi |x|) on the rays x < 0 and x > 0 of
    the slip plane (the field is homogeneous of degree 0 apart from its logarithm, its gradient of degree -1): for an
    isotropic screw Pn = 1, Px = 0; isotropic edge Pn = 1 + 1/(2(1-nu))"""
    pn, px = [], []
    eps = 1e-4
    for sgn in (-1.0, 1.0):
        # at distance one length unit from the line: P = 2 pi |x| |du/dn| / |b| with |x| = c.s, du/dn = |du| / (eps c.s)
        pts = np.array([sgn * c.m_ax + eps * c.n_ax, sgn * c.m_ax + 2 * eps * c.n_ax, sgn * (1 + eps) * c.m_ax + eps * c.n_ax]) * c.s
        u = solution_u(c, pts)
        pn.append(2 * math.pi * float(np.linalg.norm(u[1] - u[0])) / eps / c.bmag)
        px.append(2 * math.pi * float(np.linalg.norm(u[2] - u[0])) / eps / c.bmag)
    return pn + px


def tail_bound(c, xlo, xhi, ya, yb, smax):
    """The two rows adjoining the slip plane sit at heights ya > 0 > yb.  To first order in h/|x| the disregistry is
    b [x < 0] + (ya - yb) du/dn(x, 0), so  d(x_lo) - d(x_hi) - b = (ya - yb) (du/dn(x_lo) - du/dn(x_hi)) (1 + O(h^2/x^2)).
    Bound: 1.25 x the sum of the two magnitudes, the relative second order term with a factor 10, plus the error of
    interpolating each row linearly between its columns (spacing <= smax): smax^2 / 8 x |d2u/dm2| per row."""
    h = (ya - yb) / 2
    if xlo >= -1e-9 * c.s or xhi <= 1e-9 * c.s:
        return None
    pnm, pnp, pxm, pxp = tail_prefactors(c)
    X = min(abs(xlo), abs(xhi))
    hh = max(ya, -yb)
    first = c.bmag * h / math.pi * (pnm / abs(xlo) + pnp / abs(xhi))
    interp = 2 * smax ** 2 / 8 * c.bmag / (2 * math.pi) * max(pnm, pnp, pxm, pxp, 1.0) * 2 * (1 / xlo ** 2 + 1 / xhi ** 2)
    bound = 1.25 * first * (1 + 10 * (hh / X) ** 2) + interp
    return bound, h, xlo, xhi


def disreg_once(c, case, labels, motion_mult=None):
    am, d = c.am, c.d
    size = dict(case['size'])
    if motion_mult is not None:
        size['motion'] = motion_mult
    cs = dict(case); cs['size'] = size
    if case['kind'] == 'monopole':
        k, exp, kw = resolve_sizes(c, size, cap=2 * CAP if motion_mult else CAP)
        kw.update(c.callshift)
        vects, origin = expected_box(c, exp)
        center, ckw = resolve_center(c, case['center'], vects)
        kw.update(ckw)
        kw['return_base_system'] = True
        base, disl = call_generator(c, d.monopole, kw)
        periods = [vects[c.line]]
        L = None
    else:
        cs['linear'] = case['kind'] == 'array_linear'
        r = run_array(c, cs, labels, cap=2 * CAP if motion_mult else CAP)
        if r is None:
            return None
        base, disl, center, exp, vects = r['base'], r['disl'], r['center'], r['exp'], r['vects']
        periods = [np.array(disl.box.vects)[c.line], np.array(disl.box.vects)[c.motion]]
        L = r['L']
    margs = [hand(c, 'm', c.m_ax.copy(), 'given')[0], hand(c, 'n', c.n_ax.copy(), 'given')[0], hand(c, 'planepos', np.array(center, dtype=float), 'given')[0]]
    xs, dis = am.defect.disregistry(base, disl, m=margs[0], n=margs[1], planepos=margs[2])
    # A / B: the arrays handed out stay what they are when the tool is called again (same and other systems); the systems and
    # vectors handed in are untouched
    check_handed(c, 'by disregistry()')
    c.handed = []
    c.ledger.add('disregistry coordinates / values (%d atoms)' % base.natoms, [xs, dis], 'disregistry %d' % len(c.ledger.entries))
    c.ledger.add_system('base system handed to disregistry', base, 'in base %d' % len(c.ledger.entries))
    c.ledger.add_system('dislocation system handed to disregistry', disl, 'in disl %d' % len(c.ledger.entries))
    xs2, dis2 = am.defect.disregistry(base, disl, m=c.m_ax, n=c.n_ax, planepos=center)
    require(_same_bits(xs, xs2) and _same_bits(dis, dis2), 'a second disregistry() call on the same systems returns different arrays')
    c.ledger.verify('by a later disregistry() call')
    xs, dis = np.asarray(xs, dtype=float), np.asarray(dis, dtype=float)
    require(xs.ndim == 1 and dis.shape == (len(xs), 3) and len(xs) >= 2, lambda: 'disregistry shapes %r %r' % (xs.shape, dis.shape))
    require(np.all(np.diff(xs) > 0), 'disregistry coordinates not strictly increasing')
    bp = np.array(base.atoms.pos, dtype=float)
    y = bp @ c.n_ax
    cy = float(center @ c.n_ax)
    ya, yb = y[y > cy].min() - cy, y[y < cy].max() - cy
    e6 = 1e-6 * c.s

    def r6(v):
        return np.round(np.asarray(v) / c.s, 6) * c.s           # rounded to 1e-6 length units
    xa = bp[np.abs(y - cy - ya) < e6] @ c.m_ax
    xb = bp[np.abs(y - cy - yb) < e6] @ c.m_ax
    allx = np.union1d(r6(xa), r6(xb))
    require(abs(xs[0] - allx[0]) <= 10 * e6 and abs(xs[-1] - allx[-1]) <= 10 * e6 and len(xs) <= len(np.union1d(xa, xb)),
            lambda: 'disregistry coordinates [%r .. %r] do not span the columns adjoining the slip plane [%r .. %r]' % (xs[0], xs[-1], allx[0], allx[-1]))
    # spacing of the columns in either plane bounds the flat extrapolation of the shorter row
    dx = max(abs(xa.min() - xb.min()), abs(xa.max() - xb.max()))
    # bookkeeping, re-done: minimum-image displacements of the two rows, averaged per column, interpolated on the union
    dp = np.array(disl.atoms.pos, dtype=float)
    P = np.array(periods, dtype=float)
    coef = np.linalg.lstsq(P.T, (dp - bp).T, rcond=None)[0].T
    if True:
        disp = (dp - bp) - np.rint(coef) @ P
        frac_ = np.abs(coef - np.rint(coef))
        rows = []
        safe = True
        for yy in (ya, yb):
            sel = np.abs(y - cy - yy) < e6
            safe = safe and frac_[sel].max() < 0.45
            xr = bp[sel] @ c.m_ax
            xx = r6(xr)
            keys = np.unique(xx)
            mean = np.array([disp[sel][xx == v].mean(axis=0) for v in keys])
            rows.append((np.array([xr[xx == v].mean() for v in keys]), mean))
        if safe:
            mine = (np.array([np.interp(xs, rows[0][0], rows[0][1][:, j]) for j in range(3)]).T
                    - np.array([np.interp(xs, rows[1][0], rows[1][1][:, j]) for j in range(3)]).T)
            err = np.abs(mine - dis).max()
            require(err <= 1e-7 * (c.s + c.bmag), lambda: 'disregistry differs from (mean displacement of the row above) - (row below), interpolated on the '
                    'union of the column coordinates, by %.3g at x=%r' % (err, xs[int(np.argmax(np.abs(mine - dis).max(axis=1)))]))
            labels.add('bookkeeping')
    # the outermost coordinates at which both rows have a column (beyond them the tool extrapolates one row flat)
    lo, hi = max(xa.min(), xb.min()) - 10 * e6, min(xa.max(), xb.max()) + 10 * e6
    inner = np.where((xs >= lo) & (xs <= hi))[0]
    require(len(inner) >= 2, 'harness: rows adjoining the slip plane do not overlap')
    ilo, ihi = int(inner[0]), int(inner[-1])
    total = dis[ilo] - dis[ihi]
    smax = max(float(np.diff(np.unique(r6(xa))).max(initial=0.0)), float(np.diff(np.unique(r6(xb))).max(initial=0.0)))
    return dict(xs=xs, dis=dis, total=total, xlo=float(xs[ilo]), xhi=float(xs[ihi]), smax=smax, safe=safe, ya=ya, yb=yb, dx=dx, center=center, periods=periods, L=L, base=base, exp=exp,
                vects=vects)


def oracle_disregistry(case):
    return with_units(case, _oracle_disregistry_u)


def _oracle_disregistry_u(case, out):
    c = setup(case['disl'])
    labels = labels_of(c)
    if build(c) is None:
        return labels | {'solver_refused'}
    labels.add(case['kind'])
    if c.lk <= -8:
        # atomman.defect.disregistry groups planes and columns with numpy.isclose at its default ABSOLUTE tolerance 1e-8: the
        # open finding C17:disregistry:absolute-isclose-tolerance:plane-spacing-below-1e-8-units (C17's subject, repair
        # mutants/C17/FIX_disregistry_absolute_isclose.diff).  Whatever goes wrong for a crystal whose plane / column spacing is
        # not large against 1e-8 working units is that finding; with the repair the full oracle applies
        try:
            return _disreg_out(_oracle_disregistry(c, case, labels), out)
        except Violation as v:
            raise Violation('a = %.6g working units: %s' % (c.a, v.detail), key=v.key or KEY_DISREG)
        except ValueError as e:
            if 'planepos must fall between atomic planes' in str(e):
                raise Violation('a = %.6g working units: disregistry(planepos between two planes) raised ValueError: %s' % (c.a, e), key=KEY_DISREG)
            raise
    return _disreg_out(_oracle_disregistry(c, case, labels), out)


def _disreg_out(labels, out):
    out['kind'] = 'disregistry ' + '+'.join(sorted(x for x in labels if x.startswith('refusal')))
    return labels


def _oracle_disregistry(c, case, labels):
    r = disreg_once(c, case, labels)
    if r is None:
        return labels
    cm_x = float(r['center'] @ c.m_ax)
    if not r['safe']:
        # a displacement in the rows adjoining the slip plane is within 5 % of half a period of the system: its minimum image
        # (which the tool averages and interpolates) is not defined
        labels.add('image_ambiguous')
        return labels

    def error_of(r):
        if case['kind'] == 'array_linear' or (case['kind'] == 'array' and in_band(r) == 'both'):
            expected = c.b * (r['xhi'] - r['xlo']) / r['L']
        else:
            expected = c.b
        resid, _ = reduce_mod((r['total'] - expected)[None, :], r['periods'])
        return float(np.linalg.norm(resid[0]))

    def in_band(r):
        # are the planes adjoining the slip plane inside the linear boundary band?
        w = float(case['boundary']['width']) * c.s
        vects, origin = expected_box(c, r['exp'])
        fd = face_distances(c, vects, origin, np.zeros((1, 3)))
        half = min(min(float(dist[0]), h - float(dist[0])) for dist, h, _ in fd)
        w = min(w, round(0.9 * half / c.s, 6) * c.s)
        ylo = float(origin @ c.n_ax); yhi = ylo + float(vects[c.cut] @ c.n_ax)
        if yhi < ylo:
            ylo, yhi = yhi, ylo
        cy = float(r['center'] @ c.n_ax)
        # 'both' rows get the linear field, 'none', or 'mixed' (one row each / on the edge of the band: no statement)
        lo_in, hi_in = cy + r['yb'] <= ylo + w, cy + r['ya'] >= yhi - w
        edge = min(abs(cy + r['yb'] - (ylo + w)), abs(cy + r['ya'] - (yhi - w))) < 1e-6 * c.s
        return 'mixed' if (edge or lo_in != hi_in) else 'both' if lo_in else 'none'

    if case['kind'] == 'array' and in_band(r) == 'mixed':
        labels.add('rows_straddle_band')
        return labels
    err = error_of(r)
    if case['kind'] == 'array_linear' or (case['kind'] == 'array' and in_band(r) == 'both'):
        # exact: both rows follow the linear field, and linear interpolation of a linear function is exact
        tol = 1e-8 * (c.s + c.bmag)
        require(err <= tol, lambda: 'linear field: disregistry(x_lo) - disregistry(x_hi) = %r, expected b (x_hi - x_lo)/L = %r (error %.3g, tol %.3g)'
                % (r['total'].tolist(), (c.b * (r['xhi'] - r['xlo']) / r['L']).tolist(), err, tol))
        labels.add('exact_linear')
        return labels
    tb = tail_bound(c, r['xlo'] - cm_x, r['xhi'] - cm_x, r['ya'], r['yb'], r['smax'])
    if tb is None:
        labels.add('core_outside_rows')
        return labels
    bound, h, xmin, xmax = tb
    labels.add('tail')
    require(err <= bound + 1e-8 * c.s, lambda: 'disregistry(x_lo) - disregistry(x_hi) = %r, b = %r: error %.4g exceeds the tail bound %.4g (h=%.4g, x_lo=%.4g, x_hi=%.4g)'
            % (r['total'].tolist(), c.b.tolist(), err, bound, h, xmin, xmax))
    labels.add('ratio_%d' % min(9, int(10 * err / bound)))
    if case.get('triple') and case['kind'] == 'monopole':
        m0 = r['exp'][c.motion]
        if c.d.rcell.natoms * r['exp'][0] * r['exp'][1] * r['exp'][2] * 3 <= 2 * CAP:
            r3 = disreg_once(c, case, labels, motion_mult=3 * m0)
            if r3 is not None and r3['exp'][c.motion] == 3 * m0 and r3['safe']:
                err3 = error_of(r3)
                tb3 = tail_bound(c, r3['xlo'] - cm_x, r3['xhi'] - cm_x, r3['ya'], r3['yb'], r3['smax'])
                require(tb3 is not None and err3 <= tb3[0] + 1e-8 * c.s, lambda: 'tripled width: error %.4g exceeds the bound %r' % (err3, tb3))
                require(err3 <= max(0.75 * err, 1e-7 * c.s), lambda: 'tripling the in-plane width did not reduce the disregistry error: %.4g -> %.4g' % (err, err3))
                labels.add('tripled')
    return labels


# ----------------------------------------------------------------------------- sizemults argument

@st.composite
def sizemults_cases(draw):
    return {'disl': draw(g.dislocations(names=('sc', 'fcc_f', 'bcc_i', 'hcp', 'b2'))), 'size': draw(g.sizes()),
            'gen': draw(st.sampled_from(['monopole', 'periodicarray'])), 'astuple': draw(st.booleans())}


def oracle_sizemults(case):
    c = setup(case['disl'])
    labels = labels_of(c)
    d = build(c)
    if d is None:
        return labels | {'solver_refused'}
    size = dict(case['size']); size['tuple'] = False; size.pop('min', None)
    k, exp, kw = resolve_sizes(c, size, cap=1000)
    fn = getattr(d, case['gen'])
    labels.add(case['gen'])

    def run(arg):
        try:
            return fn(sizemults=arg, return_base_system=True, **c.callshift)
        except ValueError as e:
            if any(text in str(e) for _, text in REFUSALS):
                return None
            raise
    given = list(k)
    ref = run(list(k))
    if ref is None:
        labels.add('refusal')
        return labels
    if case['astuple']:
        labels.add('tuple')
        t = tuple(k)
        try:
            got = run(t)
        except TypeError as e:
            if TUPLE_MSG in str(e):
                raise Violation('%s(sizemults=%r) (the documented type is tuple) raised TypeError: %s' % (case['gen'], t, e), key=KEY_TUPLE)
            raise
        require(t == tuple(k), 'tuple argument changed')
    else:
        labels.add('list')
        arg = list(k)
        got = run(arg)
        if arg != given:
            raise Violation('%s(sizemults=%r) changed the caller\'s list to %r' % (case['gen'], given, arg), key=KEY_MUT)
        got2 = run(arg)
        require(got2 is not None and np.array_equal(got2[1].atoms.pos, got[1].atoms.pos), 'second call with the same list gives a different system')
    require(got is not None, 'refused on the second call only')
    for a, b_ in zip(ref, got):
        require(a.natoms == b_.natoms and np.array_equal(a.atoms.pos, b_.atoms.pos) and np.array_equal(a.box.vects, b_.box.vects),
                'list and tuple sizemults give different systems')
    return labels



# ----------------------------------------------------------------------------- H: enumerated option combinations

def _hx(struct, a, C, hkl, xi, b, mn, **more):
    cr = {'struct': struct, 'a': a, 'C': C, 'hkl': hkl, 'xi': xi, 'b': b, 'partial': False, 'lk': 0, 'ce': 0, 'mn': mn, 'orient': 0,
          'forms': None, 'shift': {'kind': 'default'}}
    cr.update(more)
    return cr


_CUB = {'kind': 'aniso', 'C11': 1.0, 'C12': 0.6, 'C44': 0.3}
# line along a (default axes), c ('x', 'y') and b ('z', 'x'); rotated cells with mutually orthogonal vectors (the open finding on
# non-default axis pairs does not touch them); edge, mixed, edge, and a hexagonal 60 degree dislocation in 4-index notation
H_CRYSTALS = [
    _hx('fcc_f', 4.05, _CUB, [1, 1, 1], [1, 1, -2], [0.5, -0.5, 0.0], {'kind': 'default'}),
    _hx('bcc_i', 2.87, _CUB, [1, -1, 0], [1, 1, -2], [0.5, 0.5, 0.5], {'kind': 'str', 'm': 'x', 'n': 'y'}),
    _hx('sc', 3.0, _CUB, [0, 0, 1], [1, 0, 0], [0.0, 1.0, 0.0], {'kind': 'vecint', 'm': 'z', 'n': 'x'}),
    _hx('hcp', 3.2, {'kind': 'hex', 'C11': 1.0, 'C12': 0.4, 'C13': 0.3, 'C33': 1.1, 'C44': 0.3}, [0, 0, 1], [1, 0, 0], [0.0, 1.0, 0.0],
        {'kind': 'default'}, coa=1.62, hex4=True),
]
H_CTOR = [{'kind': 'default'}, {'kind': 'index', 'index': 1},
          {'kind': 'vec', 'index': 2, 'inplane': [0.25, -0.125], 'normal': 0.1},
          {'kind': 'vecscaled', 'index': 1, 'inplane': [-0.3, 0.2], 'normal': -0.2}]
H_CALL = {'keep': {'kind': 'keep'}, 'index0': {'kind': 'index0'}, 'index': {'kind': 'index', 'index': 2},
          'vec': {'kind': 'vec', 'index': 1, 'inplane': [0.1, 0.3], 'normal': 0.15, 'as': 'array'},
          'vecscaled': {'kind': 'vecscaled', 'index': 2, 'inplane': [-0.2, 0.05], 'normal': -0.1, 'as': 'list'},
          'zero': {'kind': 'zero', 'variant': 'float', 'index': 1},
          'indexneg': {'kind': 'index', 'index': -1},
          'vecx': {'kind': 'vec', 'index': 1, 'inplane': [0.0, 0.0], 'normal': 0.0, 'as': 'tuple'}}
H_FIRST_KINDS = ('keep', 'index0', 'index', 'vec', 'vecscaled', 'zero')


def _hcase(cr, gen, hist, size, center, boundary, k):
    cs = {'disl': json_copy(cr), 'gen': gen, 'size': size, 'center': center, 'boundary': dict(boundary), 'hist': hist, 'lm': None, 'units': None}
    if gen == 'periodicarray':
        cs['boundary']['shape'] = 'box'
        cs['linear'] = k % 3 == 0
        cs['cutoff'] = None
    return cs


def json_copy(x):
    import json
    return json.loads(json.dumps(x))


def options_shift_cases(tier):
    """H: everything that sets the ONE piece of state `shift` - the constructor's shift / shiftindex / shiftscale, the shift
    arguments of an earlier monopole() / periodicarray() call, those of the judged call - in every combination and order:
    constructor choice x (no earlier call | generator x its shift choice) x judged generator x its shift choice"""
    out = []
    crystals = H_CRYSTALS[:1] if tier == 'quick' else H_CRYSTALS
    firsts = [None] + [(gen, kind) for gen in ('monopole', 'periodicarray') for kind in H_FIRST_KINDS]
    k = 0
    for cr0 in crystals:
        for ctor in H_CTOR:
            for first in firsts:
                for gen in ('monopole', 'periodicarray'):
                    for name, call in H_CALL.items():
                        if name == 'keep' and first is not None and first[1] != 'keep':
                            continue            # nothing says which shift applies then
                        cr = json_copy(cr0)
                        cr['shift'] = ctor
                        if first is None and name == 'keep':
                            hist = None
                        else:
                            hist = {'first': None, 'call': json_copy(call)}
                            if first is not None:
                                hist['first'] = {'gen': first[0], 'shift': json_copy(H_CALL[first[1]]), 'size': {'line': 1, 'motion': 4, 'cut': 2, 'tuple': False},
                                                 'center': {'kind': 'abs', 'm': -0.1, 'n': -0.25, 'l': 0.5}, 'boundary': {'shape': 'cylinder', 'width': 1.0, 'scale': False},
                                                 'linear': k % 2 == 0}
                        out.append(_hcase(cr, gen, hist, {'line': 1, 'motion': 6, 'cut': 4, 'tuple': k % 4 == 0},
                                          {'kind': 'abs', 'm': 0.05, 'n': 0.2, 'l': 0.3}, {'shape': 'box', 'width': 1.5, 'scale': False}, k))
                        k += 1
    return out


H_MINS = {'a': 17.3, 'b': 23.9, 'c': 12.7}
H_BOUNDARY = [{'shape': 'cylinder', 'width': 0.0, 'scale': False}, {'shape': 'cylinder', 'width': 1.7, 'scale': False},
              {'shape': 'cylinder', 'width': 2.3, 'scale': True}, {'shape': 'box', 'width': 1.7, 'scale': False}, {'shape': 'box', 'width': 2.3, 'scale': True}]
H_CENTER = [{'kind': 'none'}, {'kind': 'abs', 'm': 0.1, 'n': 0.2, 'l': 0.4}, {'kind': 'scaled', 'm': -0.15, 'n': -0.1, 'l': 0.7}, {'kind': 'int', 'm': 2, 'l': 1}]


def options_size_cases(tier):
    """H: the options that set the multipliers - sizemults absent (documented default) / list / tuple with every subset of amin,
    bmin, cmin, for a line along each of the three box vectors - each with every boundary shape / width / boundaryscale choice
    and every centre / centerscale choice"""
    import itertools
    out = []
    crystals = H_CRYSTALS[:3] if tier == 'quick' else H_CRYSTALS
    k = 0
    for cr0 in crystals:
        for gen in ('monopole', 'periodicarray'):
            for r in range(4):
                for sub in itertools.combinations('abc', r):
                    for smform in ('default', 'list', 'tuple'):
                        nb = len(H_BOUNDARY) if tier != 'quick' else 1
                        for j in range(nb):
                            size = {'line': 1, 'motion': 2, 'cut': 2, 'tuple': smform == 'tuple', 'mins': [[ax, H_MINS[ax] + 1.1 * k % 7] for ax in sub]}
                            if smform == 'default':
                                size['default'] = True
                            out.append(_hcase(cr0, gen, None, size, H_CENTER[(k + j) % len(H_CENTER)], H_BOUNDARY[(k + j) % len(H_BOUNDARY)], k))
                        k += 1
            # boundary x centre options in every pair (multipliers fixed)
            for bd in H_BOUNDARY:
                for cen in H_CENTER:
                    out.append(_hcase(cr0, gen, None, {'line': 2, 'motion': 4, 'cut': 4, 'tuple': False}, cen, bd, k))
                    k += 1
    return out


def oracle_options(case):
    labels = set((oracle_monopole if case['gen'] == 'monopole' else oracle_array)(case))
    labels.add('gen_' + case['gen'])
    h = case.get('hist')
    if h and h.get('first'):
        labels.add('first_' + h['first']['gen'] + '_' + h['first']['shift']['kind'])
    if h:
        labels.add('call_' + h['call']['kind'])
    labels.add('ctor_' + case['disl']['shift']['kind'])
    nm = len(case['size'].get('mins', []))
    if 'mins' in case['size']:
        labels.add('mins_%d' % nm)
    return labels


# length-scale guards at half the share observed on the unchanged tree, where the open finding KEY_TOL excludes every case with a
# cell <= 1e-2 working units and a third of those at 1e6 (shares over the remaining cases there: scaled 0.16-0.22, scaled_large
# 0.10-0.19, scaled_small 0.035-0.08, nt_scaled 0.044-0.14; behind the repair: 0.33-0.47, 0.08-0.13, 0.20-0.34, 0.15-0.27, and
# scale_1e-10 0.09-0.12: raise the guards to scaled 0.2, scaled_small 0.12, nt_scaled 0.08, scale_1e-10 0.05 once it has landed).
# sizemults (400 cases): the overall share only
SCALE_SHARE = {'scaled': 0.075, 'scaled_large': 0.047, 'scaled_small': 0.02, 'nt_scaled': 0.02, 'C_magnitude_scaled': 0.19}
SOLVER_SHARE = {'solver_refused': 0.02}
# round-5 classes: half of the smallest share seen at seeds 2, 3, 4 on the unchanged tree, where the open findings on set_shift
# (mut_inputs_shift, mut_shift_attribute) and on numpy multipliers (form_sm) exclude their cases: those labels carry no guard
CLASS_SHARE = {'forms': 0.2, 'narrow': 0.18, 'oriented': 0.14}
HIST_SHARE = dict({'ledger': 0.27, 'ledger_first': 0.11, 'ledger_later_calls': 0.18, 'ledger_other_object': 0.08, 'ledger_same_size': 0.09,
                   'mut_inputs': 0.09, 'mut_outputs': 0.05, 'near': 0.045, 'near_face': 0.008, 'halves': 0.025, 'units': 0.03, 'units_pre': 0.02},
                  **CLASS_SHARE)
# (the shares of the small classes vary by a factor of five between seeds when the machine is loaded and only four shards run, each
# cut short by the soft wall - Hypothesis explores in bursts around earlier examples: guards at half of the smallest share seen in
# nine runs, seeds 1 .. 6, full and wall-cut)

CLAUSES = [
    Clause('reference', oracle_reference, reference_cases, quick=1000, thorough=24000,
           min_share=dict({'nt': 0.04, 'frame_ok': 0.2, 'hcp': 0.01, 'mn_cyclic': 0.08, 'units': 0.025}, **SCALE_SHARE, **CLASS_SHARE), max_share=SOLVER_SHARE,
           desc='rcell/uvws/transform/shifts and the reference system: the unit cell crystal rotated by transform, shifted, filling the box once'),
    Clause('monopole', oracle_monopole, monopole_cases, quick=1000, thorough=36000,
           min_share={'nt': 0.06, 'bd_mixed': 0.12, 'bd_cylinder': 0.06, 'bd_box': 0.06, 'center_scaled': 0.03, 'center_abs': 0.05,
                      'wrapped_along_line': 0.15, 'history_second_call': 0.24, 'history_ctor_shift_differs': 0.077,
                      'history_shift_changes': 0.15, 'history_other_generator': 0.08, 'explicit_shiftindex0': 0.15,
                      'explicit_shiftindex0_stale': 0.08, **SCALE_SHARE, **HIST_SHARE}, max_share=SOLVER_SHARE,
           desc='monopole: all reference atoms kept, displaced by the solution at (reference position - centre), periodic along the line only, boundary atoms re-typed exactly outside the box / cylinder region'),
    Clause('array', oracle_array, array_cases, quick=1000, thorough=36000,
           min_share={'nt': 0.06, 'removed': 0.15, 'interior': 0.12, 'band': 0.07, 'linear': 0.06, 'history_second_call': 0.23,
                      'history_ctor_shift_differs': 0.07, 'history_shift_changes': 0.15, 'history_other_generator': 0.1,
                      'explicit_shiftindex0': 0.16, 'explicit_shiftindex0_stale': 0.08, 'near_bd': 0.01, 'units_default_cutoff': 0.01,
                      **SCALE_SHARE, **HIST_SHARE},
           max_share=dict({'refusal': 0.25}, **SOLVER_SHARE),
           desc='periodic array: deletion count from the edge component, deleted atoms are duplicates, no overlap in-plane, old_id maps back, linear / solution displacement re-derived, pbc and box'),
    Clause('disregistry', oracle_disregistry, disreg_cases, quick=800, thorough=20000,
           min_share=dict({'nt': 0.05, 'tail': 0.12, 'exact_linear': 0.03, 'bookkeeping': 0.15, 'tripled': 0.01, 'units': 0.005}, **SCALE_SHARE, **CLASS_SHARE),
           max_share=dict({'refusal': 0.25}, **SOLVER_SHARE),
           desc='disregistry across the slip plane accumulates to b up to the analytic tail bound (exactly b (x_hi-x_lo)/L for the linear field); error shrinks when the width is tripled'),
    Clause('options_shift', oracle_options, enumerate=options_shift_cases, nontrivial=lambda labels: 'history_second_call' in labels,
           min_share={'history_second_call': 0.45, 'history_other_generator': 0.22, 'explicit_shiftindex0_stale': 0.05, 'history_keep': 0.01,
                      'explicit_zero_shift': 0.03, 'ledger_first': 0.45, 'removed': 0.25},
           desc='H: constructor shift choice x earlier call (generator x shift choice) x judged generator x shift choice, enumerated; judged by the monopole / array oracles'),
    Clause('options_size', oracle_options, enumerate=options_size_cases, nontrivial=lambda labels: 'min_raised_mult' in labels or 'default_sizemults' in labels,
           min_share={'min_raised_mult': 0.11, 'default_sizemults': 0.04, 'mins_2': 0.1, 'mins_3': 0.03},
           desc='H: sizemults absent / list / tuple x every subset of amin, bmin, cmin x line along a, b, c; boundary shape / width / scale x centre / centerscale pairs; enumerated'),
    Clause('sizemults', oracle_sizemults, sizemults_cases, quick=300, thorough=4000, min_share={'monopole': 0.1, 'scaled': 0.075}, max_share=SOLVER_SHARE,
           desc='sizemults as the documented tuple equals the list result; a list argument is left untouched and the call is repeatable'),
]
