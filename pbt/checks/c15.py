"""C15 - Point-defect insertion changes only the defect site and records the mapping.

A case is {'sys': system description, 'ops': [op, ...]}: a history of 1-4 successive point-defect insertions
(clauses `insert`, `refuse`, `intpos` use histories of length one).  The oracle interprets the operations against
the real atomman objects and against an independent model (plain numpy arrays: position, type, one array per
property, the expected old_id column) and compares everything after every step.  All generic numbers of an
operation (atom number, new type, ...) are resolved against the *current* state, so every sub-list of a history
is again a valid history.

Process-global configuration: a case may carry 'units' (a working-unit configuration applied with
atomman.unitconvert.reset_units: named choices that always contain a length unit, integer seeds, 'SI') and 'hist'
('before' / 'after' / 'both').  The whole history is then run under those working units: the system is a physical
system whose cell, origin, positions, twin displacements, Cartesian db_vect and explicit atol are generated as
angstrom numbers and expressed in the working units in force (uc.set_in_units(., 'angstrom')), the documented default
atol is 0.01 angstrom *physically* (= 0.01 * [angstrom in working units]) and the displacements 0.3 / 3 / ... atol are
laid around that.  'before': the first operation of the case is first run and judged under the default working units
(angstrom) in the same process, then the units are switched; 'after': after the run the default units are restored and
the first operation is run and judged again under them.  Every tolerance of the oracle is relative to the cell size in
working units (A = one angstrom in working units replaces the absolute 1.0 of the angstrom-only formulas).  The default
units are ALWAYS restored in a finally block (the cases of one shard share a process).

Generator classes carried over from the seeded rounds of the other properties (all judged by the same oracles):
 A  ledger: every system any call of the case returned (first route, second route, the head operation run under the default
    units before / after, the operation repeated on another system object 'again') is kept with a bit-for-bit snapshot and
    re-judged after every later call, after reset_units, after the in-place edits and at the end (label ledger / ledger_other).
 B  caller-side mutation: the arrays handed IN (pos, db_vect, keyword values) must be bit-identical (values, dtype, shape, strides,
    flags) after every call, refused or not; for odd k the caller then overwrites them in place, for k % 4 == 1 it also
    overwrites the system it handed in (in place, or through the setters: atoms.view[...] = ..., box_set, pbc = ...) - the first
    system of a history only at its end - and everything returned earlier must not move (mut_args, mut_input_*); the third
    identical call (same argument objects re-used) is now also compared with the model before it is edited in place.
 C  dtypes: what the caller hands in - pos / db_vect as float32, float16, big-endian, read-only, strided arrays, lists of numpy
    scalars; integral positions as int8 ... uint64, big-endian, bool arrays and lists of numpy integer scalars; ptd_id / atype
    as numpy scalars int8 ... uint64 and big-endian; atol as numpy float32 / float64 / big-endian scalar; keyword values as
    float32 / float16 / int8 / int16 scalars and arrays (the vector a float32 / float16 array holds IS the request: the oracle
    decides from the float64 value of what was passed) - and what the system stores ('store': positions float32 / float16 /
    big-endian, types int8 ... uint64, properties float32 / float16 / int8 / int16 with the limits of the dtype among the values,
    old_id in int8 ... uint64 reaching up to 4 below the limit, arrays handed to Atoms Fortran-ordered / strided / read-only; the
    positions rounded to the storage dtype are the atoms' positions for the model, one rounding to the storage dtype is granted to
    the position of a new atom).
 E  near-threshold: displacements (1 -+ 1e-3) atol and (1 -+ 3e-4) atol, 1e-9 / 1e-6 / 1e-3 atol, twins 1e-3 inside / outside the
    default atol, atoms and interstitial sites 1e-12 ... 1e-3 (relative) away from a face of the cell on either side, db_vect
    scaled down by 1e-3 ... 1e-12.  The band of the look-up (below) is unchanged: what falls into it is skipped and counted.
 G  exact images of the cell ('sym'): the 48 signed permutations of the Cartesian axes, the 6 renamings and 8 sign patterns of
    the cell vectors applied exactly to cells whose LAMMPS form was mostly not rotated: triangular cells with negative entries,
    permuted orthogonal cells, left-handed cells.
 H  clause combos: the options of one call enumerated in every combination and the defect types (with site / scale / extras)
    in every order for two and three successive calls.
 (D, the working-unit configurations, was there; F, many decades in one array argument, does not apply: no argument of the four
 generators has more than one row, the N x 3 positions and the property columns are compared bit for bit row by row, and each
 atom's own distance is compared with atol - the decades between coordinates (origin +-100, working units from 1e-10 to 1e+2
 per angstrom) and atol are covered by the cell and unit generators.)

Site look-up is decided independently of atomman (numpy only, function `lookup`): with w_i the perpendicular
widths of the cell, an image y = d0 + n.V of the separation d0 (n_i = 0 on non-periodic axes) satisfies
|s0_i + n_i| <= |y| / w_i, so if atol < w_i / 2 on every periodic axis the only image that can be as short as
atol is n = -rint(s0).  The expected set of atoms "at the position" is therefore {j : |d0_j - rint(s0_j).V| <= atol},
exactly, with a narrow band around atol exempt (and counted).  Sites that are only reachable through an image
with |n_i| > 1 are outside what System.dvect examines (C02 decides dvect for points of the cell) and are skipped
and counted, never generated on purpose.
"""
import copy

import numpy as np
from hypothesis import strategies as st

from ..core import Clause, Violation, require
from .. import gens
from .. import gens_c15 as g15

RULE = ("systems: conditioned cell (lengths 3-12, tilts up to half a length, crystal families, optionally rigidly rotated, origin up "
        "to +-100, all pbc triples), 1-40 atoms as a small supercell of a 1-4 atom basis or as jittered grid points, optionally a "
        "'twin' atom 0.004-0.2 from another, 1-3 types, 0-3 extra properties (float, int, bool, str, (3,), (2,2)), optionally a "
        "pre-existing old_id; operations: vacancy / interstitial / substitutional / dumbbell, directly or through point(), site by "
        "index (int, numpy int, negative) or by position (list / array / tuple, Cartesian or box-relative, through a periodic image "
        "n in {-1,0,1}^3, displaced by 0, 0.3, 0.9, 0.99, 1.01, 1.1, 1.5, 3, 30 times atol in axis, face- and body-diagonal and generic "
        "directions), atol default or 0.002 / 0.05 / 0.25, per-atom keyword values for any subset of the properties, db_vect Cartesian "
        "or relative; refusal classes built on purpose; process-global configuration: about 40 % of the cases of insert / refuse / "
        "history run under other working units set with unitconvert.reset_units (named: length nm / m / cm / pm / aBohr / angstrom "
        "with 0-3 of mass, time, energy, charge; integer seeds; SI), the physical system expressed in those units and the default "
        "atol = 0.01 angstrom physically, optionally with the first operation run and judged under the default units before the "
        "switch and/or after the restore in the same process.  Non-trivial: the cell is tilted, rotated or has a non-zero origin AND the "
        "insertion succeeded with the site chosen by position through a periodic image or in box-relative coordinates "
        "(history: additionally at least two successful insertions, so that old_id had to compose).  Carried over from the seeded rounds: "
        "a ledger of every returned system re-judged after later calls / reset_units / in-place edits; argument arrays bit-identical "
        "after the call, then overwritten by the caller together with the input system (in place or through the setters); narrow / "
        "unsigned / big-endian / read-only / strided / numpy-scalar arguments and float32 / float16 / narrow-integer storage with the "
        "dtype limits among the values; displacements 1e-3 and 3e-4 (relative) around atol and 1e-9 ... 1e-3 atol, atoms 1e-12 ... 1e-3 "
        "from a face, tiny db_vect; exact signed-permutation / renamed / reversed (left-handed) images of the cell; clause combos: "
        "all option combinations of one call and all ordered pairs / triples of defect types enumerated")
ASSUMPTIONS = ["System.dvect returns the nearest of the 27 (9/3/1) neighbouring images (decided by C02); sites only reachable through a "
               "farther image are skipped",
               "Box.position_relative_to_cartesian is s.V+o to 1e-8 relative (decided by C01)",
               "System/Atoms construction, slicing and deepcopy keep per-atom data row-aligned (decided by C06)",
               "keyword values are only given for properties the system has; the value of old_id given to a *new* atom is not "
               "documented, only that it differs from the old_id of every other atom of the result",
               "the default (zero) value of a string property of a new interstitial atom is not asserted",
               "unitconvert.reset_units applies a working-unit configuration and set_in_units(x, 'angstrom') expresses angstrom "
               "numbers in it (decided by C09); configurations without a length unit are not generated",
               "a float32 / float16 / integer array or numpy scalar handed in means the float64 value it holds; a system whose positions "
               "are stored in float32 / float16 consists of those stored values, and a new atom's position is granted one rounding to that "
               "dtype; the id interstitial / dumbbell give a new atom (old_id.max() + 1 in the column's dtype) is not judged at the "
               "exact limit of that dtype (it wraps); left-handed cells are accepted by Box and System.dvect (not covered by C02's "
               "generator, decided here by the independent look-up)"]
LEVEL_TEXT = ("Random single insertions and histories of 1-4 insertions of all four defect types over cells of any shape, every index, "
              "positions within and beyond the tolerance, images and relative coordinates, compared row by row with an independent "
              "model (count, order, survivors bit-identical, old_id composed to the first system, defect atoms last with requested "
              "position/type/values, cell/pbc/symbols, input untouched and unaliased), plus every documented refusal; the same under other process-wide working units "
              "(reset_units named / seeded), before and after insertions under the default units in the same process; every returned "
              "system re-judged after later calls and after the caller overwrote its arguments and input; narrow dtypes for arguments and "
              "storage; near-tolerance and near-face sites; exact symmetry images of the cell; option combinations and orders enumerated.")
TECHNIQUE = ("model-based histories; independent exact site look-up (unique-image argument); refusal families; aliasing probes; "
             "working-unit configurations; result ledger; caller-side mutation; dtype / layout variants; enumerated option combinations")
WALL = {'quick': 60, 'thorough': 600}

KEY_DB = 'C15:dumbbell:db_vect-scaled-origin'
KEY_INT = 'C15:pos:integer-typed'
KEY_ONE = 'C15:pos:single-atom-system'
KEY_U64 = 'C15:ptd_id:uint64-scalar'

EPS = 2.220446049250313e-16
DEFAULT_ATOL = 0.01            # angstrom, physically: env['atol0'] is this in the working units in force
DEFAULT_UNITS = {'length': 'angstrom', 'mass': 'amu', 'energy': 'eV', 'charge': 'e'}

POOL = [('charge', 'f', []), ('tag', 'i', []), ('vel', 'f', [3]), ('flag', 'b', []), ('name', 's', []), ('st', 'f', [2, 2])]
POOLD = {p[0]: p for p in POOL}
DT = {'f': np.float64, 'i': np.int64, 'b': np.bool_, 's': '<U4'}
NPKIND = {'f': 'f', 'i': 'iu', 'b': 'b', 's': 'U'}
WORDS = ['', 'a', 'Fe', 'xyz', 'abcd']

MSG = {
    'both': (ValueError, 'pos and ptd_id cannot both be supplied'),
    'neither': (ValueError, 'Either pos or ptd_id required'),
    'oor': (ValueError, 'invalid ptd_id'),
    'nosite': (ValueError, 'Unique atom at pos not identified'),
    'occupied': (ValueError, 'atom already at pos'),
    'sametype': (ValueError, 'identified atom is already of the specified atype'),
    'notallowed': (AssertionError, 'not allowed'),
    'badtype': (ValueError, 'Invalid ptd_type'),
}


# ----------------------------------------------------------------------------- model

class Model:
    """independent description of a system's atoms: arrays only"""

    def __init__(self, x, atype, props, kinds, old_id):
        self.x = x                  # (N,3) float64
        self.atype = atype          # (N,) int64
        self.props = props          # name -> array (N,)+shape
        self.kinds = kinds          # name -> (kind, shape)
        self.old_id = old_id        # None | list of int-or-None (None = value not documented, learned from the result)
        self.face = np.zeros(len(x), dtype=bool)     # atom generated 1e-12 ... 1e-3 (relative) away from a face of the cell

    @property
    def n(self):
        return len(self.x)

    def take(self, idx):
        idx = list(idx)
        oid = None if self.old_id is None else [self.old_id[i] for i in idx]
        new = Model(self.x[idx].copy(), self.atype[idx].copy(), {k: v[idx].copy() for k, v in self.props.items()},
                    self.kinds, oid)
        new.face = self.face[idx].copy()
        return new


def _same(a):
    return a


def build_env(sysd, conv=_same):
    """conv expresses angstrom numbers in the working units in force (identity under the default units)"""
    c = sysd['cell']
    A = float(conv(1.0))
    V0, o0 = g15.apply_sym(gens.cell_vects(c), gens.cell_origin(c), sysd.get('sym'))      # exact image of the cell (class G)
    V, o = np.array(conv(V0), dtype=float), np.array(conv(o0), dtype=float)
    rel = np.array(sysd['rel'], dtype=float).reshape(-1, 3)
    x = rel @ V + o
    for j, d in sysd.get('twins', []):
        x = np.vstack([x, x[j % len(x)] + np.array(conv(np.array(d, dtype=float)), dtype=float)])
    n = len(x)
    # storage dtypes (class C): the system IS what its storage holds - positions rounded to the storage dtype are the atoms'
    # positions for the model too, so every value atomman sees is exactly representable in the dtype it is stored in
    sd = dict(sysd.get('store') or {})
    store = {'layout': sd.get('layout') or 'C', 'pos': None, 'atype': sd.get('atype'), 'f': sd.get('f'), 'i': sd.get('i'), 'oid': None}
    estore = 0.0
    if sd.get('pos'):
        xr = g15.round_to(x, sd['pos'])
        if xr is not None:
            x, store['pos'] = xr, sd['pos']
            estore = float(np.finfo(np.dtype(sd['pos'])).eps)
    atype = np.array([sysd['atype'][i % len(sysd['atype'])] for i in range(n)], dtype=np.int64)
    props, kinds = {}, {}
    for name, vals in sysd['props']:
        _, kind, shape = POOLD[name]
        arr = np.array([vals[i % len(vals)] for i in range(n)], dtype=DT[kind]).reshape((n,) + tuple(shape))
        if kind == 'i' and store['i'] and sd.get('lim') and n >= 2:
            info = np.iinfo(np.dtype(store['i']))             # integers up to the limits of the dtype they are stored in
            arr.flat[0], arr.flat[-1] = info.max, info.min
        props[name] = arr
        kinds[name] = (kind, tuple(shape))
    oid = None
    if sysd.get('old_id') is not None:
        oid = [int(sysd['old_id'][i % len(sysd['old_id'])]) + 1000 * (i // len(sysd['old_id'])) for i in range(n)]
        for dt in ((sd['oid'], 'int16') if sd.get('oid') else ()):
            if all(g15.int_fits(v, dt) for v in oid):
                store['oid'] = dt
                if sd.get('lim'):
                    # an id at the top of the dtype's range.  Room is left for the ids of the (at most four) atoms a history
                    # creates: interstitial / dumbbell number a new atom old_id.max() + 1 IN THE COLUMN'S DTYPE, which at the
                    # exact limit wraps around (numpy: RuntimeWarning, int8 127 + 1 -> -128; the same for int64) - a limit of
                    # the dtype the caller chose for the column, nothing the docstrings promise anything about; not judged.
                    oid[n // 2] = int(np.iinfo(np.dtype(dt)).max) - 4
                break
    env = dict(A=A, atol0=float(conv(DEFAULT_ATOL)), V=V, o=o, pbc=np.array(sysd['pbc'], dtype=bool), symbols=tuple(sysd['symbols']),
               Vinv=np.linalg.inv(V), vmax=float(np.abs(V).max()), omax=float(np.abs(o).max()), store=store, estore=estore)
    env['w'] = 1.0 / np.linalg.norm(env['Vinv'], axis=0)          # perpendicular widths
    m = Model(x, atype, props, kinds, oid)
    for j in sysd.get('face') or []:
        m.face[int(j) % n] = True
    return env, m


def make_system(am, env, m):
    sd = env['store']
    lay = sd['layout']
    kw = {}
    for k, v in m.props.items():
        dt = sd.get(m.kinds[k][0])
        kw[k] = g15.layout_of(v.astype(dt) if dt else v.copy(), lay)
    if m.old_id is not None:
        kw['old_id'] = g15.layout_of(np.array(m.old_id, dtype=sd['oid'] or np.int64), lay)
    atype = g15.layout_of(m.atype.astype(sd['atype']) if sd['atype'] else m.atype.copy(), lay)
    pos = g15.layout_of(m.x.astype(sd['pos']) if sd['pos'] else m.x.copy(), lay)
    atoms = am.Atoms(atype=atype, pos=pos, **kw)
    return am.System(atoms=atoms, box=am.Box(vects=env['V'].copy(), origin=env['o'].copy()), pbc=env['pbc'].tolist(),
                     symbols=list(env['symbols']))


def snapshot(system):
    return dict(vects=np.array(system.box.vects, dtype=float), origin=np.array(system.box.origin, dtype=float),
                pbc=np.array(system.pbc).copy(), symbols=tuple(system.symbols), natoms=system.natoms,
                keys=list(system.atoms.view.keys()),
                arrays={k: np.array(v, copy=True) for k, v in system.atoms.view.items()})


def check_snapshot(system, snap, what):
    require(np.array_equal(np.asarray(system.box.vects), snap['vects']), lambda: '%s: box vectors changed to %r' % (what, system.box.vects))
    require(np.array_equal(np.asarray(system.box.origin), snap['origin']), lambda: '%s: box origin changed to %r' % (what, system.box.origin))
    require(np.array_equal(np.asarray(system.pbc), snap['pbc']), lambda: '%s: pbc changed to %r' % (what, system.pbc))
    require(tuple(system.symbols) == snap['symbols'], lambda: '%s: symbols changed to %r' % (what, system.symbols))
    require(system.natoms == snap['natoms'], lambda: '%s: natoms changed %d -> %d' % (what, snap['natoms'], system.natoms))
    keys = list(system.atoms.view.keys())
    require(keys == snap['keys'], lambda: '%s: property keys changed %r -> %r' % (what, snap['keys'], keys))
    for k, a in snap['arrays'].items():
        b = system.atoms.view[k]
        require(b.dtype == a.dtype and b.shape == a.shape and np.array_equal(a, b),
                lambda: '%s: per-atom property %r changed:\nbefore %r\nafter  %r' % (what, k, a.tolist(), b.tolist()))


def scribble(system, env):
    """edit everything in the returned system in place (aliasing probe)"""
    for k, arr in system.atoms.view.items():
        if arr.size == 0 or not arr.flags.writeable:
            continue
        kind = arr.dtype.kind
        if k == 'atype':
            arr[...] = arr % 5 + 1          # stays a legal type in any integer dtype (System.symbols refuses types < 1)
        elif kind == 'b':
            arr[...] = ~arr
        elif kind == 'U':
            arr[...] = '#'
        elif kind in 'iu' and arr.dtype.itemsize < 4:
            arr[...] = ~arr
        else:
            arr[...] = arr + 1000
    system.box.set(vects=env['V'] * 2.0, origin=env['o'] + 1.0)
    p = system.pbc
    p[...] = ~p


# ----------------------------------------------------------------------------- independent site look-up

def lookup(env, x, p, atol):
    """(status, matched indices): status 'ok' | 'thin' | 'band' | 'far'"""
    pbc, w = env['pbc'], env['w']
    if pbc.any() and atol >= 0.4 * float(w[pbc].min()):
        return 'thin', None
    d0 = x - p
    s0 = d0 @ env['Vinv']
    n = -np.rint(s0)
    n[:, ~pbc] = 0.0
    y = d0 + n @ env['V']
    L = np.sqrt((y * y).sum(axis=1))
    band = 1e-7 * (env['A'] + env['vmax']) * (1.0 + float(np.abs(s0).max())) + 1e-12 * env['omax']
    if np.any(np.abs(L - atol) <= band):
        return 'band', None
    hit = L < atol
    if np.any(np.abs(n[hit]) > 1):
        return 'far', None
    return 'ok', np.nonzero(hit)[0]


def unit(v):
    v = np.asarray(v, dtype=float)
    return v / np.linalg.norm(v)


def fmt_vec(vec, form, dt=None):
    """(object passed to atomman, form actually used, the float64 vector that object represents, dtype variant used or None)

    dt asks for a narrow / unusual representation (class C); it is applied where it is a faithful one (integers that fit, floats
    that neither overflow nor vanish), the vector the object then represents - rounded to float32 / float16 - is what the caller
    asked for, and the oracle decides from it."""
    vec = np.asarray(vec, dtype=float)
    if form in ('intlist', 'intarray'):
        r = np.rint(vec)
        if np.array_equal(r, vec) and np.abs(vec).max() < 2 ** 40:
            ints = [int(t) for t in r]
            ok = dt in g15.INT_ARG_DTS and all(g15.int_fits(t, dt) for t in ints)
            if form == 'intlist':
                if ok and dt != 'bool':
                    return [g15.np_scalar(t, dt) for t in ints], 'intlist', vec, dt        # list of numpy integer scalars
                return ints, 'intlist', vec, None
            if ok:
                return np.array(ints, dtype=dt), 'intarray', vec, dt
            return np.array(ints, dtype=np.int64), 'intarray', vec, None
        form = 'list'
    if form == 'array':
        if dt in ('float32', 'float16', '>f8', '>f4'):
            eff = g15.round_to(vec, dt)
            if eff is not None:
                return eff.astype(dt), 'array', eff, dt
        elif dt in ('ro', 'strided'):
            return g15.layout_of(vec.copy(), dt), 'array', vec, dt
        return vec.copy(), 'array', vec, None
    if form == 'tuple':
        return tuple(float(t) for t in vec), 'tuple', vec, None
    if dt == 'npscalars':
        return [np.float64(t) for t in vec], 'list', vec, dt
    return [float(t) for t in vec], 'list', vec, None


_KW_NARROW = {'narrow': {'f': np.float32, 'i': np.int8, 'b': np.bool_}, 'narrow16': {'f': np.float16, 'i': np.int16, 'b': np.bool_}}


def kw_value(name, val, aslist, kwdt=None):
    """the keyword value of a new atom's property; kwdt: as numpy scalars / arrays of a narrow dtype (values are multiples of 1/8
    up to 4 and integers up to 50: exactly representable)"""
    _, kind, shape = POOLD[name]
    if kind == 's':
        return str(val)
    if kwdt:
        return np.array(val, dtype=_KW_NARROW[kwdt][kind])[()]
    if aslist or not shape:
        if not shape:
            return {'f': float, 'i': int, 'b': bool}[kind](val)
        return val
    return np.array(val, dtype=DT[kind])


def npint(v, op, labels):
    """an index / type as the caller hands it in: Python int, or (op['npint']) a numpy integer scalar of the dtype op['iddt']
    where the value fits (signed / unsigned, narrow, big-endian; default int64)"""
    if not op['npint']:
        return int(v)
    dt = op.get('iddt') or 'int64'
    if not g15.int_fits(int(v), dt):
        dt = 'int64'
    if labels is not None and dt != 'int64':
        labels.add('iddt')
        labels.add('iddt_' + dt)
    return g15.np_scalar(int(v), dt)


# ----------------------------------------------------------------------------- one step of a history

def plan_step(env, m, op):
    """Resolve op against model m.  Returns dict:
       status 'ok'|'refuse'|'skip'; 'call': (fname, kwargs for atomman); for ok: 'new' Model, 'ndefect', 'labels', tolerances"""
    V, o, pbc = env['V'], env['o'], env['pbc']
    N = m.n
    t = op['type']
    labels = set()
    natypes = max(int(m.atype.max()), len(env['symbols']))
    atol_arg = op['atol']
    A = env['A']
    atol = env['atol0'] if atol_arg is None else float(atol_arg) * A        # explicit atol: angstrom number -> working units
    atol_obj = atol
    if atol_arg is not None and op.get('atoldt'):
        eff = g15.round_to([atol], op['atoldt'])
        if eff is not None:
            atol_obj = g15.np_scalar(atol, op['atoldt'])        # a numpy scalar; the tolerance asked for is the number it holds
            atol = float(eff[0])
            labels.add('atol_npscalar')
    k = op['k'] % N
    scale = bool(op['scale'])
    reasons = []
    kwargs = {}
    misuse = op.get('misuse')
    via = 'point' if misuse else op['via']
    if misuse:
        t = {'v_db': 'v', 'v_kw': 'v', 'i_id': 'i', 'i_db': 'i', 's_db': 's', 'badtype': 'x'}[misuse]
    if t == 'v' and N <= 1:
        return dict(status='skip', labels={'skip_small'})
    labels.add('type_' + t)
    labels.add('via_' + via)

    # ---- per-atom keyword values
    kwvals = {}
    if t in ('i', 's', 'db'):
        for name, val in op['kw']:
            if name in m.props:
                kwvals[name] = val
                kwargs[name] = kw_value(name, val, op['kwlist'], op.get('kwdt'))
        if kwvals:
            labels.add('kw')
            if op.get('kwdt') and any(POOLD[name][1] != 's' for name in kwvals):
                labels.add('kw_narrow')
    if op.get('oldid_kw') is not None and t in ('i', 'db'):
        v = int(op['oldid_kw'])
        dt = env['store']['oid']
        if dt and m.old_id is not None and not g15.int_fits(v, dt):
            # the system stores old_id in a narrow dtype: ask for an id that dtype can hold (the largest one not in use)
            v = int(np.iinfo(np.dtype(dt)).max) - 1
            while v in m.old_id:
                v -= 1
        kwargs['old_id'] = v

    # ---- the site
    sel = op['sel'] if t != 'i' else 'pos'
    if misuse in ('v_db', 'v_kw', 's_db', 'badtype'):
        sel = 'id'
    image = np.array(op['image'], dtype=float)
    f, dirv = op['off']
    target = None
    p = None
    if t == 'i' and not op['inear']:
        p = np.array(op['irel'], dtype=float) @ V + o
        labels.add('i_free')
    elif sel in ('pos', 'both') or t == 'i':
        p = m.x[k] + image @ V + (f * atol) * unit(dirv)
    if sel == 'both':
        p = m.x[k].copy()
    if p is not None:
        if scale:
            rel = np.linalg.solve(V.T, p - o)
            if op['posform'] in ('intlist', 'intarray'):
                rr = np.rint(rel)
                if np.abs(rr - rel).max() < 1e-9:
                    rel = rr
            arg, used, eff, dtl = fmt_vec(rel, op['posform'], op.get('posdt'))
            if used in ('intlist', 'intarray') or eff is not rel:
                p = eff @ V + o
        else:
            arg, used, eff, dtl = fmt_vec(p, op['posform'], op.get('posdt'))
            p = eff
        kwargs['pos'] = arg
        labels.add('pos_' + used)
        if dtl:
            labels.add('argdt')
            labels.add('argdt_' + dtl)
        labels.add('scaled' if scale else 'cartesian')
        if sel == 'pos':
            st_, hit = lookup(env, m.x, p, atol)
            if st_ != 'ok':
                return dict(status='skip', labels={'skip_' + st_})
            if t == 'i':
                if len(hit):
                    reasons.append('occupied')
            else:
                if len(hit) == 1:
                    target = int(hit[0])
                else:
                    reasons.append('nosite')
                    labels.add('absent' if len(hit) == 0 else 'ambiguous')
            if np.any(image != 0):
                labels.add('image')
                if np.any((image != 0) & ~pbc):
                    labels.add('image_nonperiodic')
            if not (t == 'i' and not op['inear']):
                labels.add('off_%g' % f)
                if f != 1.0 and abs(f - 1.0) <= 1.5e-3:
                    labels.add('near_atol')             # 1e-3 ... 3e-4 (relative) inside / outside the search tolerance
                    labels.add('near_atol_in' if f < 1.0 else 'near_atol_out')
                elif 0.0 < f <= 1e-3:
                    labels.add('tiny_off')              # almost exactly on the atom
                if m.face[k]:
                    labels.add('nearface')              # the atom aimed at is 1e-12 ... 1e-3 (relative) away from a face of the cell
                    if np.any(image != 0):
                        labels.add('nearface_image')
            elif op.get('iface'):
                labels.add('i_nearface')
    if sel in ('id', 'both'):
        idx = k - N if op['neg'] else k
        target = k
        if sel == 'id':
            labels.add('id_neg' if op['neg'] else 'id_pos')
        kwargs['ptd_id'] = npint(idx, op, labels)
    elif sel == 'oor':
        j = op['k'] % 3
        idx = (-N - 1 - j) if op['neg'] else (N + j)
        kwargs['ptd_id'] = npint(idx, op, labels)
        reasons.append('oor')
    elif sel == 'neither':
        reasons.append('neither')
    if sel == 'both':
        reasons.append('both')
        target = k
    if scale:
        kwargs['scale'] = True
    elif op['k'] % 2:
        kwargs['scale'] = False
    if atol_arg is not None:
        kwargs['atol'] = atol_obj
        labels.add('atol_custom')
    elif 'pos' in kwargs and (sel == 'pos' or t == 'i'):
        labels.add('pos_default_atol')          # the site decision rests on the documented default tolerance
        labels.update('datol_' + l for l in list(labels) if l.startswith('off_'))

    # ---- type specific
    newtype = None
    if t == 's':
        if op['atype_given'] or misuse:
            cur = int(m.atype[target]) if target is not None else 1
            newtype = 1 + (cur - 1 + op['tshift']) % (natypes + 1)
            kwargs['atype'] = npint(newtype, op, None)
        else:
            newtype = 1
        if target is not None and int(m.atype[target]) == newtype:
            reasons.append('sametype')
    elif t == 'i':
        if op['atype_given']:
            newtype = 1 + op['tshift'] % (natypes + 1)
            kwargs['atype'] = newtype
        else:
            newtype = 1
    dcart = None
    if t == 'db' or misuse in ('v_db', 'i_db', 's_db'):
        d = np.array(op['db'], dtype=float)
        if not scale:
            d = d * A               # Cartesian db_vect: angstrom numbers -> working units
        kwargs['db_vect'], _, d, dtl = fmt_vec(d, op['dbform'], op.get('dbdt'))
        if dtl:
            labels.add('argdt')
            labels.add('dbdt_' + dtl)
        dcart = d @ V if scale else d
        if t == 'db' and op.get('dbtiny'):
            labels.add('tiny_db')
        if t == 'db' and op['atype_given']:
            cur = int(m.atype[target]) if target is not None else 1
            newtype = 1 + (cur - 1 + op['tshift']) % (natypes + 1)
            kwargs['atype'] = newtype
    if misuse == 'v_kw':
        if m.props:
            name = sorted(m.props)[0]
            kwargs[name] = kw_value(name, m.props[name][0].tolist(), True)
        else:
            kwargs['atype'] = 1
    if misuse == 'i_id':
        kwargs['ptd_id'] = 0
    if misuse:
        reasons = ['badtype' if misuse == 'badtype' else 'notallowed']
        labels.add('misuse_' + misuse)

    fname = {'v': 'vacancy', 'i': 'interstitial', 's': 'substitutional', 'db': 'dumbbell'}.get(t)
    if via == 'point':
        kwargs['ptd_type'] = t
        fname = 'point'
        if t == 'v' and not misuse and op['k'] % 3 == 0:
            del kwargs['ptd_type']          # 'v' is the documented default
    out = dict(call=(fname, kwargs), labels=labels, type=t, target=target, scale=scale)
    if reasons:
        out.update(status='refuse', reasons=reasons)
        return out

    # ---- the expected new state
    had_oid = m.old_id is not None
    base_oid = list(m.old_id) if had_oid else list(range(N))
    smax = 1.0
    if t == 'v':
        idx = [i for i in range(N) if i != target]
        new = m.take(idx)
        new.old_id = [base_oid[i] for i in idx]
        ndef = 0
        postol = []
    elif t == 'i':
        idx = list(range(N)) + [0]
        new = m.take(idx)
        new.old_id = base_oid + [kwargs.get('old_id')]
        new.x[-1] = p
        new.atype[-1] = newtype
        for name, (kind, shape) in m.kinds.items():
            if name in kwvals:
                new.props[name][-1] = np.array(kwvals[name], dtype=DT[kind])
            else:
                new.props[name][-1] = np.zeros(shape, dtype=DT[kind])
        ndef = 1
        if scale:
            smax = 1.0 + float(np.abs(np.linalg.solve(V.T, p - o)).max())
            postol = [1e-8 * env['vmax'] * smax * 3 + 1e-12 * env['omax']]
        else:
            postol = [4 * EPS * (A + float(np.abs(p).max()))]
        postol[0] += env['estore'] * float(np.abs(p).max())         # float32 / float16 storage: the requested position, rounded once
    elif t == 's':
        idx = [i for i in range(N) if i != target] + [target]
        new = m.take(idx)
        new.old_id = [base_oid[i] for i in idx]
        new.atype[-1] = newtype
        for name, (kind, shape) in m.kinds.items():
            if name in kwvals:
                new.props[name][-1] = np.array(kwvals[name], dtype=DT[kind])
        ndef = 1
        postol = [0.0]
    else:
        idx = [i for i in range(N) if i != target] + [target, target]
        new = m.take(idx)
        new.old_id = [base_oid[i] for i in idx[:-1]] + [kwargs.get('old_id')]
        new.x[-2] = m.x[target] - dcart
        new.x[-1] = m.x[target] + dcart
        if newtype is not None:
            new.atype[-1] = newtype
        for name, (kind, shape) in m.kinds.items():
            if name in kwvals:
                new.props[name][-1] = np.array(kwvals[name], dtype=DT[kind])
        ndef = 2
        tol = 8 * EPS * (A + float(np.abs(m.x[target]).max()) + float(np.abs(dcart).max()))
        if scale:
            tol += 1e-8 * env['vmax'] * float(np.abs(d).max()) * 3
        tol += env['estore'] * (float(np.abs(m.x[target]).max()) + float(np.abs(dcart).max()))
        postol = [tol, tol]
    out.update(status='ok', new=new, ndef=ndef, postol=postol, kwvals=kwvals)
    return out


def compare(res, new, plan, env, what):
    """result System against the expected model"""
    n = new.n
    require(res.natoms == n, lambda: '%s: result has %d atoms, expected %d' % (what, res.natoms, n))
    keys = sorted(res.atoms.view.keys())
    exp_keys = sorted(['atype', 'pos', 'old_id'] + list(new.props))
    require(keys == exp_keys, lambda: '%s: per-atom properties %r, expected %r' % (what, keys, exp_keys))
    ndef = plan['ndef']
    ns = n - ndef
    view = res.atoms.view
    require(view['pos'].shape == (n, 3) and view['atype'].shape == (n,) and view['old_id'].shape == (n,),
            lambda: '%s: shapes pos %r atype %r old_id %r for %d atoms' % (what, view['pos'].shape, view['atype'].shape, view['old_id'].shape, n))
    require(view['old_id'].dtype.kind in 'iu', lambda: '%s: old_id dtype %r' % (what, view['old_id'].dtype))
    # survivors: bit-identical, original relative order
    for i in range(ns):
        if not np.array_equal(view['pos'][i], new.x[i]) or int(view['atype'][i]) != int(new.atype[i]):
            raise Violation('%s: surviving atom at row %d has type %r pos %r, expected type %r pos %r (the atom with old index %r)'
                            % (what, i, view['atype'][i], view['pos'][i].tolist(), int(new.atype[i]), new.x[i].tolist(), new.old_id[i]))
    got_oid = [int(v) for v in view['old_id']]
    for i in range(n):
        if new.old_id[i] is not None and got_oid[i] != new.old_id[i]:
            raise Violation('%s: old_id[%d] = %d, expected %d (old_id %r, expected %r)' % (what, i, got_oid[i], new.old_id[i], got_oid, new.old_id))
    for i in range(n):
        if new.old_id[i] is None:
            others = got_oid[:i] + got_oid[i + 1:]
            require(got_oid[i] not in others,
                    lambda: '%s: the new atom (row %d) got old_id %d which also names another atom of the result (old_id %r)'
                    % (what, i, got_oid[i], got_oid))
    for name, (kind, shape) in new.kinds.items():
        arr = view[name]
        require(arr.shape == (n,) + shape and arr.dtype.kind in NPKIND[kind],
                lambda: '%s: property %r has shape %r dtype %r, expected %r of kind %s' % (what, name, arr.shape, arr.dtype, (n,) + shape, kind))
        exp = new.props[name]
        for i in range(n):
            if i >= ns and kind == 's' and plan['type'] == 'i' and name not in plan['kwvals']:
                continue
            if not np.array_equal(arr[i], exp[i]):
                raise Violation('%s: property %r of row %d (%s) is %r, expected %r' % (
                    what, name, i, 'surviving atom' if i < ns else 'defect atom', arr[i].tolist(), exp[i].tolist()))
    # defect atoms last: type, then position
    for j in range(ndef):
        i = ns + j
        require(int(view['atype'][i]) == int(new.atype[i]),
                lambda: '%s: defect atom (row %d) has type %r, expected %r' % (what, i, view['atype'][i], int(new.atype[i])))
    # cell, pbc, symbols
    require(np.array_equal(np.asarray(res.box.vects), plan['snap']['vects']) and np.array_equal(np.asarray(res.box.origin), plan['snap']['origin']),
            lambda: '%s: cell of the result differs: vects %r origin %r' % (what, res.box.vects, res.box.origin))
    require(np.array_equal(np.asarray(res.pbc), env['pbc']), lambda: '%s: pbc of the result %r, input %r' % (what, res.pbc, env['pbc']))
    nsym = len(plan['snap']['symbols'])
    exp_sym = plan['snap']['symbols'] + (None,) * max(0, int(new.atype.max()) - nsym)
    require(tuple(res.symbols) == exp_sym, lambda: '%s: symbols of the result %r, expected %r' % (what, res.symbols, exp_sym))
    for j in range(ndef):
        i = ns + j
        err = float(np.abs(view['pos'][i] - new.x[i]).max())
        if err > plan['postol'][j]:
            key = None
            if plan['type'] == 'db' and plan['scale'] and env['omax'] > 0:
                key = KEY_DB
            raise Violation('%s: defect atom (row %d) is at %r, expected %r (off by %.3g, tolerance %.3g)'
                            % (what, i, view['pos'][i].tolist(), new.x[i].tolist(), err, plan['postol'][j]), key=key)


def describe(call):
    fname, kw = call
    return '%s(%s)' % (fname, ', '.join('%s=%r' % (a, (b.tolist() if isinstance(b, np.ndarray) else b)) for a, b in kw.items()))


def run_call(P, system, call):
    fname, kw = call
    try:
        return getattr(P, fname)(system, **kw)
    except ValueError as e:
        if system.natoms == 1 and 'pos' in kw and type(e).__name__ == 'AxisError':
            # System.dvect returns a single (3,) vector for one pair; point.py takes norm(..., axis=1) of it
            raise Violation('%s on a system with a single atom raised %s(%s)' % (describe(call), type(e).__name__, e), key=KEY_ONE)
        raise
    except IndexError as e:
        if isinstance(kw.get('ptd_id'), np.uint64) and 'valid indices' in str(e):
            # index list [..., np.uint64(i)] -> numpy promotes int + uint64 to float64 -> not an index (substitutional, dumbbell)
            raise Violation('%s: a valid atom index given as numpy.uint64 raised IndexError(%s)' % (describe(call), e), key=KEY_U64)
        raise


# ----------------------------------------------------------------------------- ledger, argument snapshots, caller-side mutation

class Ledger:
    """class A: every system a call returned is kept with a bit-for-bit snapshot and re-judged after LATER calls (on the same and on
    other objects, under other working units) and after the caller overwrote what it had handed in"""

    def __init__(self):
        self.items = []
        self.judged = 0
        self.judged_other = 0

    def add(self, obj, what):
        self.items.append((obj, snapshot(obj), what))

    def drop(self, obj):
        self.items = [t for t in self.items if t[0] is not obj]

    def judge(self, when, other=False):
        for obj, snap, what in self.items:
            check_snapshot(obj, snap, '%s [result kept and re-judged %s]' % (what, when))
        if len(self.items) >= 2:
            self.judged += 1
            if other:
                self.judged_other += 1


def snap_args(kw):
    """copies of the array-valued arguments (class B: what the caller hands in must be bit-identical after the call)"""
    return {a: (b, b.copy(), b.dtype, b.shape, b.strides, bool(b.flags.writeable)) for a, b in kw.items() if isinstance(b, np.ndarray)}


def check_args(asnap, what):
    for a, (obj, cp, dt, shape, strides, wr) in asnap.items():
        require(obj.dtype == dt and obj.shape == shape and obj.strides == strides and bool(obj.flags.writeable) == wr
                and np.array_equal(obj, cp),
                lambda: '%s: the array the caller passed as %s was changed by the call: %r (dtype %s) -> %r (dtype %s)'
                % (what, a, cp.tolist(), dt, obj.tolist(), obj.dtype))


def overwrite_args(asnap):
    """the caller re-uses its buffers: everything writable it handed in is overwritten in place"""
    n = 0
    for a, (obj, cp, dt, shape, strides, wr) in asnap.items():
        if wr:
            obj[...] = 7 if obj.dtype.kind in 'iub' else -7.75
            n += 1
    return n


def redefine(am, system, env):
    """the caller re-defines the system it handed in through the setters (new arrays and objects behind the same System)"""
    for k in list(system.atoms.view.keys()):
        arr = system.atoms.view[k]
        if not arr.flags.writeable or arr.size == 0:
            continue
        if arr.dtype.kind == 'b':
            system.atoms.view[k] = ~arr
        elif arr.dtype.kind == 'U':
            system.atoms.view[k] = np.full(arr.shape, '##')
        elif k == 'atype':
            system.atoms.view[k] = np.ones(arr.shape, dtype=arr.dtype)
        else:
            system.atoms.view[k] = (arr * 0 + 3).astype(arr.dtype)
    system.box_set(vects=env['V'][::-1] * 3.0, origin=env['o'] - 2.0)
    system.pbc = [not bool(t) for t in system.pbc]


def do_step(am, P, env, system, m, op, first, first_snap, step, ledger, last):
    """returns (system', model', labels, succeeded)"""
    plan = plan_step(env, m, op)
    if plan['status'] == 'skip':
        return system, m, plan['labels'], False
    what = 'step %d %s' % (step, describe(plan['call']))
    snap = snapshot(system)
    plan['snap'] = snap
    asnap = snap_args(plan['call'][1])
    labels = set(plan['labels'])
    if asnap:
        labels.add('args_checked')
    if plan['status'] == 'refuse':
        ok = [MSG[r] for r in plan['reasons']]
        try:
            res = run_call(P, system, plan['call'])
        except (ValueError, AssertionError) as e:
            if not any(isinstance(e, et) and frag in str(e) for et, frag in ok):
                raise Violation('%s: expected the documented refusal %r, got %s(%s)' % (what, [o_[1] for o_ in ok], type(e).__name__, e))
            check_snapshot(system, snap, what + ' (refused)')
            check_args(asnap, what + ' (refused)')
            ledger.judge('after the refused ' + what)
            labels.add('refusal')
            labels.update('refuse_' + r for r in plan['reasons'])
            return system, m, labels, False
        raise Violation('%s: should have been refused (%s) but returned a system with %d atoms (input %d)'
                        % (what, '/'.join(plan['reasons']), res.natoms, system.natoms))
    try:
        res = run_call(P, system, plan['call'])
    except (ValueError, AssertionError) as e:
        raise Violation('%s: a legal insertion was refused: %s(%s)' % (what, type(e).__name__, e))
    require(isinstance(res, am.System) and res is not system, lambda: '%s: returned %r' % (what, type(res)))
    compare(res, plan['new'], plan, env, what)
    check_snapshot(system, snap, what + ' (input system)')
    check_args(asnap, what)
    if first is not system:
        check_snapshot(first, first_snap, what + ' (first system of the history)')
    ledger.judge('after ' + what)
    ledger.add(res, what)
    new = plan['new']
    got = [int(v) for v in res.atoms.view['old_id']]
    new.old_id = got            # equal where documented (checked); learned for the new atom
    if plan['ndef']:
        # later steps must find these atoms bit-identical to what this step produced (agreed to tolerance above)
        new.x[-plan['ndef']:] = res.atoms.view['pos'][-plan['ndef']:]
    # selection by the other route gives the same result
    t, target = plan['type'], plan['target']
    if t != 'i':
        fname, kw = plan['call']
        kw2 = {a: b for a, b in kw.items() if a not in ('pos', 'ptd_id')}
        if 'pos' in kw:
            kw2['ptd_id'] = target
            labels.add('cross_pos_to_id')
        else:
            st_, hit = lookup(env, m.x, m.x[target], float(kw.get('atol', env['atol0'])))
            if st_ == 'ok' and len(hit) == 1:
                if kw.get('scale', False):
                    kw2['pos'] = np.linalg.solve(env['V'].T, m.x[target] - env['o'])
                else:
                    kw2['pos'] = m.x[target].copy()
                labels.add('cross_id_to_pos')
            else:
                kw2 = None
        if kw2 is not None:
            asnap2 = snap_args(kw2)
            try:
                res2 = run_call(P, system, (fname, kw2))
            except (ValueError, AssertionError) as e:
                raise Violation('%s: the same site selected as %s was refused: %s(%s)' % (what, describe((fname, kw2)), type(e).__name__, e))
            compare(res2, plan['new'], plan, env, what + ' re-selected as ' + describe((fname, kw2)))
            check_snapshot(system, snap, what + ' (input system, second call)')
            check_args(asnap2, what + ' re-selected as ' + describe((fname, kw2)))
            ledger.judge('after the same site was selected again as ' + describe((fname, kw2)))
            ledger.add(res2, what + ' re-selected as ' + describe((fname, kw2)))
    # aliasing probe: the caller edits, in place, everything in the system a third identical call (same argument objects) returned
    if op['k'] % 4 == 0:
        res3 = run_call(P, system, plan['call'])
        compare(res3, plan['new'], plan, env, what + ' (the same call repeated with the same argument objects)')
        check_args(asnap, what + ' (repeated)')
        scribble(res3, env)
        check_snapshot(system, snap, what + ' (input system after editing the returned system in place)')
        ledger.judge('after the system returned by a repetition of the call was edited in place')
        labels.add('alias_probe')
    # caller-side mutation (class B): the caller overwrites in place the arrays it passed and the system it handed in (in place or
    # through the setters); what was returned earlier must not move.  The first system of a history is only given up at its end.
    if op['k'] % 2 == 1:
        if overwrite_args(asnap):
            labels.add('mut_args')
    if op['k'] % 4 == 1:
        if system is not first or last:
            ledger.drop(system)
            if op['k'] % 8 == 1:
                scribble(system, env)
                labels.add('mut_input_inplace')
            else:
                redefine(am, system, env)
                labels.add('mut_input_setters')
            labels.add('mut_input')
            if system is first:
                first_snap.clear()
                first_snap.update(snapshot(system))
    if op['k'] % 2 == 1:
        ledger.judge('after the caller overwrote the arrays it had passed to / the system it had handed to ' + what)
    labels.add('ok')
    return res, new, labels, True


def apply_units(uc, cfg):
    if cfg['kind'] == 'named':
        uc.reset_units(**cfg['units'])
    elif cfg['kind'] == 'seed':
        uc.reset_units(seed=int(cfg['seed']))
    else:
        uc.reset_units(seed='SI')


def run_history(case):
    """the history of the case under its working-unit configuration (process-global), with the first operation optionally
    run and judged under the default units before the switch / after the restore; the default units are always restored"""
    import atomman as am
    import atomman.defect as P
    import atomman.unitconvert as uc
    cfg = case.get('units')
    ledger = Ledger()           # spans the whole case: every system returned under either configuration, by any object
    head = {'sys': case['sys'], 'ops': case['ops'][:1]}
    if cfg is None:
        out = _run_history(am, P, case, _same, ledger)
        if case.get('again'):
            # another object with the same values, after the history: nothing returned so far may move
            _run_history(am, P, head, _same, ledger)
            ledger.judge('after the first operation was repeated on another system object', other=True)
            out[0].add('again')
        return ledger_labels(out, ledger)
    hist = case.get('hist')
    try:
        if hist in ('before', 'both'):
            _run_history(am, P, head, _same, ledger)            # same process, default working units, same oracles
        apply_units(uc, cfg)
        ledger.judge('after reset_units(%r)' % (cfg,), other=True)
        A = float(uc.set_in_units(1.0, 'angstrom'))
        if not (np.isfinite(A) and A > 0.0):
            raise Violation('after reset_units(%r) one angstrom is %r working units' % (cfg, A))
        labels, nok, nt_site, skewed = _run_history(am, P, case, lambda a: uc.set_in_units(a, 'angstrom'), ledger)
        labels.add('units')
        labels.add('units_' + cfg['kind'])
        if cfg['kind'] == 'named':
            labels.add('units_len_' + cfg['units']['length'])
        labels.add('units_A_same' if A == 1.0 else 'units_A_gt1' if A > 1.0 else 'units_A_ge1e-3' if A >= 1e-3 else 'units_A_lt1e-3')
        if 'pos_default_atol' in labels:
            labels.add('units_pos_default_atol')
            labels.update('units_' + l for l in list(labels) if l in ('datol_off_0.3', 'datol_off_3'))
        if hist:
            labels.add('hist_' + hist)
    finally:
        uc.reset_units(**DEFAULT_UNITS)
    ledger.judge('after the default working units were restored', other=bool(hist in ('before', 'both')))
    if hist in ('after', 'both'):
        _run_history(am, P, head, _same, ledger)                # back under the default units
        ledger.judge('after the first operation was repeated under the default working units', other=True)
    return ledger_labels((labels, nok, nt_site, skewed), ledger)


def ledger_labels(out, ledger):
    if ledger.judged:
        out[0].add('ledger')
    if ledger.judged_other:
        out[0].add('ledger_other')
    return out


def _run_history(am, P, case, conv, ledger):
    env, m = build_env(case['sys'], conv)
    system = make_system(am, env, m)
    first, first_snap = system, snapshot(system)
    labels = set(gens.cell_labels(case['sys']['cell']))
    labels |= g15.sym_labels(case['sys'].get('sym'), case['sys']['cell'])
    if env['store']['pos']:
        labels.add('store_pos')
        labels.add('store_pos_' + env['store']['pos'])
    st_ = env['store']
    if st_['atype'] or st_['oid'] or any(st_[kind] for kind, _ in m.kinds.values() if kind in ('f', 'i')):
        labels.add('store_narrow')
    if env['store']['oid']:
        labels.add('store_oid')
    if env['store']['layout'] != 'C':
        labels.add('layout_' + env['store']['layout'])
    if not env['pbc'].all():
        labels.add('mixed_pbc')
    if m.old_id is not None:
        labels.add('had_old_id')
    if m.n == 1:
        labels.add('one_atom')
    if case['sys'].get('twins'):
        labels.add('twin')
    nok = 0
    nt_site = False
    nops = len(case['ops'])
    for step, op in enumerate(case['ops']):
        system, m, labs, ok = do_step(am, P, env, system, m, op, first, first_snap, step, ledger, step == nops - 1)
        labels |= labs
        if ok:
            nok += 1
            if 'pos' in labs_sel(labs) and ('image' in labs or 'scaled' in labs):
                nt_site = True
    labels.add('nok%d' % nok)
    check_snapshot(first, first_snap, 'the first system at the end of the history')
    ledger.judge('at the end of the history')
    skewed = bool(labels & {'tilted', 'rotated', 'origin'})
    return labels, nok, nt_site, skewed


def labs_sel(labs):
    return {'pos'} if any(l.startswith('pos_') for l in labs) else set()


INT_FORMS = ('intlist', 'intarray')


def _has_int(case):
    return any(op['posform'] in INT_FORMS for op in case['ops'])


def _float_twin(case):
    c = copy.deepcopy(case)
    for op in c['ops']:
        if op['posform'] in INT_FORMS:
            op['posform'] = 'list' if op['posform'] == 'intlist' else 'array'
    return c


def _guarded(case):
    """run the history; a failure that disappears when the integer-typed positions are given as floats is the
    known integer-typed-position defect (keyed)"""
    if not _has_int(case):
        return run_history(case)
    try:
        return run_history(case)
    except Violation as v:
        if v.key is not None:
            raise
        first = v
    except Exception as e:      # atomman may fail anywhere once a position was taken for indices
        first = Violation('unexpected %s: %s' % (type(e).__name__, str(e)[:300]))
    run_history(_float_twin(case))      # must hold; otherwise the failure is not about the integer typing
    raise Violation('position given with integer type: ' + first.detail + '  [the same case with float-typed positions holds]', key=KEY_INT)


def oracle_insert(case):
    labels, nok, nt_site, skewed = _guarded(case)
    if nok and nt_site and skewed:
        labels.add('nt')
    return labels


def oracle_history(case):
    labels, nok, nt_site, skewed = _guarded(case)
    if nok >= 2:
        labels.add('composed')
        if nt_site and skewed:
            labels.add('nt')
    kinds = sorted(l for l in labels if l.startswith('type_'))
    if len(kinds) >= 2:
        labels.add('mixed_types')
    return labels


# ----------------------------------------------------------------------------- generators

CELLS = gens.cells(rotated=True, lefthanded=False, origin=True, lmin=3.0, lmax=12.0, maxtilt=0.5, families=True)
_seed = st.integers(0, 2 ** 31 - 1)
_pbc = st.sampled_from([[True, True, True]] * 5 + gens.PBCS)
_BASES = {
    'sc': [[0.0, 0.0, 0.0]],
    'bcc': [[0.0, 0.0, 0.0], [0.5, 0.5, 0.5]],
    'fcc': [[0.0, 0.0, 0.0], [0.5, 0.5, 0.0], [0.5, 0.0, 0.5], [0.0, 0.5, 0.5]],
    'off': [[0.25, 0.25, 0.25], [0.75, 0.75, 0.25]],
    'g1': None, 'g2': None, 'g3': None,
}
_NB = {'sc': 1, 'bcc': 2, 'fcc': 4, 'off': 2, 'g1': 1, 'g2': 2, 'g3': 3}
_LATS = [((a, b, c), name) for a in (1, 2, 3) for b in (1, 2, 3) for c in (1, 2, 3) for name in sorted(_NB)
         if 2 <= a * b * c * _NB[name] <= 40]
_LATS[60:60] = [((1, 1, 1), 'sc'), ((1, 1, 1), 'g1')]          # single-atom systems, away from the ends of the list
_lat = st.sampled_from(_LATS)
_mode = st.sampled_from(['lat', 'lat', 'gen'])
_gcoord = gens.nice(0.05, 0.95, 3)
_ngen = st.integers(2, 12)
_slots = st.lists(st.integers(0, 63), min_size=12, max_size=12, unique=True)
_ntypes = st.sampled_from([1, 2, 2, 3])
_propsel = st.lists(st.integers(0, len(POOL) - 1), min_size=0, max_size=3, unique=True)
_bool = st.booleans()
_one_in_5 = st.sampled_from([False, False, False, False, True])
_one_in_6 = st.sampled_from([False, False, False, False, False, True])
_twin_d = st.sampled_from([0.004, 0.008, 0.015, 0.03, 0.2, 0.00999, 0.01001])     # the last two: 1e-3 (relative) inside / outside the default atol
_one_in_4 = st.sampled_from([False, False, False, True])
_one_in_8 = st.sampled_from([False] * 7 + [True])
_three_in_4 = st.sampled_from([True, True, True, False])
_nface = st.integers(1, 3)
_axis = st.integers(0, 2)
_q8 = st.integers(0, 7)
_DIRS = [[1, 0, 0], [0, 1, 0], [0, 0, -1], [1, 1, 0], [1, -1, 0], [0, 1, 1], [1, 1, 1], [1, -1, 1], [-1, -1, -1], [3, -2, 5], [1, 4, -2]]
_dir = st.sampled_from(_DIRS)


def rand_vals(rng, kind, shape, n):
    size = (n,) + tuple(shape)
    if kind == 'f':
        return (rng.integers(-32, 33, size=size) / 8.0).tolist()
    if kind == 'i':
        return rng.integers(-5, 51, size=size).tolist()
    if kind == 'b':
        return rng.integers(0, 2, size=size).astype(bool).tolist()
    return [WORDS[i] for i in rng.integers(0, len(WORDS), size=n)]


def draw_system(draw, twins=None):
    cell = draw(CELLS)
    pbc = draw(_pbc)
    mode = draw(_mode)
    if mode == 'lat':
        (a, b, c), name = draw(_lat)
        basis = _BASES[name]
        if basis is None:
            basis = [[draw(_gcoord) for _ in range(3)] for _ in range(_NB[name])]
        rel = [[(p[0] + i) / a, (p[1] + j) / b, (p[2] + k) / c] for i in range(a) for j in range(b) for k in range(c) for p in basis]
    else:
        n = draw(_ngen)
        slots = draw(_slots)[:n]
        rng = np.random.default_rng(draw(_seed))
        jit = rng.integers(-20, 21, size=(n, 3)) / 100.0
        rel = [[((s // 16) + 0.5 + jit[i, 0]) / 4, (((s // 4) % 4) + 0.5 + jit[i, 1]) / 4, ((s % 4) + 0.5 + jit[i, 2]) / 4]
               for i, s in enumerate(slots)]
    n = len(rel)
    rng = np.random.default_rng(draw(_seed))
    nt = draw(_ntypes)
    atype = rng.integers(1, nt + 1, size=n).tolist()
    symbols = ['Aa', 'Bb', 'Cc', 'Dd'][:nt + (1 if draw(_one_in_5) else 0)]
    props = []
    for ip in draw(_propsel):
        name, kind, shape = POOL[ip]
        props.append([name, rand_vals(rng, kind, shape, n)])
    old_id = None
    if draw(_one_in_5):
        old_id = (rng.permutation(n) * 3 + 7).tolist()
    tw = []
    want_twin = draw(_one_in_6) if twins is None else twins
    if want_twin:
        d = draw(_twin_d)
        u = unit(draw(_dir))
        tw.append([int(rng.integers(0, n)), (d * u).tolist()])
    # class G: an exact image of the cell (signed permutation of the axes, renamed / reversed cell vectors); mostly on cells whose
    # LAMMPS form was not rotated, so that the zeros survive (triangular cells with negative entries, left-handed cells)
    sym = None
    if draw(_one_in_4):
        sym = g15.draw_sym(draw)
        if cell.get('rot') and draw(_three_in_4):
            cell = dict(cell, rot=None)
    # class C: what the system stores (positions float32 / float16 / big-endian, narrow integer types and properties, old_id
    # up to the limit of its dtype, Fortran-ordered / strided / read-only arrays handed to Atoms)
    store = g15.draw_store(draw) if draw(_one_in_5) else None
    # class E: atoms 1e-12 ... 1e-3 (relative) away from a face of the cell, inside or just outside
    face = []
    if draw(_one_in_6):
        for _ in range(draw(_nface)):
            j = int(rng.integers(0, n))
            rel[j] = list(rel[j])
            rel[j][draw(_axis)] = g15.draw_face_coord(draw)
            face.append(j)
    return {'cell': cell, 'pbc': pbc, 'rel': rel, 'atype': atype, 'symbols': symbols, 'props': props, 'old_id': old_id, 'twins': tw,
            'sym': sym, 'store': store, 'face': face}


_type = st.sampled_from(['v', 'i', 's', 'db'])
_via = st.sampled_from(['direct', 'direct', 'point'])
_sel = st.sampled_from(['id', 'pos', 'pos', 'pos'])
_sel_refuse = st.sampled_from(['both', 'neither', 'oor', 'oor', 'pos'])
_k = st.integers(0, 10 ** 6)
_image = st.one_of(st.just([0, 0, 0]), st.lists(st.sampled_from([-1, 0, 1]), min_size=3, max_size=3))
_offf = st.sampled_from([0.0, 0.0, 0.0, 0.0, 0.3, 0.3, 0.9, 0.99, 1.01, 1.1, 1.5, 3.0, 30.0])
_offf_in = st.sampled_from([0.0, 0.0, 0.3, 0.9])
_offf_out = st.sampled_from([1.01, 1.1, 1.5, 3.0, 30.0])
_atol = st.sampled_from([None, None, None, 0.002, 0.05, 0.25])
_posform = st.sampled_from(['list', 'array', 'tuple'])
_posform_int = st.sampled_from(['intlist', 'intarray'])
_dbform = st.sampled_from(['list', 'array'])
_irel = gens.nice(-0.5, 1.5, 3)
_tshift = st.sampled_from([1, 1, 1, 2, 3, 0])
_db = gens.nice(-0.4, 0.4, 3)
_kwmask = st.integers(0, 7)
_misuse = st.sampled_from(['v_db', 'v_kw', 'i_id', 'i_db', 's_db', 'badtype'])
_oldid_kw = st.sampled_from([None] * 7 + [100000])


# process-global working-unit configurations (always with a length unit; never mass, time and energy together)
_ULEN = ['nm', 'nm', 'nm', 'm', 'm', 'cm', 'cm', 'pm', 'aBohr', 'angstrom']
_UOTHER = {'mass': ['amu', 'kg', 'g'], 'time': ['ps', 's', 'fs'], 'energy': ['eV', 'J', 'kcal'], 'charge': ['e', 'C']}
_USUB = [(), (), ('mass',), ('energy',), ('mass', 'time'), ('time', 'energy'), ('mass', 'energy', 'charge'), ('time', 'charge')]
_ulen = st.sampled_from(_ULEN)
_usub = st.sampled_from(_USUB)
_uoth = {q: st.sampled_from(v) for q, v in _UOTHER.items()}
_ukind = st.sampled_from([None] * 6 + ['named', 'named', 'named', 'seed'])
_ukind_on = st.sampled_from(['named', 'named', 'named', 'seed', 'seed', 'SI'])
_uhist = st.sampled_from(['both', 'before', 'before', 'after', None, None])      # 'both' first: a shrunk failing case carries its own process history
_offf_units = st.sampled_from([0.3, 0.3, 3.0, 3.0, 0.9, 1.5])
_useed = st.one_of(st.integers(0, 50), _seed)


def draw_units(draw):
    """(units, hist): None, None for the default working units"""
    if draw(_ukind) is None:
        return None, None
    kind = draw(_ukind_on)
    if kind == 'named':
        u = {'length': draw(_ulen)}
        for q in draw(_usub):
            u[q] = draw(_uoth[q])
        cfg = {'kind': 'named', 'units': u}
    elif kind == 'seed':
        cfg = {'kind': 'seed', 'seed': draw(_useed)}
    else:
        cfg = {'kind': 'SI'}
    return cfg, draw(_uhist)


def with_units(draw, case):
    case['units'], case['hist'] = draw_units(draw)
    return case


def draw_op(draw, props, refuse=False, offf=None, posform=None, units=None):
    rng = np.random.default_rng(draw(_seed))
    mask = draw(_kwmask)
    kw = []
    for i, (name, _) in enumerate(props):
        if mask & (1 << i):
            _, kind, shape = POOLD[name]
            kw.append([name, rand_vals(rng, kind, shape, 1)[0]])
    d = [draw(_db) for _ in range(3)]
    if not any(d):
        d[0] = 0.125
    op = {
        'type': draw(_type), 'via': draw(_via), 'sel': draw(_sel_refuse if refuse else _sel), 'k': draw(_k),
        'neg': draw(_bool), 'npint': draw(_bool), 'scale': draw(_bool), 'image': draw(_image),
        'off': [draw(offf or _offf), draw(_dir)], 'atol': draw(_atol), 'posform': draw(posform or _posform),
        'irel': [draw(_irel) for _ in range(3)], 'inear': draw(_one_in_5), 'tshift': draw(_tshift), 'atype_given': draw(_bool),
        'db': d, 'dbform': draw(_dbform), 'kw': kw, 'kwlist': draw(_bool), 'oldid_kw': draw(_oldid_kw), 'misuse': None,
        'posdt': draw(g15._argdt), 'dbdt': draw(g15._argdt), 'iddt': draw(g15._iddt), 'atoldt': draw(g15._atoldt), 'kwdt': draw(g15._kwdt),
        'dbtiny': False, 'iface': False,
    }
    if offf is None and draw(_one_in_8):
        op['off'][0] = draw(g15._near_f)            # class E: 1e-3 ... 3e-4 around the tolerance, 1e-9 ... 1e-3 atol off the atom
    if draw(_one_in_8):
        tiny = draw(g15._tiny_db)
        op['db'], op['dbtiny'] = [t * tiny for t in d], True
    if draw(_one_in_8):
        op['irel'][draw(_axis)], op['iface'] = g15.draw_face_coord(draw), True
    if units is not None:
        # under other working units the documented default tolerance and the displacements 0.3 / 3 atol around it matter most
        if offf is None and draw(_bool):
            op['off'][0] = draw(_offf_units)
        if draw(_bool):
            op['atol'] = None
    return op


def aim_at_face(draw, s, op):
    """half of the operations on a system with near-face atoms aim at one of them (any later state: k is taken modulo natoms)"""
    if s['face'] and draw(_bool):
        natoms = len(s['rel']) + len(s['twins'])
        op['k'] = s['face'][0] + natoms * draw(_q8)
    return op


@st.composite
def insert_cases(draw):
    s = draw_system(draw)
    cfg, hist = draw_units(draw)
    op = aim_at_face(draw, s, draw_op(draw, s['props'], units=cfg))
    return {'sys': s, 'ops': [op], 'units': cfg, 'hist': hist, 'again': draw(_one_in_4)}


@st.composite
def history_cases(draw):
    s = draw_system(draw)
    n = draw(st.integers(1, 4))
    cfg, hist = draw_units(draw)
    ops = [aim_at_face(draw, s, draw_op(draw, s['props'], offf=_offf_in if draw(_bool) else None, units=cfg)) for _ in range(n)]
    return {'sys': s, 'ops': ops, 'units': cfg, 'hist': hist, 'again': draw(_one_in_4)}


_refuse_kind = st.sampled_from(['sel', 'sel', 'misuse', 'beyond', 'twin', 'twin', 'occupied', 'sametype', 'nonperiodic'])


@st.composite
def refuse_cases(draw):
    kind = draw(_refuse_kind)
    s = draw_system(draw, twins=(kind == 'twin'))
    if kind == 'nonperiodic' and all(s['pbc']):
        s['pbc'] = draw(st.sampled_from(gens.PBCS[:7]))
    op = draw_op(draw, s['props'], refuse=(kind == 'sel'), offf=_offf_out if kind == 'beyond' else _offf_in if kind != 'sel' else None)
    if kind == 'sel' and op['type'] == 'i':
        op['type'] = 's'
    if kind == 'misuse':
        op['misuse'] = draw(_misuse)
    elif kind in ('beyond', 'nonperiodic'):
        op['sel'] = 'pos'
        if op['type'] == 'i':
            op['type'] = 'v'
        if kind == 'nonperiodic':
            ax = [i for i in range(3) if not s['pbc'][i]]
            op['image'] = [0, 0, 0]
            op['image'][ax[op['k'] % len(ax)]] = 1 if op['neg'] else -1
    elif kind == 'twin':
        op['sel'] = 'pos'
        if op['type'] == 'i':
            op['type'] = 'db'
        # aim at the twinned atom (the twin itself is the last atom)
        op['k'] = len(s['rel']) if op['neg'] else s['twins'][0][0]
    elif kind == 'occupied':
        op['type'] = 'i'
        op['inear'] = True
    elif kind == 'sametype':
        op['type'] = 's'
        op['tshift'] = 0
        op['atype_given'] = True
        op['off'][0] = 0.0
    return with_units(draw, {'sys': s, 'ops': [op], 'again': draw(_one_in_4)})


# integer-typed positions: cells and atoms with integral Cartesian coordinates
_even = st.sampled_from([4, 8, 12])
_etilt = st.sampled_from([0, 0, 4, -4])
_iorg = st.integers(-20, 20)
_half = st.sampled_from([1, 2])
_intdt = st.sampled_from([None, None] + g15.INT_ARG_DTS)


@st.composite
def intpos_cases(draw):
    lx, ly, lz = draw(_even), draw(_even), draw(_even)
    cell = {'lx': float(lx), 'ly': float(ly), 'lz': float(lz), 'xy': float(draw(_etilt)), 'xz': float(draw(_etilt)), 'yz': float(draw(_etilt)),
            'origin': [float(draw(_iorg)) for _ in range(3)] if draw(_bool) else [0.0, 0.0, 0.0], 'rot': None, 'lefthanded': False}
    a, b, c = draw(_half), draw(_half), draw(_half)
    rel = [[i / a, j / b, k / c] for i in range(a) for j in range(b) for k in range(c)]
    if draw(_bool) or len(rel) < 2:
        rel += [[(i + 0.5) / a, (j + 0.5) / b, (k + 0.5) / c] for i in range(a) for j in range(b) for k in range(c)]
    n = len(rel)
    rng = np.random.default_rng(draw(_seed))
    s = {'cell': cell, 'pbc': draw(_pbc), 'rel': rel, 'atype': rng.integers(1, 3, size=n).tolist(), 'symbols': ['Aa', 'Bb'],
         'props': [['charge', rand_vals(rng, 'f', [], n)]] if draw(_bool) else [], 'old_id': None, 'twins': []}
    op = draw_op(draw, s['props'], offf=st.just(0.0), posform=_posform_int)
    op['sel'] = 'pos'
    op['posdt'] = draw(_intdt)          # narrow / unsigned / big-endian / bool integer arrays, lists of numpy integer scalars
    op['iface'] = False
    op['irel'] = [draw(st.sampled_from([0.25, 0.75, 1.25, -0.25])) for _ in range(3)]
    if op['scale']:
        op['k'] = 0          # the atom at the cell corner: integral relative coordinates
        if op['type'] == 'i':
            op['irel'] = [float(draw(st.sampled_from([0, 1, 2, -1]))) for _ in range(3)]
            op['inear'] = False
    return {'sys': s, 'ops': [op]}


def oracle_intpos(case):
    labels, nok, nt_site, skewed = _guarded(case)
    if any(l in labels for l in ('pos_intlist', 'pos_intarray')):
        labels.add('int_used')
        if nok:
            labels.add('nt')
    return labels


# ----------------------------------------------------------------------------- enumerated option combinations (class H)
#
# Every defect type touches the same state: the row order, the old_id column, the types / symbols, the property rows of the atom
# moved or made.  The options that reach that state - site by index (either sign) or by position, Cartesian or box-relative,
# default or explicit atol, direct or through point(), explicit new type, explicit old_id, keyword values - are enumerated in
# every combination for one call, and the defect types with their site / scale / extras choices in every ORDER for two and three
# successive calls, on a plain cubic system without old_id and on a triclinic one with origin, old_id and other properties.

def _combo_systems():
    fcc = _BASES['fcc']
    rel_a = [[(p[0] + i) / 2, p[1], p[2]] for i in range(2) for p in fcc]
    sys_a = {'cell': {'lx': 4.0, 'ly': 4.0, 'lz': 4.0, 'xy': 0.0, 'xz': 0.0, 'yz': 0.0, 'origin': [0.0, 0.0, 0.0], 'rot': None, 'lefthanded': False},
             'pbc': [True, True, True], 'rel': rel_a, 'atype': [2, 2, 1, 2, 3, 2, 2, 2], 'symbols': ['Aa', 'Bb', 'Cc'],
             'props': [['charge', [0.5, -1.25, 2.0, 0.125, -3.5, 1.0, 0.75, -0.25]],
                       ['vel', [[0.5 * i, -0.25 * i, 1.0 + i] for i in range(8)]]],
             'old_id': None, 'twins': [], 'sym': None, 'store': None, 'face': []}
    bcc = _BASES['bcc']
    rel_b = [[p[0], (p[1] + j) / 2, (p[2] + k) / 2] for j in range(2) for k in range(2) for p in bcc]
    sys_b = {'cell': {'lx': 4.0, 'ly': 5.0, 'lz': 6.0, 'xy': 1.0, 'xz': -0.5, 'yz': 1.5, 'origin': [10.0, -20.0, 5.5], 'rot': None, 'lefthanded': False},
             'pbc': [True, True, True], 'rel': rel_b, 'atype': [2, 1, 2, 2, 3, 2, 2, 1], 'symbols': ['Aa', 'Bb', 'Cc', 'Dd'],
             'props': [['tag', [3, -5, 17, 0, 44, 8, -1, 21]],
                       ['st', [[[0.5 * i, 1.0], [-0.25, 2.0 - i]] for i in range(8)]]],
             'old_id': [31, 7, 22, 10, 28, 13, 25, 16], 'twins': [], 'sym': None, 'store': None, 'face': []}
    sys_c = dict(sys_b, pbc=[True, False, True], sym={'m': 13, 'p': 4, 's': 3},
                 store={'pos': 'float32', 'atype': 'uint8', 'f': 'float32', 'i': 'int16', 'oid': 'int16', 'layout': 'F', 'lim': True})
    return [sys_a, sys_b, sys_c]


_COMBO_KW = {0: [['charge', 1.5], ['vel', [0.5, -1.0, 2.0]]], 1: [['tag', 9], ['st', [[1.0, 0.5], [-0.5, 2.0]]]], 2: [['tag', 9], ['st', [[1.0, 0.5], [-0.5, 2.0]]]]}
_COMBO_K = [4, 13, 2]           # position in the sequence -> generic atom number (k % 4: in-place edit of the result / caller-side mutation / none)


def _combo_op(isys, t, sel, scale, via, atol, atype_given, oldid, kw, slot, neg=False):
    return {'type': t, 'via': via, 'sel': 'pos' if t == 'i' else sel, 'k': _COMBO_K[slot], 'neg': neg, 'npint': False, 'scale': scale,
            'image': [1, 0, -1] if sel == 'pos' else [0, 0, 0], 'off': [0.3, [1, -1, 1]], 'atol': atol, 'posform': 'array',
            'irel': [0.3 + 0.1 * slot, 0.15, 0.6], 'inear': False, 'tshift': 1, 'atype_given': atype_given,
            'db': [0.125, -0.0625, 0.03125], 'dbform': 'list', 'kw': _COMBO_KW[isys] if kw else [], 'kwlist': False,
            'oldid_kw': (100000 + slot) if oldid else None, 'misuse': None}


def _combo_templates():
    """reduced templates for sequences: (type, site, scale, extras)"""
    out = []
    for t in ('v', 'i', 's', 'db'):
        for sel in (('pos',) if t == 'i' else ('id', 'pos')):
            for scale in (False, True):
                for extras in ((False,) if t == 'v' else (False, True)):
                    out.append((t, sel, scale, extras))
    return out


def combo_cases(tier):
    systems = _combo_systems()
    cases = []
    # one call: the full product of the options
    for isys in (0, 1):
        n = 0
        for t in ('v', 'i', 's', 'db'):
            for sel, neg in ((('pos', False),) if t == 'i' else (('id', False), ('id', True), ('pos', False))):
                for scale in (False, True):
                    for atol in (None, 0.05):
                        for via in ('direct', 'point'):
                            for atype_given in ((False,) if t == 'v' else (False, True)):
                                for oldid in ((False, True) if t in ('i', 'db') else (False,)):
                                    for kw in ((False,) if t == 'v' else (False, True)):
                                        op = _combo_op(isys, t, sel, scale, via, atol, atype_given, oldid, kw, 0, neg)
                                        op['k'] = 4 + n % 8
                                        n += 1
                                        cases.append({'sys': systems[isys], 'ops': [op], 'units': None, 'hist': None, 'combo': 'single'})
    tpl = _combo_templates()

    def seq(isys, ts):
        ops = []
        for slot, (t, sel, scale, extras) in enumerate(ts):
            ops.append(_combo_op(isys, t, sel, scale, 'point' if slot % 2 else 'direct', None, extras, extras, extras, slot, neg=bool(slot % 2)))
        return {'sys': systems[isys], 'ops': ops, 'units': None, 'hist': None, 'combo': {2: 'pair', 3: 'triple'}[len(ts)]}

    for isys in ((0, 1) if tier == 'quick' else (0, 1, 2)):
        for a in tpl:
            for b in tpl:
                cases.append(seq(isys, (a, b)))
    if tier == 'quick':
        # every ordered triple of defect types, all by index / all by position, with and without the extras
        for isys in (0, 1):
            for sel in ('id', 'pos'):
                for extras in (False, True):
                    for a in ('v', 'i', 's', 'db'):
                        for b in ('v', 'i', 's', 'db'):
                            for c in ('v', 'i', 's', 'db'):
                                cases.append(seq(isys, tuple((t, sel, bool(isys), extras and t != 'v') for t in (a, b, c))))
    else:
        for isys in (0, 1):
            for a in tpl:
                for b in tpl:
                    for c in tpl:
                        cases.append(seq(isys, (a, b, c)))
    return cases


def oracle_combos(case):
    labels, nok, nt_site, skewed = _guarded(case)
    labels.add('combo_' + case['combo'])
    if nok == len(case['ops']):
        labels.add('allok')
        labels.add('allok_' + case['combo'])
    if nok >= 2:
        labels.add('composed')
    return labels


CLAUSES = [
    Clause('insert', oracle_insert, insert_cases, quick=14000, thorough=420000,
           min_share={'nt': 0.1, 'image': 0.15, 'scaled': 0.12, 'id_neg': 0.03, 'refuse_nosite': 0.1, 'cross_pos_to_id': 0.08,
                      'cross_id_to_pos': 0.08, 'alias_probe': 0.08, 'kw': 0.1, 'twin': 0.05, 'had_old_id': 0.07, 'mixed_pbc': 0.2,
                      'type_v': 0.1, 'type_i': 0.1, 'type_s': 0.1, 'type_db': 0.08, 'via_point': 0.13,
                      'units': 0.15, 'units_named': 0.07, 'units_seed': 0.05, 'units_len_nm': 0.02, 'units_A_lt1e-3': 0.1,
                      'units_pos_default_atol': 0.09, 'units_datol_off_0.3': 0.015, 'units_datol_off_3': 0.013,
                      'hist_before': 0.049, 'hist_after': 0.02, 'hist_both': 0.02,
                      # generator classes carried over from the seeded rounds (guards at half the observed share)
                      'ledger': 0.26, 'ledger_other': 0.1, 'args_checked': 0.17, 'mut_args': 0.035, 'mut_input': 0.065,
                      'mut_input_setters': 0.028, 'argdt': 0.05, 'iddt': 0.025, 'kw_narrow': 0.045, 'atol_npscalar': 0.06,
                      'store_pos': 0.056, 'store_pos_float32': 0.035, 'store_narrow': 0.069, 'layout_ro': 0.016,
                      'near_atol': 0.015, 'near_atol_in': 0.006, 'near_atol_out': 0.008, 'tiny_off': 0.003, 'tiny_db': 0.012,
                      'nearface': 0.017, 'nearface_image': 0.008, 'sym': 0.1, 'sym_exact': 0.09, 'sym_perm': 0.075, 'sym_diag': 0.025,
                      'sym_lefthanded': 0.055},
           desc='one insertion of any type, site by index or position (within/beyond atol, images, relative), against the model; '
                'about a third under other process-wide working units (reset_units), default atol = 0.01 angstrom physically'),
    Clause('refuse', oracle_insert, refuse_cases, quick=4400, thorough=80000, nontrivial='refusal',
           min_share={'refusal': 0.44, 'refuse_both': 0.037, 'refuse_oor': 0.03, 'refuse_neither': 0.008, 'refuse_notallowed': 0.04,
                      'refuse_occupied': 0.03, 'refuse_sametype': 0.05, 'refuse_nosite': 0.15, 'ambiguous': 0.01,
                      'image_nonperiodic': 0.08, 'units': 0.15, 'units_pos_default_atol': 0.046, 'hist_before': 0.049,
                      'ledger': 0.048, 'args_checked': 0.18, 'argdt': 0.055, 'iddt': 0.03, 'store_pos': 0.056, 'sym': 0.092},
           desc='refusal classes built on purpose: absent / ambiguous / occupied site, same type, both / neither of pos and ptd_id, '
                'index out of range, point() keyword misuse; input untouched'),
    Clause('intpos', oracle_intpos, intpos_cases, quick=2000, thorough=24000,
           min_share={'int_used': 0.3, 'nt': 0.2, 'argdt': 0.26, 'ledger': 0.25, 'args_checked': 0.22},
           desc='positions with integral coordinates given as integer-typed list / array'),
    Clause('history', oracle_history, history_cases, quick=2600, thorough=90000,
           min_share={'composed': 0.15, 'nt': 0.07, 'mixed_types': 0.2, 'units': 0.15, 'units_pos_default_atol': 0.14,
                      'units_datol_off_0.3': 0.039, 'hist_before': 0.049,
                      'ledger': 0.37, 'ledger_other': 0.13, 'mut_args': 0.1, 'mut_input': 0.1, 'argdt': 0.11, 'iddt': 0.045,
                      'store_pos': 0.056, 'sym': 0.096, 'near_atol': 0.019, 'nearface': 0.028},
           desc='1-4 successive insertions; old_id composes to the first system; every intermediate input untouched'),
    Clause('combos', oracle_combos, enumerate=combo_cases, nontrivial='allok',
           min_share={'allok': 0.48, 'allok_single': 0.012, 'allok_pair': 0.027, 'allok_triple': 0.097, 'composed': 0.33, 'ledger': 0.46,
                      'mut_input': 0.12, 'mut_args': 0.12},
           desc='enumerated: every combination of the options of one call (type x site by +index / -index / position x scale x atol x '
                'direct / point() x new type x old_id x keyword values), every ordered pair of (type, site, scale, extras) and every '
                'ordered triple of defect types (thorough: of the templates), on a plain and on a triclinic system with old_id'),
]
