"""C11 - Elastic-constant representations are one tensor; rotation is a tensor rotation."""
import copy
import itertools
import json

import numpy as np
from hypothesis import strategies as st

from ..core import Clause, Violation, HarnessError, require
from .. import gens
from .. import gens_c11 as g
from ..oracles import elastic as el

RULE = ("tensors: generic SPD 6x6 (Q diag(lam) Q^T, lam in [1,500], Q from 15 plane rotations), admissible constant sets "
        "of the seven crystal systems in standard setting (drawn constants shrunk toward isotropy along a fixed ladder "
        "until eig_min >= 2e-3 eig_max; optional C16/C15 zero in about half), isotropic (E in [1,600], 0 <= nu <= 0.495 "
        "incl. exactly 0 and 1e-12..1e-3), and the same expressed in rotated axes; rotations = small-integer axis + angle "
        "in [0,180] deg, symmetry elements, non-unit axes rows; symmetric strains |e| <= 0.05.  Variants of every tensor: "
        "overall magnitude 1e-6..1e6 (log-uniform, unit-conversion factors, exactly 1 in ~1/3), weakly anisotropic "
        "C = Ciso + d (C - Ciso) with 1e-6 <= d <= 1e-2, whole-number constants; every tolerance is relative to max|C|.  "
        "Object histories: the judged object is fresh or (about half) a used one - empty or built from another tensor, "
        "whose representations / transform / moduli / normalisation were read in a drawn order - that is re-defined "
        "through the public setter, crystal-system method or model(); clause history chains 2-5 such re-definitions "
        "(also back to an earlier tensor) with reads in between; returned arrays are scribbled on.  Input forms: ndarray "
        "(C or Fortran order, strided view, read-only, integer dtype), nested list / tuple, Python / numpy floats and "
        "integers for named constants, transform(tol=), is_normal(atol=, rtol=). "
        "Later classes: (ledger) every array / object / data model a call returned is kept with a snapshot and judged again, bit "
        "for bit, after all later calls of the case on the same and on other objects (and once more after the next case of the "
        "process); (caller) every container handed in must be bit-identical after the call, is then overwritten in place by the "
        "caller and used for a new object, objects returned by transform / normalized_as are re-defined by the caller - nothing "
        "judged before may move; (dtypes) arrays stored as float32 / float16 / big-endian floats (the tensor is then the one "
        "the rounded array describes), int8 ... uint64 / big-endian / bool with whole-number constants scaled so that the largest "
        "equals the limit of the dtype, named constants as numpy.float32 / float16 / int32 / int16 scalars (whole numbers), in "
        "every layout, lists of numpy scalars; (units) the physical tensor under reset_units configurations - named units, "
        "integer seed, SI - with an earlier stage in the same process and models read under a third configuration; (near "
        "thresholds) coupling constants of 1e-12 ... 1e-3 C11 (almost a higher symmetry), almost-tetragonal orthorhombic, cubic / "
        "hexagonal within 1e-12 ... 1e-3 of isotropy, rotations that miss a symmetry operation by 1e-10 ... 1e-2 degrees, axes that "
        "miss orthogonality by 1e-13 ... 1e-10; (decades) axes rows of lengths 1e-8 ... 1e8 in one call; (exact structure) the 24 proper signed permutations of the axes as exact integer "
        "matrices and crystal-system tensors with exactly relabelled axes; (combos) enumerated option combinations, see the clause. "
        "Non-trivial: reps - all 36 Voigt entries non-zero (generic SPD / rotated / triclinic); named - the tensor is "
        "anisotropic (changes by > 1e-3 max|C| under a fixed generic rotation); isotropic - nu > 0; rotate - first "
        "rotation has angle > 5 deg and changes the tensor by > 1e-3 max|C| (not a symmetry element; weakly anisotropic "
        "class: by > 1e-6 max|C| = 10x the comparison tolerance); history - the object is re-defined after derived "
        "quantities of its earlier tensor were read; normalize - "
        "normalisation changes the tensor by > 1e-3 max|C|; units - the sequence ran under two configurations in one process or "
        "a model crossed a reset_units; combos - what the judging sampled clause calls non-trivial")
ASSUMPTIONS = ["numpy linear algebra (inv, eigvalsh, einsum) is correct",
               "Voigt pair order 11,22,33,23,13,12 and the 9x9 order 11,22,33,23,13,12,32,31,21 (atomman convention; any "
               "order of the symmetric pairs gives the same stress-strain law, which is checked separately)",
               "standard crystal settings of Nye's table (principal axis along z, monoclinic unique axis y, trigonal 2-fold "
               "along x) as listed in the ElasticConstants docstrings",
               "scalar constants may be Python floats or numpy.float64 (atomman itself passes numpy.float64 in normalized_as); "
               "whole-number constants may be Python int or numpy.int64 (|value| <= 1e6, so that squares stay in range)",
               "an array returned by a getter belongs to the caller: writing to it either leaves the object alone (copy "
               "semantics, what atomman does) or changes the whole object consistently - both are accepted",
               "narrow numpy scalars for named constants: whole numbers up to a quarter of the type's range (the constructors compute "
               "2 C66 + C12, (C11 - C12)/2, -C14 in the caller's type); unsigned scalars and narrow scalars in the isotropic pair "
               "formulas are outside the documented 'float'",
               "numericalunits attributes (nu.kg, nu.m, nu.s, nu.eV, nu.angstrom, nu.J, nu.N, nu.mJ) and the way "
               "unitconvert.reset_units sets them are correct (C09's subject): my size of a pressure unit is a product of them",
               "axes may miss orthogonality by up to 1e-10 (axes_check documents its tolerance, 1e-8)",
               "Cij/transform zero entries below 1e-9/1e-8 of the maximum (documented floors): no comparison is tighter "
               "than 1e-8 max|C|, and compliance-derived numbers get the floor amplified by cond when an entry lies in "
               "the floor band"]
LEVEL_TEXT = ("Generated-input exploration of ElasticConstants over generic SPD tensors, all seven crystal systems in every "
              "documented keyword form, all 15 isotropic modulus pairs, proper rotations (generic, symmetry elements, "
              "non-unit axes) and symmetric strains, at magnitudes 1e-6..1e6 and down to 1e-6 relative anisotropy, on fresh "
              "and on used / re-defined objects and in every array-like input form and storage dtype, under other working-unit "
              "configurations, near symmetry thresholds and for exactly relabelled axes, with every returned value re-judged after "
              "later calls and every input overwritten by the caller afterwards, against independent Voigt/tensor algebra; "
              "definition-route / read / option combinations enumerated.")
TECHNIQUE = ("object histories, input forms and dtypes, result ledger, caller-side mutation, working-unit plans, enumerated option "
             "combinations, judged by: "
             "independent Voigt/9x9/4-index maps and compliance weights, stress-strain law through every representation, "
             "own tensor rotation + Bond matrix, group-action laws, strain-energy and VRH invariance, placement tables "
             "and symmetry generators per crystal system, forward isotropic formulas for all 15 pairs")
WALL = {'quick': 70, 'thorough': 600}

EPS = el.EPS
REPS = ('Cij', 'Sij', 'Cij9', 'Cijkl', 'Sijkl')
GENERIC_R = el.rotation_matrix((2, -3, 5), 67.3)


def _key(what):
    return 'C11:' + what


def _arg(x, aslist):
    """fresh copy (the Cij setter zeroes small entries of the caller's array in place), list or ndarray"""
    x = np.array(x, dtype=float)
    return x.tolist() if aslist else x


def _floor_hit(C, rel):
    a = np.abs(np.asarray(C, dtype=float))
    return bool(np.any((a > 0) & (a < rel * a.max())))


def _get(ec, name, shape):
    v = getattr(ec, name)
    require(isinstance(v, np.ndarray) and v.shape == shape and bool(np.all(np.isfinite(v))),
            lambda: '%s is not a finite %r array: %r' % (name, shape, v))
    if _CTX is not None:
        _CTX.keep(v, name, ec)
    return v


def _cij(ec):
    return _get(ec, 'Cij', (6, 6))


def _close(got, exp, tol, what):
    err = float(np.abs(np.asarray(got, dtype=float) - np.asarray(exp, dtype=float)).max())
    require(err <= tol, lambda: '%s: differs by %.3g (tol %.3g)\nexpected\n%r\ngot\n%r' % (what, err, tol, np.asarray(exp), np.asarray(got)))


# ----------------------------------------------------------------------------- result ledger, caller-side operations
# Everything a judged call hands OUT (arrays of the getters, ElasticConstants objects returned by transform /
# normalized_as, data models) is entered in the ledger of the case with a snapshot taken at return time (and judged by the
# oracles then); every container handed IN (arrays in any layout / dtype, nested lists, data models) with a snapshot taken
# before the call.  At the end of the case - after all the later calls on the same and on other objects - the results must
# still be what they were, bit for bit, and the inputs must be what the caller handed in.  Then (key 'caller') the caller
# does what callers do with their own data: overwrites the arrays / lists / models it handed in (in place), builds a
# new object from the overwritten container, re-defines the objects it was handed; the objects judged before, and the
# arrays they returned, must not move.  (The arrays returned by the getters are the exception stated in ASSUMPTIONS:
# writing to them is judged by `scribble` under copy-or-live-handle semantics.)

_CTX = None
_PREV = []           # the arrays handed out in the previous case of this process: judged once more after the next case ran


def _bits(a):
    return (a.dtype.str, a.shape, a.tobytes())


def _snap_input(x):
    if isinstance(x, np.ndarray):
        return ('a',) + _bits(x) + (bool(x.flags.writeable), x.strides)
    if hasattr(x, 'json') and hasattr(x, 'find'):
        return ('m', x.json())
    return ('o', copy.deepcopy(x))


def _show_snap(snap):
    if snap[0] == 'a':
        return '%s array, writeable=%r, strides=%r\n%r\n' % (snap[1], snap[4], snap[5], np.frombuffer(snap[3], dtype=snap[1]).reshape(snap[2]))
    return repr(snap[1])[:1500]


def _same_input(x, snap):
    if snap[0] == 'a':
        return ('a',) + _bits(x) + (bool(x.flags.writeable), x.strides) == snap
    if snap[0] == 'm':
        return x.json() == snap[1]
    return _eq_nested(x, snap[1])


def _eq_nested(a, b):
    if isinstance(a, (list, tuple)):
        return type(a) is type(b) and len(a) == len(b) and all(_eq_nested(x, y) for x, y in zip(a, b))
    if isinstance(a, dict):
        return isinstance(b, dict) and list(a) == list(b) and all(_eq_nested(a[k], b[k]) for k in a)
    return type(a) is type(b) and (a == b or (a != a and b != b))


def _rep_to_cij(route, x):
    """my own reading of a representation: the Voigt stiffness it describes"""
    x = np.array(x, dtype=float)
    if route == 'Cij':
        return x
    if route == 'Cij9':
        return x[:6, :6]
    if route == 'Cijkl':
        return el.tensor_to_voigt(x)
    if route == 'Sij':
        return np.linalg.inv(x)
    return np.linalg.inv(el.compliance_tensor_to_voigt(x))


def _double_nested(x):
    with np.errstate(all='ignore'):
        for i, v in enumerate(x):
            if isinstance(v, list):
                _double_nested(v)
            else:
                x[i] = v * 2
    return x


class _Ctx:
    def __init__(self, case):
        self.caller = bool(case.get('caller'))
        self.results = []        # [array, snapshot, where, id(owner), name]
        self.inputs = []         # [container, snapshot, where, route]
        self.objects = {}        # id(object) -> [object, snapshot of its Cij, what]
        self.outs = []           # objects handed out by transform / normalized_as (documented: a new object)
        self.models = []         # [model handed out, json snapshot, where]
        self.owners = set()
        self.deferred = None     # a listed finding met on the way (raised when the case is done)

    # -- entering
    def keep(self, v, name, owner):
        if isinstance(v, np.ndarray):
            self.results.append([v, v.copy(), name, id(owner), name])
            self.owners.add(id(owner))
        return v

    def resnap(self, v):
        for r in self.results:
            if r[0] is v:
                r[1] = v.copy()

    def track(self, ec, what, out=False):
        if out and id(ec) in self.objects:
            raise Violation('%s is an object the caller already holds (%s); transform / normalized_as document "a new '
                            'ElasticConstants object"' % (what, self.objects[id(ec)][2]))
        self.objects[id(ec)] = [ec, np.array(ec.Cij), what]
        if out and not any(o is ec for o in self.outs):
            self.outs.append(ec)
        return ec

    def handed_in(self, x, where, route=None):
        if isinstance(x, (np.ndarray, list, tuple, dict)) or hasattr(x, 'json'):
            if not any(r[0] is x for r in self.inputs):
                self.inputs.append([x, _snap_input(x), where, route])
        return x

    def model_out(self, m, where):
        self.models.append([m, m.json(), where])
        return m

    # -- judging
    def inputs_unchanged(self):
        for x, snap, where, _ in self.inputs:
            require(_same_input(x, snap), lambda: 'the %s handed in as %s was changed by the call: before %s, now %s'
                    % (type(x).__name__, where, _show_snap(snap), _show_snap(_snap_input(x))))

    def verify(self, when):
        for v, snap, where, _, _ in self.results:
            require(_bits(v) == _bits(snap), lambda: 'the array returned by %s earlier in the case is not what it was at return time '
                    '(%s):\nthen\n%r\nnow\n%r' % (where, when, snap, v))
        for ec, snap, what in self.objects.values():
            cur = np.asarray(ec.Cij)
            require(cur.shape == snap.shape and _bits(cur) == _bits(snap), lambda: 'Cij of %s is not what it was when the object was judged '
                    '(%s):\nthen\n%r\nnow\n%r' % (what, when, snap, cur))
        for m, snap, where in self.models:
            require(m.json() == snap, lambda: 'the data model returned by %s changed (%s)' % (where, when))

    def sharing(self):
        res = self.results
        for i in range(len(res)):
            a = res[i]
            for j in range(i + 1, len(res)):
                b = res[j]
                if a[0] is not b[0] and (a[3], a[4]) != (b[3], b[4]) and np.may_share_memory(a[0], b[0]):
                    raise Violation('two arrays handed out by different calls share memory: %s / %s' % (a[2], b[2]))
            for x, _, where, _ in self.inputs:
                if isinstance(x, np.ndarray) and x is not a[0] and np.may_share_memory(a[0], x):
                    raise Violation('the array returned by %s shares memory with the array handed in as %s' % (a[2], where))

    def finish(self, labels):
        self.verify('after the later calls of the case')
        self.inputs_unchanged()
        self.sharing()
        if len(self.owners) >= 2:
            labels.add('ledger')
        if not self.caller:
            return
        import atomman as am
        labels.add('caller')
        reuse = []
        for rec in self.inputs:
            x, _, where, route = rec
            if isinstance(x, np.ndarray) and x.flags.writeable and x.dtype.kind in 'fiu' and x.size:
                with np.errstate(all='ignore'):
                    if x.dtype.kind == 'f':
                        big = float(np.abs(x.astype(float)).max())
                        up = big * 2 < float(np.finfo(x.dtype).max) / 4
                        x *= (2 if up else 0.5)
                    elif int(np.abs(x.astype(object)).max()) * 2 <= int(np.iinfo(x.dtype).max):
                        x *= 2
                    else:
                        x //= 2
                self.resnap(x)
                labels.add('caller_overwrote')
            elif isinstance(x, list) and x and isinstance(x[0], list):
                _double_nested(x)
                labels.add('caller_overwrote')
            elif hasattr(x, 'json') and route == 'model' and 'Cij' in x.find('elastic-constants'):
                term = x.find('elastic-constants')['Cij']
                term['value'] = [v * 2 for v in term['value']]
                for m in self.models:
                    if m[0] is x:
                        m[1] = x.json()
                labels.add('caller_overwrote')
            else:
                continue
            rec[1] = _snap_input(x)
            if route in REPS and not any(r[0] is x for r in self.results):
                reuse.append((route, x, where))
        for ec in self.outs:
            # an object handed out is the caller's: re-defined through its public setter
            ec.Cij = np.diag([3.0, 2.0, 5.0, 1.0, 1.5, 0.5])
            self.objects[id(ec)][1] = np.array(ec.Cij)
            labels.add('caller_redefined_out')
        for m in self.models:
            term = m[0].find('elastic-constants')['Cij']
            term['value'] = [0.0 for _ in term['value']]
            m[1] = m[0].json()
            for rec in self.inputs:
                if rec[0] is m[0]:
                    rec[1] = _snap_input(rec[0])
        self.verify('after the caller overwrote what it had handed in and re-defined what it was handed')
        for route, x, where in reuse[:2]:
            exp = _rep_to_cij(route, x)
            if not bool(np.all(np.isfinite(exp))) or float(exp.max()) <= 0 or float(np.linalg.cond(exp)) > 1e6:
                continue
            ec = _define(None, route, x, 'object built from the container handed in as %s after the caller overwrote it' % where)
            _close(ec.Cij, exp, 1e-8 * float(np.abs(exp).max()), 'object built from the container handed in as %s after the caller '
                   'overwrote it in place: Cij against my own reading of its content' % where)
            labels.add('caller_reused')
        if reuse:
            self.verify('after the overwritten containers were used for new objects')
        self.inputs_unchanged()


def _ledgered(fn):
    """the oracle under a ledger; the arrays of the previous case are judged once more first (a result must not depend on
    what the process computes afterwards - such a failure needs the earlier case and will not replay alone)"""
    def oracle(case):
        global _CTX
        _CTX = _Ctx(case)
        try:
            labels = set(fn(case))
            _CTX.finish(labels)
            if _CTX.deferred is not None:
                raise _CTX.deferred
            prev = list(_PREV)
            _PREV[:] = [(r[0], r[1], r[2]) for r in _CTX.results[-12:]]
            for v, snap, where in prev:
                require(_bits(v) == _bits(snap), lambda: 'an array returned by %s in the PREVIOUS case of this process changed while this case '
                        'ran (needs that history: will not show when this case is replayed alone):\nthen\n%r\nnow\n%r' % (where, snap, v))
            return labels
        finally:
            _CTX = None
    oracle.__name__ = fn.__name__
    oracle.__doc__ = fn.__doc__
    return oracle


def _track(ec, what, out=False):
    if _CTX is not None:
        _CTX.track(ec, what, out)
    return ec


KEY_THR = _key('transform:entry-at-zeroing-threshold')


def _at_threshold(C, tol=1e-8, width=1e-5):
    """some entry of the (expected) result lies within rounding of transform's relative zeroing threshold"""
    a = np.abs(np.asarray(C, dtype=float))
    a = a / a.max()
    return bool(np.any(np.abs(a - tol) <= width * tol))


def _transform(ec, axes, expected, what):
    """ec.transform(axes); the empty AssertionError of the Cijkl setter is the listed finding when an entry of the
    expected result sits on the zeroing threshold (symmetry-equivalent entries are zeroed independently)"""
    if _CTX is not None:
        _CTX.handed_in(axes, 'the axes of ' + what)
    try:
        tr = ec.transform(axes)
        if _CTX is not None:
            _CTX.inputs_unchanged()
        return _track(tr, 'the object returned by ' + what, out=True)
    except AssertionError as e:
        if str(e) == '' and _at_threshold(expected):
            raise Violation('%s raised AssertionError() from the Cijkl setter: an entry of the rotated tensor equals '
                            'tol*max within rounding, so only some of its symmetry-equivalent copies are zeroed' % what,
                            key=KEY_THR)
        raise


def mine_of(C6):
    S6 = el.compliance_voigt(C6)
    return {'Cij': C6, 'Sij': S6, 'Cij9': el.voigt_to_9(C6), 'Cijkl': el.voigt_to_tensor(C6),
            'Sijkl': el.compliance_voigt_to_tensor(S6)}


SHAPES = {'Cij': (6, 6), 'Sij': (6, 6), 'Cij9': (9, 9), 'Cijkl': (3, 3, 3, 3), 'Sijkl': (3, 3, 3, 3)}


PERMS5 = tuple(itertools.permutations(range(5)))


def _reread(ec, mine, cmax, tolC, tolS, scribbled, what):
    """second look at every representation (reverse order) after the arrays returned by the first look were possibly
    written to.  Copy semantics (what atomman does: nothing changes) and live-handle semantics (the whole object follows
    the factor 2 consistently) are both accepted; representations that disagree with each other are not."""
    k = 1.0
    if scribbled is not None:
        cur = _get(ec, 'Cij', (6, 6))
        alt = 2.0 if scribbled[0] == 'C' else 0.5
        if float(np.abs(cur - mine['Cij']).max()) > tolC and float(np.abs(cur - alt * mine['Cij']).max()) <= alt * tolC:
            k = alt
    for n in reversed(REPS):
        exp, tol = (mine[n] * k, tolC * k) if n[0] == 'C' else (mine[n] / k, tolS / k)
        _close(_get(ec, n, SHAPES[n]), exp, tol,
               '%s: %s read again%s' % (what, n, '' if scribbled is None else ' after writing to the array returned by ' + scribbled))
    return k


def check_reps(ec, mine, cond, floor, eps_t, what, order=0, scribble=None):
    """every representation read from ec (in the drawn order) equals my own map of the intended tensor; symmetries;
    C:S = I; one law; reads are repeatable, also after the caller wrote to a returned array"""
    cmax, smax = np.abs(mine['Cij']).max(), np.abs(mine['Sij']).max()
    tolC = 1e-8 * cmax
    tolS = ((4e-8 if floor else 0.0) * cond + 1e-11 * cond) * smax
    got = {}
    for i in PERMS5[order % 120]:
        got[REPS[i]] = _get(ec, REPS[i], SHAPES[REPS[i]])
    for n in REPS:
        _close(got[n], mine[n], tolS if n[0] == 'S' else tolC, '%s: %s against my own map' % (what, n))
    d = el.symmetry_defect(got['Cijkl'])
    require(d <= 1e-8 * cmax, lambda: '%s: Cijkl lacks a minor/major symmetry by %.3g' % (what, d))
    d = el.symmetry_defect(got['Sijkl'])
    require(d <= 1e-8 * smax + tolS, lambda: '%s: Sijkl lacks a minor/major symmetry by %.3g' % (what, d))
    ident = np.einsum('ijkl,klmn->ijmn', got['Cijkl'], got['Sijkl'])
    _close(ident, el.sym_identity(), 1e-10 * cond + 1e-12, '%s: Cijkl:Sklmn against the symmetric identity' % what)
    # one linear law through every representation
    e6, emax = el.strain_vector(eps_t), max(float(np.abs(eps_t).max()), 1e-300)
    e1 = float(np.abs(e6).sum())
    sig4 = np.einsum('ijkl,kl->ij', got['Cijkl'], eps_t)
    sig6 = got['Cij'] @ e6
    _close(el.stress_vector(sig4), sig6, 1e-12 * cmax * e1, '%s: stress from Cijkl vs stress from Cij' % what)
    _close(sig6, mine['Cij'] @ e6, 1e-8 * cmax * e1, '%s: stress from Cij vs my own C6.e6' % what)
    _close(got['Cij9'] @ el.nine_vector(eps_t), el.nine_vector(sig4), 1e-12 * cmax * e1,
           '%s: stress from Cij9 (9-vector strain) vs stress from Cijkl' % what)
    require(float(np.abs(sig4 - sig4.T).max()) <= 1e-12 * cmax * e1, '%s: stress from Cijkl not symmetric' % what)
    back4 = np.einsum('ijkl,kl->ij', got['Sijkl'], sig4)
    _close(back4, eps_t, 1e-10 * cond * emax + 1e-300, '%s: Sijkl:(Cijkl:eps) against eps' % what)
    back6 = got['Sij'] @ sig6
    _close(back6, e6, 1e-10 * cond * emax + 1e-300, '%s: Sij.(Cij.e6) against e6' % what)
    # the same object looked at a second time
    if scribble is not None:
        got[scribble] *= 2.0
        if _CTX is not None:
            _CTX.resnap(got[scribble])
    k = _reread(ec, mine, cmax, tolC, tolS, scribble, what)
    if k != 1.0:
        _track(ec, what)                  # live-handle semantics: the object follows what the caller wrote
    return k


# ----------------------------------------------------------------------------- input forms, object histories

KEY_RO = _key('Cij-setter:read-only-input')
KEY_SYM = _key('Cijkl-Sijkl-setter:symmetry-atol-in-working-units')


def _symmetrised4(a, route):
    """the 4-index array with exactly equal symmetry-related entries (through a symmetrised 6x6 and my placement maps)"""
    if route == 'Cijkl':
        v = el.tensor_to_voigt(a)
        return el.voigt_to_tensor((v + v.T) / 2)
    v = el.compliance_tensor_to_voigt(a)
    return el.compliance_voigt_to_tensor((v + v.T) / 2)


def _sym_noise_only(arg):
    """a 4-index array whose minor / major symmetries hold to rounding (1e-12 of the largest entry) but not to 1e-8 in
    absolute terms: large numbers"""
    a = np.array(arg, dtype=float)
    if a.shape != (3, 3, 3, 3):
        return False
    d = el.symmetry_defect(a)
    return bool(5e-9 < d <= 1e-12 * float(np.abs(a).max()))
IN_FORMS = ('array', 'array', 'list', 'list', 'tuple', 'forder', 'strided', 'readonly', 'int', 'intlist')
_inform = st.sampled_from(IN_FORMS)
NUMS = ('npfloat', 'float', 'int', 'npint', 'float', 'npfloat')
_num = st.sampled_from(NUMS)


def _tuples(x):
    return tuple(_tuples(v) for v in x) if isinstance(x, list) else x


# storage dtypes other than float64 / int64 (key 'dt' of a case): an orthogonal axis to the layout forms above
DTYPES = {'f32': '<f4', 'f16': '<f2', 'bf8': '>f8', 'bf4': '>f4', 'i8': 'int8', 'i16': 'int16', 'i32': 'int32', 'u8': 'uint8',
          'u16': 'uint16', 'u32': 'uint32', 'u64': 'uint64', 'bi2': '>i2', 'bi4': '>i4', 'bi8': '>i8', 'bool': 'bool'}
FLOAT_NARROW = ('f32', 'f16', 'bf8', 'bf4')
# largest constant of a tensor fitted to an integer dtype = the limit of the dtype (64 bit: the largest power of two, all
# numbers of a case are Python floats)
INT_LIMIT = {'i8': 127, 'i16': 32767, 'i32': 2 ** 31 - 1, 'u8': 255, 'u16': 65535, 'u32': 2 ** 32 - 1, 'u64': 2 ** 63,
             'bi2': 32767, 'bi4': 2 ** 31 - 1, 'bi8': 2 ** 62, 'bool': 1}
# (weights by repetition inside ONE sampled_from: one_of() merges equal branches)
_dt = st.sampled_from((None,) * 30 + ('f32', 'f32', 'f32', 'f32', 'f16', 'f16', 'f16', 'bf8', 'bf4', 'bf4')
                      + ('i8', 'i16', 'i32', 'u8', 'u16', 'u32', 'u64', 'bi2', 'bi4', 'bi8', 'bool'))
C_ROUTES = ('Cij', 'Cij9', 'Cijkl')
IDENTITY_T = {'kind': 'named', 'system': 'cubic', 'C': {'C11': 1.0, 'C12': 0.0, 'C44': 1.0}, 'whole': True, 'fit': 'bool'}


def _fit(T, dt, route):
    """(strategy side) a tensor whose C-type representation can be stored in the integer dtype dt: whole-number constants
    proportional to T's with the largest equal to the limit of the dtype; T itself when dt is no integer dtype, the route
    hands in no stiffness array, or the rounded set is not admissible"""
    if dt not in INT_LIMIT or route not in C_ROUTES:
        return T
    if dt == 'bool':
        return IDENTITY_T
    F = g.fitted_whole(T, INT_LIMIT[dt], nonneg=dt[0] == 'u')
    if F is None:
        return T
    F['fit'] = dt
    return F


def _cast(a, dt):
    """the float64 array a stored in dtype dt, or None when that does not hold every number exactly"""
    if dt is None:
        return None
    t = np.dtype(DTYPES[dt])
    if not bool(np.all(np.isfinite(a))):
        return None
    if t.kind in 'iub':
        lo, hi = (0, 1) if t.kind == 'b' else (int(np.iinfo(t).min), int(np.iinfo(t).max))
        if not bool(np.all(a == np.round(a))) or float(a.min()) < lo or float(a.max()) > hi:
            return None
        if t.kind != 'b' and hi > 2 ** 53 and float(a.max()) >= float(hi):
            return None
    with np.errstate(all='ignore'):
        b = a.astype(t)
        back = b.astype(np.float64)
    return b if np.array_equal(back, a) else None


def _scalars(b):
    """nested list of numpy scalars of the array's dtype"""
    return [_scalars(x) for x in b] if b.ndim > 1 else list(b)


def _quantise(C6, route, dt):
    """the tensor that the route's representation of C6 describes after it was rounded to the float dtype dt (so that the
    array handed in holds exactly representable values); C6 itself when the rounded tensor is not a good stiffness any more
    (float16: range 6e-5 .. 6e4, 11 bits) - then the dtype falls back to float32 / is not used"""
    t = np.dtype(DTYPES[dt])
    tiny = float(np.finfo(t).tiny)
    with np.errstate(all='ignore'):
        if route in C_ROUTES:
            q = C6.astype(t).astype(np.float64)
        else:
            S = np.linalg.inv(C6)
            S = (S + S.T) / 2
            Sq = (S / 4).astype(t).astype(np.float64) * 4           # the smallest numbers handed in are S/4 (Sijkl)
            if not bool(np.all(np.isfinite(Sq))) or bool(np.any((Sq != 0) & (np.abs(Sq) / 4 < tiny))) or abs(np.linalg.det(Sq)) == 0:
                return None
            q = np.linalg.inv(Sq)
            q = (q + q.T) / 2
    if not bool(np.all(np.isfinite(q))) or bool(np.any((q != 0) & (np.abs(q) < tiny))):
        return None
    w = np.linalg.eigvalsh(q)
    if not w[0] >= 1e-3 * w[-1]:
        return None
    return q


def _prepare(T, route, dt):
    """(C6, mine, dt used): my Voigt matrix of the case and my five representations of it; for a float storage dtype the
    tensor is the one that the handed-in representation describes after rounding to that dtype"""
    C6 = g.cij(T)
    if dt in FLOAT_NARROW and route in REPS:
        for d in ((dt, 'f32') if dt == 'f16' else (dt,)):
            q = _quantise(C6, route, d)
            if q is not None:
                mine = mine_of(q)
                if route in ('Sij', 'Sijkl'):
                    with np.errstate(all='ignore'):
                        S = np.linalg.inv(C6)
                        S = (S + S.T) / 2
                        Sq = (S / 4).astype(np.dtype(DTYPES[d])).astype(np.float64) * 4
                    mine['Sij'], mine['Sijkl'] = Sq, el.compliance_voigt_to_tensor(Sq)
                return q, mine, d
        return C6, mine_of(C6), None
    return C6, mine_of(C6), dt


def _form(x, form, dt=None, labels=None, prefix='in_'):
    """(fresh object holding the numbers x in one of the array-like forms, name of the form used).  The integer forms
    need whole numbers (below 2**53) and fall back to array / list otherwise.  dt: the storage dtype (DTYPES) - used when
    it holds every number exactly (then the label <prefix>dt_<dt> is set), for the list forms as numpy scalars."""
    a = np.array(x, dtype=float)
    b = _cast(a, dt)
    if b is not None:
        if labels is not None:
            labels.update({prefix + 'dt_' + dt, prefix + 'dt', prefix + ('dt_float' if dt in FLOAT_NARROW else 'dt_int')})
        if form in ('int', 'array'):
            return b, 'array'
        if form in ('intlist', 'list'):
            return _scalars(b), 'list' 
        if form == 'tuple':
            return _tuples(_scalars(b)), form
        if form == 'forder':
            return np.asfortranarray(b), form
        if form == 'strided':
            big = np.zeros(tuple(2 * n for n in b.shape), dtype=b.dtype)
            view = big[tuple(slice(None, None, 2) for _ in b.shape)]
            view[...] = b
            return view, form
        if form == 'readonly':
            b.setflags(write=False)
            return b, form
        return b, 'array'
    if form in ('int', 'intlist'):
        if bool(np.all(a == np.round(a))) and float(np.abs(a).max()) < 2.0 ** 53:
            a = a.astype(np.int64)
            return (a, 'int') if form == 'int' else (a.tolist(), 'intlist')
        form = 'array' if form == 'int' else 'list'
    if form == 'list':
        return a.tolist(), form
    if form == 'tuple':
        return _tuples(a.tolist()), form
    if form == 'forder':
        return np.asfortranarray(a), form
    if form == 'strided':
        big = np.full(tuple(2 * n for n in a.shape), np.nan)
        view = big[tuple(slice(None, None, 2) for _ in a.shape)]
        view[...] = a
        return view, form
    if form == 'readonly':
        a.setflags(write=False)
        return a, form
    return a, 'array'


# numpy scalars of other types for named constants.  The docstrings say "float"; numpy.float64 and whole numbers as int
# are what callers also pass (ASSUMPTIONS).  Narrower numpy scalars compute IN THEIR OWN TYPE inside the constructors
# (2*C66 + C12, (C11 - C12)/2, -C14): the result is exact as long as those stay representable, so the values are whole
# numbers up to a quarter of the type's range (float32: 2**22, float16: 500).  Kept out, as outside the documented "float":
# unsigned scalars (-C14 of a numpy.uint16 wraps around) and the isotropic pair formulas (products of moduli: float32
# arithmetic there is float32-accurate, which is all a caller of float32 numbers can ask for).
NUM_NARROW = {'npf32': (np.float32, 2 ** 22), 'npf16': (np.float16, 500), 'npi32': (np.int32, 2 ** 29), 'npi16': (np.int16, 8000)}
_num2 = st.sampled_from(('npfloat', 'float', 'int', 'npint', 'float', 'npfloat') * 2 + tuple(NUM_NARROW))


def _fit_num(T, num):
    """(strategy side) whole-number constants within the range of the narrow scalar type"""
    if num not in NUM_NARROW or T['kind'] != 'named' or T['system'] == 'isotropic':
        return T
    F = g.fitted_whole(T, NUM_NARROW[num][1])
    if F is None:
        return T
    F['fit'] = num
    return F


def _number(v, num):
    """a named constant as Python float / numpy.float64 / (whole numbers up to 1e6 only) Python int / numpy.int64 /
    (NUM_NARROW) numpy.float32, float16, int32, int16"""
    v = float(v)
    if num in NUM_NARROW:
        t, lim = NUM_NARROW[num]
        if abs(v) <= lim and (v.is_integer() or (t in (np.float32, np.float16) and (2 * v).is_integer())):
            return t(v), num
        num = 'float'
    if num in ('int', 'npint'):
        if v.is_integer() and abs(v) <= 1e6:
            return (int(v), 'int') if num == 'int' else (np.int64(v), 'npint')
        num = 'float' if num == 'int' else 'npfloat'
    return (np.float64(v), 'npfloat') if num == 'npfloat' else (v, 'float')


def _numbers(kw, num, labels):
    out = {}
    for n, v in kw.items():
        out[n], used = _number(v, num)
        labels.add('num_' + used)
        if used in NUM_NARROW:
            labels.add('num_narrow')
    return out


def _info(C6, mine):
    w = np.linalg.eigvalsh(C6)
    cond = float(w[-1] / w[0])
    floor = _floor_hit(C6, 2e-9)
    cmax, smax = float(np.abs(C6).max()), float(np.abs(mine['Sij']).max())
    return {'cond': cond, 'floor': floor, 'cmax': cmax, 'smax': smax, 'tolC': 1e-8 * cmax,
            'tolS': ((4e-8 if floor else 0.0) * cond + 1e-11 * cond) * smax}


def _payload(T, C6, mine, route, form, formidx, num, labels, dt=None):
    """(route, argument) defining the tensor of case T: one of the five arrays in the drawn input form, the named
    constants of its crystal system (the 21 triclinic ones for a generic tensor), or a data model"""
    if route in REPS:
        if T.get('whole') and form in ('array', 'list'):
            form = 'int' if form == 'array' else 'intlist'      # whole-number tensors: integer-typed ndarray / list of ints
        arg, used = _form(mine[route], form, dt, labels)
        labels.add('in_' + used)
        return route, arg
    if route == 'model':
        import atomman as am
        return route, am.ElasticConstants(Cij=np.array(C6)).model()
    if T['kind'] == 'named':
        forms = g.FORMS[T['system']]
        return T['system'], _numbers(g.kwargs_of(T, forms[formidx % len(forms)]), num, labels)
    return 'triclinic', _numbers(g.constants(T), num, labels)


def _define(ec, route, arg, what):
    """(re-)define an object: ec None -> the constructor; else the public setter / crystal-system method / model().
    The Cij setter writes into the array it is given (zeroing of small terms): a read-only array is the listed finding."""
    import atomman as am
    if _CTX is not None:
        _CTX.handed_in(arg, '%s of %s' % (route if route in REPS or route == 'model' else 'keywords', what), route)
    try:
        if route in REPS:
            if ec is None:
                ec = am.ElasticConstants(**{route: arg})
            else:
                setattr(ec, route, arg)
        elif route == 'model':
            if ec is None:
                ec = am.ElasticConstants(model=arg)
            else:
                ec.model(model=arg)
        else:
            if ec is None:
                ec = am.ElasticConstants(**arg)           # system chosen by the number of keywords
            else:
                getattr(ec, route)(**arg)
        if _CTX is not None:
            _CTX.inputs_unchanged()
        return _track(ec, what)
    except AssertionError as e:
        if route in ('Cijkl', 'Sijkl') and str(e) == '' and _sym_noise_only(arg):
            a = np.array(arg, dtype=float)
            v = Violation('%s: %s raised AssertionError() from its symmetry check for an array that has the minor and major symmetries '
                          'to rounding (defect %.3g, largest entry %.3g): the check uses numpy.isclose with its default absolute '
                          'tolerance 1e-8 - a number in working units - so terms that vanish by symmetry and hold rounding noise '
                          'above 1e-8 are refused when the numbers are large' % (what, route, el.symmetry_defect(a), float(np.abs(a).max())),
                          key=KEY_SYM)
            if _CTX is None:
                raise v
            # the finding is reported at the end of the case; the search goes on with the exactly symmetrised array
            _CTX.deferred = _CTX.deferred or v
            return _define(ec, route, _symmetrised4(a, route), what)
        raise
    except ValueError as e:
        if route in ('Cij', 'Cij9') and isinstance(arg, np.ndarray) and not arg.flags.writeable and 'read-only' in str(e):
            raise Violation('%s: %s given as a read-only float64 array raised ValueError(%s): the Cij setter zeroes small '
                            'terms in the caller\'s array instead of a copy' % (what, route, e), key=KEY_RO)
        raise


TOUCHES = ('Cij', 'Sij', 'Cij9', 'Cijkl', 'Cijkl', 'Sijkl', 'transform', 'transform', 'transform_I', 'bulk', 'shear',
           'normalized', 'is_normal', 'str', 'model')
_touches = st.lists(st.sampled_from(TOUCHES), min_size=0, max_size=4)
EMPTY_OK = ('Cij', 'Cij9', 'Cijkl', 'str')


def _touch(ec, t, C6, mine, info, what):
    """one look at a derived quantity of an object holding the tensor C6, judged like everywhere else"""
    if t in SHAPES:
        _close(_get(ec, t, SHAPES[t]), mine[t], info['tolS'] if t[0] == 'S' else info['tolC'], '%s: %s against my own map' % (what, t))
    elif t in ('transform', 'transform_I'):
        R = GENERIC_R if t == 'transform' else np.eye(3)
        exp = el.rotate_voigt(C6, R)
        tr = _transform(ec, np.array(R), exp, '%s: transform' % what)
        _close(_get(tr, 'Cij', (6, 6)), exp, 1e-7 * max(info['cmax'], float(np.abs(exp).max())), '%s: %s against my own rotation' % (what, t))
    elif t in ('bulk', 'shear'):
        ref = el.vrh(C6)
        cond = info['cond']
        tol = (1e-11 * cond + (6e-7 * cond * cond if info['floor'] else 0.0) + 1e-7) * info['cmax']
        for style in ('Voigt', 'Reuss', 'Hill'):
            v = float(getattr(ec, t)(style))
            require(abs(v - ref[(t, style)]) <= tol, lambda: '%s: %s(%s) = %.12g, my own = %.12g' % (what, t, style, v, ref[(t, style)]))
    elif t == 'normalized':
        ec.normalized_as('cubic')
    elif t == 'is_normal':
        ec.is_normal('hexagonal')
    elif t == 'str':
        str(ec)
    elif t == 'model':
        m = ec.model()
        if _CTX is not None:
            _CTX.model_out(m, 'model() of ' + what)
    else:
        raise HarnessError('unknown touch %r' % (t,))


_pre_sel = st.integers(0, 5)


@st.composite
def pres(draw):
    """the past of the judged object: None = none (fresh, 1/3); else it was empty (1/6) or held another tensor (1/2)
    and was looked at before being re-defined"""
    w = draw(_pre_sel)
    if w <= 1:
        return None
    T0 = None if w == 2 else draw(g.tensors(variants=True))
    return {'T0': T0, 'via': draw(_rep), 'touch': draw(_touches)}


CACHEABLE = ('Cijkl', 'Sijkl', 'Sij', 'Cij9', 'transform', 'transform_I', 'bulk', 'shear')


def _used(pre, labels):
    """None for no past (the caller uses the constructor), else the used object"""
    import atomman as am
    if pre is None:
        labels.add('pre_none')
        return None
    T0 = pre['T0']
    if T0 is None:
        ec = am.ElasticConstants()
        labels.add('pre_empty')
        for t in pre['touch']:
            if t in ('Cij', 'Cij9', 'Cijkl'):
                v = _get(ec, t, SHAPES[t])
                require(not v.any(), lambda: 'empty object: %s is not zero' % t)
                labels.add('pre_looked')
            elif t == 'str':
                str(ec)
        return ec
    C0 = g.cij(T0)
    mine0 = mine_of(C0)
    info0 = _info(C0, mine0)
    ec = am.ElasticConstants(**{pre['via']: _arg(mine0[pre['via']], False)})
    for t in pre['touch']:
        _touch(ec, t, C0, mine0, info0, 'earlier tensor of the same object')
    labels.add('pre_other')
    if any(t in CACHEABLE for t in pre['touch']):
        labels.add('pre_looked')
    return ec


def _build(case, T, C6, mine, route, labels, what, dt=None):
    """the object under judgement: fresh, or a used one re-defined through route (dt: storage dtype, see _prepare)"""
    ec = _used(case.get('pre'), labels)
    form = case.get('inform', 'list' if case.get('aslist') else 'array')
    route, arg = _payload(T, C6, mine, route, form, case.get('form', 0), case.get('num', 'float'), labels, dt)
    labels.add('route_' + (route if route in REPS or route == 'model' else 'named'))
    return _define(ec, route, arg, what)


# ----------------------------------------------------------------------------- reps

_rep = st.sampled_from(REPS)
_bool = st.booleans()


_order = st.integers(0, 119)
_scribble = st.sampled_from((None, None, None) + REPS)
_tensors_old = g.tensors(variants=True)
# 8/10 the mixture of the earlier rounds, 1/10 near-threshold variants (almost a higher symmetry), 1/10 crystal-system
# tensors with exactly relabelled axes
_sel10 = st.sampled_from(tuple(range(10)))


def _mix(old, *new):
    """old in (10 - len(new))/10 of the draws, each of the new strategies in 1/10 (one_of() merges equal branches and is
    far from uniform: an explicit selector)"""
    @st.composite
    def _m(draw):
        k = draw(_sel10)
        return draw(new[k]) if k < len(new) else draw(old)
    return _m()


_tensors = _mix(_tensors_old, g.almost_tensors(), g.perm_tensors())
_caller = st.sampled_from((0, 1, 1))


@st.composite
def reps_cases(draw):
    via, dt = draw(_rep), draw(_dt)
    return {'T': _fit(draw(_tensors), dt, via), 'via': via, 'then': draw(_rep), 'inform': draw(_inform), 'dt': dt,
            'strain': draw(g.strains()), 'pre': draw(pres()), 'order': draw(_order), 'scribble': draw(_scribble),
            'caller': draw(_caller)}


def oracle_reps(case):
    import atomman as am
    T = case['T']
    via, then = case['via'], case['then']
    C6, mine, dt = _prepare(T, via, case.get('dt'))
    labels = g.labels_of(T)
    w = np.linalg.eigvalsh(C6)
    cond = float(w[-1] / w[0])
    floor = _floor_hit(C6, 2e-9)
    eps_t = np.array(case['strain'], dtype=float)
    ec = _build(case, T, C6, mine, via, labels, 'object defined by my %s' % via, dt)
    scribble = case.get('scribble')
    k = check_reps(ec, mine, cond, floor, eps_t, 'built from my %s' % via, case.get('order', 0), scribble)
    if scribble is not None:
        labels.add('scribble')
    if k == 1.0:
        # atomman's own output of another representation fed back in
        out = _get(ec, then, SHAPES[then])
        listed = case.get('inform', 'list' if case.get('aslist') else 'array') in ('list', 'tuple', 'intlist')
        ec2 = _define(None, then, out.tolist() if listed else out, 'object rebuilt from the %s that atomman returned' % then)
        check_reps(ec2, mine, cond, floor, eps_t, 'built from my %s, rebuilt from its %s' % (via, then))
        _close(_cij(ec2), _cij(ec), 1e-8 * np.abs(C6).max(), 'round trip %s -> %s -> Cij' % (via, then))
    labels.update({'via_' + via, 'then_' + then, 'list' if 'in_list' in labels or 'in_tuple' in labels or 'in_intlist' in labels else 'array'})
    if via != then:
        labels.add('reps_differ')
    if floor:
        labels.add('floor_band')
    if np.count_nonzero(C6) == 36:
        labels.add('nt')
    return labels


# ----------------------------------------------------------------------------- named

_how = st.sampled_from(['init', 'init', 'method', 'method', 'reuse', 'reuse'])
_named_v = g.named(variants=True)
_named_almost = g.almost_tensors().filter(lambda T: T['kind'] == 'named')
_named_t = _mix(_named_v, _named_almost)
# axes that miss orthogonality by 1e-13 ... 1e-10 (axes_check documents its tolerance: 1e-8; stay a factor 100 inside it):
# [i, j, e]: row i gets e |row i| / |row j| times row j added
_skew = _mix(st.none(), st.tuples(st.integers(0, 2), st.integers(1, 2), st.integers(-1300, -1000)).map(
    lambda t: [t[0], (t[0] + t[1]) % 3, 10.0 ** (t[2] / 100.0)]))
_formidx = st.integers(0, 7)
_hexangle = st.one_of(gens.nice(0.0, 360.0, 2), st.sampled_from([30.0, 45.0, 90.0, 17.0]))
_scale = st.one_of(st.none(), st.none(), st.lists(st.sampled_from([1.0, 2.0, 0.5, 3.7, 0.01, 250.0]), min_size=3, max_size=3))


# rows of `axes` (the one array argument whose rows are independent: each is normalised by its OWN length) spanning up to
# 16 orders of magnitude in one call
_decades = st.lists(st.sampled_from([1e-8, 1e-6, 1e-3, 1.0, 1e3, 1e6, 1e8, 1e-8, 1e8]), min_size=3, max_size=3)


_scale2 = _mix(_scale, _decades)


@st.composite
def named_cases(draw):
    T = draw(_named_t)
    how = draw(_how)
    num = draw(_num2)
    return {'T': _fit_num(T, num), 'form': draw(_formidx), 'how': how, 'angle': draw(_hexangle), 'num': num,
            'scale': draw(_scale2), 'axform': draw(_inform), 'pre': draw(pres()) if how == 'reuse' else None,
            'axdt': draw(_dt), 'skew': draw(_skew), 'caller': draw(_caller)}


CYCLIC = [[0, 1, 0], [0, 0, 1], [1, 0, 0]]


def _rotmat(spec):
    """rotation of a case: [axis, angle in degrees] or ['P', k] = the k-th proper signed permutation matrix, exactly"""
    if spec[0] == 'P':
        return np.array(g.SIGNED_PERMS[spec[1] % 24], dtype=float)
    return el.rotation_matrix(*spec)


def _axes(R, scale, form, labels=None, dt=None, skew=None):
    """axes argument of transform: rows of R, optionally of other lengths, in one of the array-like forms (old cases:
    form is the boolean 'aslist'), stored in dtype dt where that is exact; skew: see _skew"""
    A = np.array(R, dtype=float)
    if scale is not None:
        A = A * np.array(scale, dtype=float)[:, None]
        if labels is not None and max(scale) >= 1e8 * min(scale):
            labels.add('axes_decades')
    if skew is not None:
        i, j, e = skew
        A[i] = A[i] + e * (np.linalg.norm(A[i]) / np.linalg.norm(A[j])) * A[j]
        if labels is not None:
            labels.add('axes_almost_orth')
    if form is True or form is False or form is None:
        form = 'list' if form else 'array'
    arg, used = _form(A, form, dt, labels, 'axes_')
    if labels is not None:
        labels.add('axes_' + used)
    return arg


def oracle_named(case):
    import atomman as am
    T = case['T']
    system = T['system']
    forms = g.FORMS[system]
    form = forms[case['form'] % len(forms)]
    C6 = g.cij(T)
    cmax = np.abs(C6).max()
    labels = g.labels_of(T)
    kw = _numbers(g.kwargs_of(T, form), case.get('num', 'npfloat' if case.get('npfloat') else 'float'), labels)
    labels.update({'how_' + case['how'], 'form_' + form, 'nkw%d' % len(kw)})
    if case['how'] == 'init':
        ec = _define(None, system, kw, 'object built from %s constants' % system)
    elif case['how'] == 'method' or case.get('pre') is None:
        ec = _define(am.ElasticConstants(), system, kw, 'empty object defined by the %s method' % system)
    else:
        # an object with a past, re-defined by the crystal-system method
        ec = _define(_used(case['pre'], labels), system, kw, 'used object re-defined by the %s method' % system)
    got = _get(ec, 'Cij', (6, 6))
    _close(got, C6, 1e-8 * cmax, '%s constants %r: Cij against my placement table' % (system, sorted(kw)))
    consts = T['C']
    generators = el.symmetry_generators(system, consts, case['angle'])
    if system == 'cubic':
        generators = generators + [('3[111] as an exact cyclic relabelling', np.array(CYCLIC, dtype=float)),
                                   ('2[110] as an exact relabelling', np.array([[0, 1, 0], [1, 0, 0], [0, 0, -1]], dtype=float))]
        labels.add('exact_relabelling')
    for name, R in generators:
        # my own rotation of atomman's matrix
        _close(el.rotate_voigt(got, R), got, 1e-8 * cmax, '%s tensor under its symmetry rotation %s (my rotation)' % (system, name))
        # atomman's rotation of atomman's matrix
        tr = _transform(ec, _axes(R, case['scale'], case.get('axform', case.get('aslist')), labels, case.get('axdt'), case.get('skew')),
                        got, 'transform(%s)' % name)
        _close(_cij(tr), got, 1e-7 * cmax, '%s tensor under its symmetry rotation %s (transform)' % (system, name))
    _close(_get(ec, 'Cijkl', (3, 3, 3, 3)), el.voigt_to_tensor(C6), 1e-8 * cmax, '%s constants %r: Cijkl against my own map' % (system, sorted(kw)))
    if case['scale'] is not None:
        labels.add('nonunit_axes')
    change = float(np.abs(el.rotate_voigt(C6, GENERIC_R) - C6).max())
    if change > 1e-3 * cmax:
        labels.add('nt')
    return labels


# ----------------------------------------------------------------------------- isotropic

MODULI = ('M', 'lambda', 'mu', 'E', 'nu', 'K')
ALIAS = {'M': 'C11', 'lambda': 'C12', 'mu': 'C44'}
PAIRS15 = tuple(itertools.combinations(MODULI, 2))
KEY_ME = _key('isotropic:M-E-pair-double-root-npfloat')


_iso_v = g.isotropic(variants=True)
_rot_iso = _mix(g.rot_specs(), g.near_sym_rots(), g.perm_rots())


@st.composite
def isotropic_cases(draw):
    T = draw(_iso_v)
    reuse = draw(_bool)
    return {'T': T, 'alias': [draw(_bool) for _ in range(3)], 'npfloat': draw(_bool), 'rot': draw(_rot_iso),
            'order': draw(_bool), 'num': draw(_num), 'reuse': reuse, 'pre': draw(pres()) if reuse else None,
            'look': draw(st.integers(0, 2 ** 15 - 1)) if reuse else 0, 'caller': draw(_caller)}


def oracle_isotropic(case):
    import atomman as am
    E, nu = case['T']['C']['E'], case['T']['C']['nu']
    m = el.isotropic_moduli(E, nu)
    C6 = el.isotropic_voigt(m['lambda'], m['mu'])
    cmax = float(C6.max())
    labels = g.labels_of(case['T'])
    num = case.get('num', 'npfloat' if case['npfloat'] else 'float')
    npfloat = num == 'npfloat'

    def conv(v):
        x, used = _number(v, num)
        labels.add('num_' + used)
        return x
    alias = dict(zip(('M', 'lambda', 'mu'), case['alias']))
    labels.add('npfloat' if npfloat else 'pyfloat')
    # reuse: ONE object (with a past) is re-defined by each of the 15 pairs in turn and looked at in between
    reuse = bool(case.get('reuse'))
    shared = None
    if reuse:
        labels.add('reuse')
        shared = _used(case.get('pre'), labels)
        if shared is None:
            shared = am.ElasticConstants()
    C4 = el.voigt_to_tensor(C6)
    # (M,E): mu = (3M + E - S)/8, S^2 = D = (E - M)(E - 9M) -> sqrt-type conditioning at the double root nu = 0
    M = m['M']
    D = (E - M) * (E - 9 * M)
    dD = 200 * EPS * M * M
    S = max(D, 0.0) ** 0.5
    tol_ME = 2 * 1.5 * min(dD ** 0.5, dD / S if S > 0 else np.inf) / 8 + 1e-12 * cmax
    band = D <= dD
    if band:
        labels.add('ME_double_root_band')
    deferred = None
    first = None
    for ip, (a, b) in enumerate(PAIRS15):
        if (a, b) == ('lambda', 'nu') and nu == 0.0:
            labels.add('lambda_nu_at_nu0_excluded')        # does not determine the material
            continue
        names = [ALIAS[x] if alias.get(x) else x for x in (a, b)]
        if case['order']:
            kw = {names[1]: conv(m[b]), names[0]: conv(m[a])}
        else:
            kw = {names[0]: conv(m[a]), names[1]: conv(m[b])}
        tol = 1e-8 * cmax                  # Cij setter zeroes entries <= 1e-9 max
        if (a, b) == ('M', 'E'):
            tol = max(tol, tol_ME)
            try:
                ec = _define(shared, 'isotropic', kw, 'isotropic pair')
            except AssertionError as e:
                if band and npfloat and 'Cij values not valid' in str(e):
                    deferred = Violation('ElasticConstants(%s) with numpy.float64 values at the double root nu=%r (M=%r, E=%r) '
                                         'raised AssertionError(%s): negative rounding residue under the square root gives nan'
                                         % (', '.join(names), nu, m['M'], E, e), key=KEY_ME)
                    continue
                raise
        else:
            ec = _define(shared, 'isotropic', kw, 'isotropic pair')
        _close(_get(ec, 'Cij', (6, 6)), C6, tol, 'isotropic pair %r (E=%r, nu=%r)' % (tuple(names), E, nu))
        if reuse and (case.get('look', 0) >> ip) & 1:
            _close(_get(ec, 'Cijkl', (3, 3, 3, 3)), C4, tol, 'isotropic pair %r (E=%r, nu=%r): Cijkl of the re-defined object' % (tuple(names), E, nu))
        if first is None:
            first = ec
    R = _rotmat(case['rot'])
    _close(_cij(_transform(first, R, C6, 'transform(%r) of the isotropic tensor' % (case['rot'],))), C6, 1e-7 * cmax, 'isotropic tensor under rotation %r' % (case['rot'],))
    _close(_get(first, 'Cijkl', (3, 3, 3, 3)), C4, 1e-8 * cmax, 'Cijkl of the isotropic tensor')
    if deferred is not None:
        raise deferred
    if nu > 0:
        labels.add('nt')
    if nu == 0.0:
        labels.add('nu0')
    elif nu < 1e-2:
        labels.add('nu_tiny')
    elif nu > 0.45:
        labels.add('nu_near_half')
    return labels


# ----------------------------------------------------------------------------- rotate

SPECIAL_ROTS = [[[0, 0, 1], 90.0], [[1, 0, 0], 90.0], [[0, 1, 0], 90.0], [[1, 1, 1], 120.0], [[0, 0, 1], 120.0],
                [[1, 0, 0], 180.0], [[0, 1, 0], 180.0], [[0, 0, 1], 180.0], [[0, 0, 1], 60.0], [[0, 0, 1], 0.0],
                [[1, 1, 0], 180.0], [[0, 0, 1], 33.0]]
_rot_old = st.one_of(g.rot_specs(), g.rot_specs(), g.rot_specs(), st.sampled_from(SPECIAL_ROTS))
# 8/10 as before, 1/10 a symmetry operation missed by 1e-10 ... 1e-2 degrees, 1/10 an exact signed permutation of the axes
_rot = _mix(_rot_old, g.near_sym_rots(), g.perm_rots())
STYLES = (('bulk', 'Voigt'), ('bulk', 'Reuss'), ('bulk', 'Hill'), ('shear', 'Voigt'), ('shear', 'Reuss'), ('shear', 'Hill'))


ROUTES = REPS + ('Cij', 'Cij', 'named', 'named', 'model')
_route = st.sampled_from(ROUTES)
_tol = st.sampled_from([None, None, 1e-12, 1e-10, 1e-6, 1e-5])


@st.composite
def rotate_cases(draw):
    route, dt = draw(_route), draw(_dt)
    return {'T': _fit(draw(_tensors), dt, route), 'R1': draw(_rot), 'R2': draw(_rot), 'scale': draw(_scale2), 'axform': draw(_inform),
            'strain': draw(g.strains()), 'pre': draw(pres()), 'route': route, 'inform': draw(_inform), 'dt': dt,
            'form': draw(_formidx), 'num': draw(_num), 'tol': draw(_tol), 'axdt': draw(_dt), 'skew': draw(_skew),
            'caller': draw(_caller)}


def oracle_rotate(case):
    import atomman as am
    T = case['T']
    C6, mine, dt = _prepare(T, case.get('route', 'Cij'), case.get('dt'))
    labels = g.labels_of(T)
    w = np.linalg.eigvalsh(C6)
    cond = float(w[-1] / w[0])
    cmax = float(np.abs(C6).max())
    R1, R2 = _rotmat(case['R1']), _rotmat(case['R2'])
    for R in (case['R1'], case['R2']):
        if R[0] == 'P':
            labels.add('rot_exact_perm')
        elif any(0 < abs(R[1] - a) < 0.011 for a in (0.0, 45.0, 60.0, 90.0, 120.0, 180.0)):
            labels.add('rot_near_symmetry')
    exp1 = el.rotate_voigt(C6, R1)
    exp12 = el.rotate_voigt(C6, R2 @ R1)
    K = el.bond_matrix(R1)                       # second, independent route for my own reference
    if float(np.abs(K @ C6 @ K.T - exp1).max()) > 1e-11 * float(np.abs(exp1).max()):
        raise HarnessError('reference rotation: 4-index route and Bond-matrix route disagree')
    big = max(cmax, float(np.abs(exp1).max()), float(np.abs(exp12).max()))
    t1tol, t2tol = 1e-7 * big, 1e-6 * big
    ec = _build(case, T, C6, mine, case.get('route', 'Cij'), labels, 'object to rotate', dt)
    ax = lambda R: _axes(R, case['scale'], case.get('axform', case.get('aslist')), labels, case.get('axdt'), case.get('skew'))
    # identity
    _close(_cij(_transform(ec, ax(np.eye(3)), C6, 'transform(identity)')), C6, t1tol, 'transform(identity)')
    # against my own tensor rotation
    t1 = _transform(ec, ax(R1), exp1, 'transform(R1)')
    got1 = _get(t1, 'Cij', (6, 6))
    _close(got1, exp1, t1tol, 'transform(R1=%r) against my own R R R R C' % (case['R1'],))
    # documented option: relative threshold below which terms are identified as zero
    tol = case.get('tol')
    if tol is not None:
        # (axes without the 1e-13 ... 1e-10 skew here: tol may be smaller than what that skew does to an exact zero)
        tt = _get(ec.transform(_axes(R1, case['scale'], case.get('axform', case.get('aslist')), labels, case.get('axdt')), tol=tol), 'Cij', (6, 6))
        e1max = float(np.abs(exp1).max())
        _close(tt, exp1, max(1e-7, 2 * tol) * big, 'transform(R1=%r, tol=%r) against my own R R R R C' % (case['R1'], tol))
        sure = np.abs(exp1) < 0.5 * tol * e1max
        require(not tt[sure].any(), lambda: 'transform(R1, tol=%r) keeps terms below half the threshold:\n%r' % (tol, tt))
        labels.add('tol_given')
        if sure.any() and bool((np.abs(exp1[sure]) > 1e-13 * e1max).any()):
            labels.add('tol_zeroes_something')
    # composition and inverse
    t12 = _transform(t1, ax(R2), exp12, 'transform(R2) after transform(R1)')
    _close(_cij(t12), exp12, t2tol, 'transform(R2) after transform(R1) against my own rotation by R2.R1')
    _close(_cij(t12), _cij(_transform(ec, ax(R2 @ R1), exp12, 'transform(R2.R1)')), t2tol, 'transform(R2) after transform(R1) against transform(R2.R1)')
    _close(_cij(_transform(t1, ax(R1.T), C6, 'transform(R1^T) after transform(R1)')), C6, t2tol, 'transform(R1^T) after transform(R1)')
    # strain energy of the co-rotated strain
    e = np.array(case['strain'], dtype=float)
    e_r = R1 @ e @ R1.T
    W0 = float(np.einsum('ij,ijkl,kl->', e, ec.Cijkl, e))
    W1 = float(np.einsum('ij,ijkl,kl->', e_r, t1.Cijkl, e_r))
    Wv = float(el.strain_vector(e) @ C6 @ el.strain_vector(e))
    s1 = max(float(np.abs(e).sum()), float(np.abs(e_r).sum()))
    require(abs(W1 - W0) <= 1e-7 * big * s1 * s1, lambda: 'strain energy changed under co-rotation: %.12g -> %.12g' % (W0, W1))
    require(abs(Wv - W0) <= 1e-8 * big * s1 * s1, lambda: 'eps:Cijkl:eps = %.12g but e6.C6.e6 = %.12g' % (W0, Wv))
    # Voigt / Reuss / Hill averages
    ref = el.vrh(C6)
    floor = _floor_hit(C6, 2e-9) or _floor_hit(el.voigt_to_tensor(exp1), 2e-8)
    for fn, style in STYLES:
        r = ref[(fn, style)]
        if style == 'Voigt':
            tol = 1e-7 * big
        else:
            tol = (1e-11 * cond + (6e-7 * cond * cond if floor else 0.0)) * big + 1e-7 * big
        a0, a1 = float(getattr(ec, fn)(style)), float(getattr(t1, fn)(style))
        require(abs(a0 - r) <= tol, lambda: '%s(%s) = %.12g, my own = %.12g' % (fn, style, a0, r))
        require(abs(a1 - a0) <= tol, lambda: '%s(%s) changed under rotation: %.12g -> %.12g' % (fn, style, a0, a1))
    d0, d1 = float(ec.bulk()), float(ec.shear())
    require(abs(d0 - ref[('bulk', 'Hill')]) <= 1e-6 * big and abs(d1 - ref[('shear', 'Hill')]) <= 1e-6 * big,
            'default style of bulk()/shear() is not Hill')
    ang = el.rotation_angle_deg(R1)
    change = float(np.abs(exp1 - C6).max())
    if case['scale'] is not None:
        labels.add('nonunit_axes')
    if floor:
        labels.add('floor_band')
    if change <= 1e-6 * cmax and ang > 1.0 and 'near_iso' not in labels:
        labels.add('symmetry_element')
    if 'near_iso' in labels and ang > 5.0 and change > 1e-6 * cmax:
        labels.update({'near_iso_rotates', 'nt'})   # weakly anisotropic, yet the rotation is 10x above the comparison tolerance
    if cmax < 2e-3 and ang > 5.0 and change > 1e-3 * cmax:
        labels.add('tiny_numbers_rotate')       # all numbers below 2e-3 (absolute tolerances of ~1e-4 would bite)
    if float(exp1.min()) < 0:
        labels.add('negative_entries')
    if ang > 5.0 and change > 1e-3 * cmax:
        labels.add('nt')
    return labels


# ----------------------------------------------------------------------------- normalize

NORM_SYSTEMS = ('isotropic', 'cubic', 'hexagonal', 'tetragonal', 'rhombohedral', 'orthorhombic', 'triclinic')
_normsys = st.sampled_from(NORM_SYSTEMS + NORM_SYSTEMS + ('monoclinic',))


_tols = st.sampled_from([None, None, [1e-4, 0.0], [1e-6, 1e-6], [1e-2, 1e-3], [0.0, 1e-4], [1e-7, 1e-7]])
_norm_how = st.sampled_from(['Cij', 'named'])


@st.composite
def normalize_cases(draw):
    T = draw(_tensors)
    s = draw(_normsys)
    if T['kind'] == 'named' and T['system'] != 'monoclinic' and draw(st.integers(0, 2)) == 0:
        s = T['system']              # fixed point: the tensor is built from this system's constants
    how, route, dt = draw(_norm_how), draw(_route), draw(_dt)
    if not (how == 'named' and T['kind'] == 'named'):
        T = _fit(T, dt, 'Cij' if route == 'named' else route)
    return {'T': T, 'system': s, 'how': how, 'pre': draw(pres()), 'dt': dt,
            'route': route, 'inform': draw(_inform), 'form': draw(_formidx), 'num': draw(_num), 'tols': draw(_tols),
            'caller': draw(_caller)}


def _consts_from(system, C):
    """read the constants of a system from the canonical positions of a Voigt matrix"""
    if system == 'isotropic':
        return {'C11': C[0, 0], 'C12': C[0, 1]}
    return {n: C[int(n[1]) - 1, int(n[2]) - 1] for n in g.NAMES[system]}


def oracle_normalize(case):
    import atomman as am
    T, s = case['T'], case['system']
    labels = g.labels_of(T)
    labels.add('to_' + s)
    built_from = T['system'] if T['kind'] == 'named' else None
    route = case.get('route', 'Cij')
    if case['how'] == 'named' and built_from is not None:
        route = 'named'
        labels.add('built_named')
    elif route == 'named':
        route = 'Cij'
    C6, mine, dt = _prepare(T, route, case.get('dt'))
    if dt in FLOAT_NARROW and route in REPS:
        built_from = None            # rounded to a float32 / float16 array: the relations between the entries hold to that precision only
    cmax = float(np.abs(C6).max())
    ec = _build(case, T, C6, mine, route, labels, 'object to normalise', dt)
    try:
        N = _track(ec.normalized_as(s), 'the object returned by normalized_as(%s)' % s, out=True)
    except ValueError as e:
        if s == 'monoclinic' and 'Invalid crystal_system' in str(e):
            _close(_cij(ec), C6, 1e-8 * cmax, 'operand after refused normalized_as')
            return labels | {'refusal'}
        raise
    NC = _get(N, 'Cij', (6, 6))
    tol = 1e-8 * max(cmax, float(np.abs(NC).max()))
    _close(_cij(ec), C6, 1e-8 * cmax, 'operand after normalized_as (must return a new object)')
    # the result has the form of the system
    if True:
        _close(NC, g.place(s, _consts_from(s, NC)), tol, 'normalized_as(%s) result against the %s placement of its own constants' % (s, s))
    # idempotent
    N2 = _track(N.normalized_as(s), 'the object returned by normalized_as(%s) applied twice' % s, out=True)
    _close(_cij(N2), NC, tol, 'normalized_as(%s) applied twice' % s)
    require(bool(N.is_normal(s)), lambda: 'is_normal(%s) is False on the result of normalized_as(%s)' % (s, s))
    # is_normal, both directions of its documented tolerance test (10x band around atol=rtol=1e-4)
    # (judged on the object's own matrix, which was checked against mine above: the Cij setter zeroes terms below
    #  1e-9 max|C|, which at large magnitudes is more than the absolute tolerance)
    own = _get(ec, 'Cij', (6, 6))
    diff = np.abs(C6 - NC)
    diff_own = np.abs(own - NC)
    allow = 1e-4 + 1e-4 * np.abs(NC)
    verdict = bool(ec.is_normal(s))
    if np.all(diff_own <= 0.1 * allow):
        require(verdict, lambda: 'is_normal(%s) is False although the tensor equals its normalisation within %.3g' % (s, float(diff.max())))
        labels.add('is_normal_true')
    elif np.any(diff_own >= 10 * allow):
        require(not verdict, lambda: 'is_normal(%s) is True although the tensor differs from its normalisation by %.3g' % (s, float(diff.max())))
        labels.add('is_normal_false')
    # the documented tolerances given explicitly, relative to the size of the numbers: [atol / max|C|, rtol]
    if case.get('tols') is not None:
        atol, rtol = case['tols'][0] * cmax, case['tols'][1]
        allow = atol + rtol * np.abs(NC)
        v2 = bool(ec.is_normal(s, atol=atol, rtol=rtol))
        edge = 10 * EPS * cmax
        diff2 = diff_own
        if np.all(diff2 <= 0.1 * allow - edge):
            require(v2, lambda: 'is_normal(%s, atol=%r, rtol=%r) is False although the tensor equals its normalisation within %.3g' % (s, atol, rtol, float(diff2.max())))
            labels.add('is_normal_tols_true')
        elif np.any(diff2 >= 10 * allow + edge):
            require(not v2, lambda: 'is_normal(%s, atol=%r, rtol=%r) is True although the tensor differs from its normalisation by %.3g' % (s, atol, rtol, float(diff2.max())))
            labels.add('is_normal_tols_false')
    # a constant within a factor 5 of the Cij setter's documented 1e-9 clean-up (nu = 1e-9 makes C12 = 1e-9 C11) is kept by one route
    # and zeroed by the other (normalized_as re-derives it from K and mu): no verdict asked there
    rel6 = np.abs(C6) / float(np.abs(C6).max())
    on_floor = bool(np.any((rel6 > 2e-10) & (rel6 < 5e-9)))
    if on_floor:
        labels.add('constant_on_cleanup_floor')
    if (built_from == s or s == 'triclinic') and not on_floor:
        require(verdict, lambda: 'is_normal(%s) is False for a tensor built from %s constants' % (s, s))
        _close(NC, C6, 1e-8 * cmax, 'normalized_as(%s) of a tensor built from %s constants' % (s, s))
        labels.add('fixed_point')
    if float(diff.max()) > 1e-3 * cmax:
        labels.add('nt')
    return labels


# ----------------------------------------------------------------------------- history

_step_T = st.one_of(_tensors, _tensors, _tensors, st.integers(0, 3))
_nsteps = st.integers(2, 5)


@st.composite
def _steps(draw):
    route, dt, T = draw(_route), draw(_dt), draw(_step_T)
    if not isinstance(T, int):
        T = _fit(T, dt, route)
    return {'T': T, 'route': route, 'inform': draw(_inform), 'form': draw(_formidx), 'num': draw(_num), 'dt': dt,
            'look': draw(_touches), 'full': draw(_bool), 'order': draw(_order), 'scribble': draw(_scribble)}


@st.composite
def history_cases(draw):
    n = draw(_nsteps)
    return {'empty': draw(_bool), 'look0': draw(_touches), 'steps': [draw(_steps()) for _ in range(n)],
            'rot': draw(_rot), 'strain': draw(g.strains()), 'caller': draw(_caller)}


def oracle_history(case):
    """ONE object is defined and re-defined 2-5 times (setters in every input form, crystal-system methods, model();
    also back to a tensor it held before); after every definition some derived quantities are read and judged, every
    representation is judged in full at drawn steps and at the end, and the final tensor is rotated"""
    import atomman as am
    labels = set()
    eps_t = np.array(case['strain'], dtype=float)
    ec = None
    if case['empty']:
        ec = am.ElasticConstants()
        labels.add('start_empty')
        for t in case['look0']:
            if t in ('Cij', 'Cij9', 'Cijkl'):
                v = _get(ec, t, SHAPES[t])
                require(not v.any(), lambda: 'empty object: %s is not zero' % t)
            elif t == 'str':
                str(ec)
    seen, ndef, looked, stale_risk = [], 0, False, 0
    C6 = None
    for i, step in enumerate(case['steps']):
        T = step['T']
        if isinstance(T, int):
            if len(seen) < 2:
                continue
            T = seen[T % (len(seen) - 1)]                # a tensor the object held before the current one
            labels.add('back_to_earlier')
        seen.append(T)
        C6, mine, dt = _prepare(T, step['route'], step.get('dt'))
        info = _info(C6, mine)
        what = 'definition %d of the same object' % (ndef + 1)
        route, arg = _payload(T, C6, mine, step['route'], step['inform'], step['form'], step['num'], labels, dt)
        labels.add('route_' + (route if route in REPS or route == 'model' else 'named'))
        ec = _define(ec, route, arg, what)
        if looked and ndef > 0:
            stale_risk += 1
        ndef += 1
        for t in step['look']:
            _touch(ec, t, C6, mine, info, what)
            looked = looked or t in CACHEABLE
        if step['full'] or i == len(case['steps']) - 1:
            k = check_reps(ec, mine, info['cond'], info['floor'], eps_t, what, step['order'], step['scribble'])
            looked = True
            if step['scribble'] is not None:
                labels.add('scribble')
            if k != 1.0:                                 # live-handle semantics: the object now holds k times the tensor
                C6 = k * C6
                seen[-1] = g.scaled_case(T, k)
    if C6 is None:
        return labels
    R = _rotmat(case['rot'])
    exp = el.rotate_voigt(C6, R)
    big = max(float(np.abs(C6).max()), float(np.abs(exp).max()))
    tr = _transform(ec, np.array(R), exp, 'transform after %d definitions' % ndef)
    _close(_get(tr, 'Cij', (6, 6)), exp, 1e-7 * big, 'transform(%r) of the object after %d definitions, against my own rotation' % (case['rot'], ndef))
    _close(_get(ec, 'Cij', (6, 6)), C6, 1e-8 * float(np.abs(C6).max()), 'the object after transform (must return a new object)')
    labels.add('ndef%d' % min(ndef, 4))
    if stale_risk:
        labels.add('nt')                                 # re-defined after derived quantities had been read
    if stale_risk >= 2:
        labels.add('redefined_twice_after_reads')
    return labels



# ----------------------------------------------------------------------------- units (working-unit configurations)
# ElasticConstants holds plain numbers in working units; the only unit-aware code is model(): model(unit=) converts out
# of, model(model=) / ElasticConstants(model=) into working units.  The case's tensor is a PHYSICAL one (its numbers are
# GPa); under a configuration its working-unit numbers are those times my own size of a GPa (a product of numericalunits
# attributes).  The whole judged sequence runs under `pre` (default units or another configuration), then in the same
# process under W; the models written under W are read under R.  Every object and array of the earlier stages is in the
# ledger: a reset must not move them.  The default configuration is always restored.

from .. import gens_c08 as G8                     # configurations, apply_units (shared with C07 / C08)

PRESSURE_UNITS = ('GPa', 'MPa', 'Pa', 'bar', 'kbar', 'eV/angstrom^3', 'J/m^3', 'N/m^2', 'mJ/m^2/angstrom', 'kPa')


def _own(u):
    """size of the unit string u in the working units active now: my own product of numericalunits attributes"""
    import numericalunits as nu
    Pa = nu.kg / (nu.m * nu.s ** 2)
    return {'GPa': 1e9 * Pa, 'MPa': 1e6 * Pa, 'Pa': Pa, 'bar': 1e5 * Pa, 'kbar': 1e8 * Pa, 'kPa': 1e3 * Pa,
            'eV/angstrom^3': nu.eV / nu.angstrom ** 3, 'J/m^3': nu.J / nu.m ** 3, 'N/m^2': nu.N / nu.m ** 2,
            'mJ/m^2/angstrom': nu.mJ / nu.m ** 2 / nu.angstrom}[u]


def _restore_units():
    import atomman.unitconvert as uc
    uc.reset_units(length='angstrom', mass='amu', energy='eV', charge='e')


_pre_kind = st.sampled_from(('default', 'other', 'none', 'default'))
_punit = st.sampled_from(PRESSURE_UNITS)
WROUTES = REPS + ('named', 'model', 'model_unit', 'model_unit', 'model_old', 'model_old')
_wroute = st.sampled_from(WROUTES)
_menc = st.sampled_from(('dm', 'json', 'dm'))
_noisy = st.sampled_from((True, True, False))


@st.composite
def units_cases(draw):
    W, pk, P, cr, R = draw(G8.S_CFG), draw(_pre_kind), draw(G8.S_CFG), draw(_bool), draw(G8.S_CFG)
    if pk == 'default':
        pre, W = G8.DEFAULT_CFG, G8._other_than(W, G8.DEFAULT_CFG)
    else:
        pre = G8._other_than(P, W) if pk == 'other' else None
    return {'T': draw(_tensors_old), 'plan': {'pre': pre, 'W': W, 'R': G8._other_than(R, W) if cr else None}, 'unit': draw(_punit),
            'wroute': draw(_wroute), 'inform': draw(_inform), 'form': draw(_formidx), 'num': draw(_num), 'enc': draw(_menc),
            'rot': draw(_rot_old), 'strain': draw(g.strains()), 'order': draw(_order), 'back': draw(_bool), 'caller': draw(_caller),
            'noisy': draw(_noisy)}


def _my_model(T, C6, u, old, enc):
    """a data model of the physical tensor (numbers C6 in GPa) written by me in unit u: the documented 'Cij' layout or the
    older list of named constants ('C': [{'stiffness': {'value', 'unit'}, 'ij': 'i j'}, ...])"""
    from DataModelDict import DataModelDict as DM
    r = _own('GPa') / _own(u)                          # a pure number: GPa in units of u
    if old:
        kw = g.kwargs_of(T) if T['kind'] == 'named' else g.constants(T)
        d = {'elastic-constants': {'C': [{'stiffness': {'value': float(v) * r, 'unit': u}, 'ij': '%s %s' % (n[1], n[2])}
                                         for n, v in kw.items()]}}
    else:
        d = {'elastic-constants': {'Cij': {'value': (C6 * r).flatten().tolist(), 'shape': [6, 6], 'unit': u}}}
    return json.dumps(d) if enc == 'json' else DM(d)


def _units_stage(case, labels, stage):
    """build, judge, write models - under the configuration active now.  Returns (object, model with unit, model without,
    my Voigt matrix in the working units of this stage)"""
    import atomman as am
    T0 = case['T']
    f = _own('GPa')
    T = g.scaled_case(T0, f) if f != 1.0 else T0
    C6 = g.cij(T)
    mine = mine_of(C6)
    info = _info(C6, mine)
    u, wroute = case['unit'], case['wroute']
    what = 'object built %s' % stage
    if wroute in ('model_unit', 'model_old'):
        ec = _define(None, 'model', _my_model(T0, g.cij(T0), u, wroute == 'model_old', case['enc']), what + ' from my data model in %s' % u)
        labels.add('w' + wroute)
    else:
        route, arg = _payload(T, C6, mine, wroute, case['inform'], case['form'], case['num'], labels)
        if route == 'Cijkl' and case.get('noisy'):
            # a stiffness tensor as a caller computes it: rotated there and back with numpy (symmetric to rounding, like
            # my Sijkl, which comes from an unsymmetrised inverse)
            arg, _ = _form(el.rotate_tensor(el.rotate_tensor(mine['Cijkl'], GENERIC_R), GENERIC_R.T), case['inform'])
            labels.add('noisy_Cijkl')
        ec = _define(None, route, arg, what)
    eps_t = np.array(case['strain'], dtype=float)
    check_reps(ec, mine, info['cond'], info['floor'], eps_t, what, case['order'])
    R = _rotmat(case['rot'])
    exp = el.rotate_voigt(C6, R)
    big = max(info['cmax'], float(np.abs(exp).max()))
    tr = _transform(ec, np.array(R), exp, 'transform %s' % stage)
    _close(_get(tr, 'Cij', (6, 6)), exp, 1e-7 * big, 'transform(%r) %s against my own rotation' % (case['rot'], stage))
    _touch(ec, 'bulk', C6, mine, info, what)
    _touch(ec, 'shear', C6, mine, info, what)
    if T0['kind'] == 'named':
        s = T0['system']
        # a constant within a factor 5 of the Cij setter's documented 1e-9 clean-up (nu = 1e-9: C12 = 1e-9 C11) is zeroed or kept
        # entry by entry as rounding under the unit configuration decides: the symmetry-equivalent entries then differ, no verdict asked
        rel6 = np.abs(C6) / float(np.abs(C6).max())
        on_floor = bool(np.any((rel6 > 2e-10) & (rel6 < 5e-9)))
        if on_floor:
            labels.add('constant_on_cleanup_floor')
        if s != 'monoclinic' and not on_floor:
            require(bool(ec.is_normal(s)), lambda: '%s: is_normal(%s) is False for a tensor built from %s constants' % (what, s, s))
    # the documented default tolerances of is_normal are plain numbers (atol = 1e-4 in working units)
    N = _get(ec.normalized_as('cubic'), 'Cij', (6, 6))
    own = _get(ec, 'Cij', (6, 6))
    d, allow = np.abs(own - N), 1e-4 + 1e-4 * np.abs(N)
    verdict = bool(ec.is_normal('cubic'))
    if np.all(d <= 0.1 * allow):
        require(verdict, lambda: '%s: is_normal(cubic) is False although the tensor equals its normalisation within %.3g' % (what, float(d.max())))
    elif np.any(d >= 10 * allow):
        require(not verdict, lambda: '%s: is_normal(cubic) is True although the tensor differs from its normalisation by %.3g' % (what, float(d.max())))
    # models
    mu = _CTX.model_out(ec.model(unit=u), 'model(unit=%r) %s' % (u, stage)) if _CTX is not None else ec.model(unit=u)
    term = mu['elastic-constants']['Cij']
    require(term.get('unit') == u and list(term.get('shape', [])) == [6, 6], lambda: '%s: model(unit=%r) stores unit %r, shape %r'
            % (what, u, term.get('unit'), term.get('shape')))
    vals = np.array(term['value'], dtype=float).reshape(6, 6)
    _close(vals * _own(u), C6, info['tolC'], '%s: the numbers of model(unit=%r) times my own size of that unit, against my working-unit matrix' % (what, u))
    m0 = _CTX.model_out(ec.model(), 'model() %s' % stage) if _CTX is not None else ec.model()
    t0 = m0['elastic-constants']['Cij']
    require('unit' not in t0, lambda: '%s: model() without a unit stores unit %r' % (what, t0.get('unit')))
    plain = np.array(t0['value'], dtype=float).reshape(6, 6)
    require(np.array_equal(plain, own), lambda: '%s: model() without a unit does not hold the numbers of Cij:\n%r\n%r' % (what, plain, own))
    return ec, mu, m0, own


def oracle_units(case):
    import atomman as am
    import atomman.unitconvert as uc
    plan = case['plan']
    T0 = case['T']
    labels = g.labels_of(T0)
    labels.add('units_' + plan['W']['kind'])
    eps_t = np.array(case['strain'], dtype=float)
    try:
        if plan['pre'] is not None:
            G8.apply_units(uc, plan['pre'])
            _units_stage(case, labels, 'under %s' % G8_text(plan['pre']))
            labels.add('units_pre_default' if plan['pre'] == G8.DEFAULT_CFG else 'units_pre_other')
        G8.apply_units(uc, plan['W'])
        whereW = 'under %s%s' % (G8_text(plan['W']), '' if plan['pre'] is None else ' after the same under %s in the same process' % G8_text(plan['pre']))
        fW = _own('GPa')
        ecW, mu, m0, ownW = _units_stage(case, labels, whereW)
        if abs(fW / 0.0062415090744607615 - 1) > 1e-3:
            labels.add('units_GPa_differs')            # a GPa is not the 0.00624 eV/angstrom^3 of the default configuration
        if plan['R'] is not None:
            G8.apply_units(uc, plan['R'])
            whereR = 'under %s, from the model written %s' % (G8_text(plan['R']), whereW)
            fR = _own('GPa')
            T = g.scaled_case(T0, fR) if fR != 1.0 else T0
            C6 = g.cij(T)
            mine = mine_of(C6)
            info = _info(C6, mine)
            # the model that names its unit describes the physical tensor
            target = ecW if case['back'] else None          # (the object that wrote the model is re-defined from it)
            ec2 = _define(target, 'model', mu, 'object defined %s' % whereR)
            check_reps(ec2, mine, info['cond'], info['floor'], eps_t, 'object defined %s' % whereR, case['order'])
            # the model without a unit holds plain numbers
            ec3 = _define(None, 'model', m0, 'object defined under %s from the unit-less model written %s' % (G8_text(plan['R']), whereW))
            got = _get(ec3, 'Cij', (6, 6))
            require(np.array_equal(got, ownW), lambda: 'a model written without a unit %s read under %s: the numbers changed\n%r\n%r'
                    % (whereW, G8_text(plan['R']), ownW, got))
            labels.add('units_cross')
            if abs(fR / fW - 1) > 1e-3:
                labels.add('units_cross_differs')
    finally:
        _restore_units()
    if plan['pre'] is not None or plan['R'] is not None:
        labels.add('nt')
    return labels


def G8_text(cfg):
    if cfg['kind'] == 'named':
        return 'reset_units(%s)' % ', '.join('%s=%r' % kv for kv in cfg['units'].items())
    return 'reset_units(seed=%r)' % ('SI' if cfg['kind'] == 'SI' else cfg['seed'])


# ----------------------------------------------------------------------------- combos (enumerated)
# Every ordered pair of definition routes of ONE object, with every kind of read in between and every representation read
# first afterwards; every isotropic modulus pair x alias spelling x keyword order x number type, on fresh and on re-used
# objects; every (unit, crystal_system) option pair of model() on a tensor of every crystal system, followed by a full
# look at the object and both ways of reading the model back; every (source system, target system) pair of
# normalized_as / is_normal.  Enumerated, not sampled; judged by the oracles of the sampled clauses.

def _named_T(system, **k):
    return {'kind': 'named', 'system': system, 'C': {n: float(v) for n, v in k.items()}}


FIXED = {
    'isotropic': _named_T('isotropic', E=200.0, nu=0.3),
    'cubic': _named_T('cubic', C11=168, C12=121, C44=75),
    'hexagonal': _named_T('hexagonal', C11=160, C12=90, C13=66, C33=180, C44=47),
    'tetragonal': _named_T('tetragonal', C11=275, C12=179, C13=152, C16=12, C33=165, C44=54, C66=113),
    'rhombohedral': _named_T('rhombohedral', C11=210, C12=80, C13=65, C14=-22, C15=9, C33=240, C44=70),
    'orthorhombic': _named_T('orthorhombic', C11=320, C12=70, C13=72, C22=195, C23=76, C33=230, C44=63, C55=77, C66=79),
    'monoclinic': _named_T('monoclinic', C11=180, C12=60, C13=70, C15=9, C22=200, C23=65, C25=-7, C33=210, C35=11, C44=60, C46=5,
                           C55=70, C66=65),
}
FIXED['rotated'] = g.rotate_case(FIXED['orthorhombic'], [[1, 2, -2], 31.0])
FIXED_NAMES = tuple(FIXED)
for _n, _T in FIXED.items():
    _w = np.linalg.eigvalsh(g.cij(_T))
    assert _w[0] > 2e-3 * _w[-1], _n
COMBO_ROUTES = REPS + ('named', 'model')
COMBO_TOUCHES = (None,) + tuple(sorted(set(TOUCHES)))
COMBO_PAIRS = {'quick': (('rhombohedral', 'rotated'),), 'thorough': (('rhombohedral', 'rotated'), ('rotated', 'cubic'), ('monoclinic', 'hexagonal'))}
COMBO_ISO = ((200.0, 0.3), (7.5, 0.0), (0.0123, 0.49), (3.1e7, 1e-6))
COMBO_UNITS = (None, 'GPa', 'eV/angstrom^3', 'bar')
COMBO_STRAIN = [[0.01, -0.004, 0.002], [-0.004, -0.02, 0.007], [0.002, 0.007, 0.013]]


def combo_list(tier):
    out = []
    for x, y in COMBO_PAIRS[tier]:
        for r1 in COMBO_ROUTES:
            for t in COMBO_TOUCHES:
                for r2 in COMBO_ROUTES:
                    for first in range(5):
                        out.append({'combo': 'redefine', 'x': x, 'y': y, 'r1': r1, 'touch': t, 'r2': r2, 'first': first})
    for alias in itertools.product((False, True), repeat=3):
        for order in (False, True):
            for num in ('float', 'npfloat'):
                for E, nu in COMBO_ISO:
                    for reuse in (False, True):
                        out.append({'combo': 'isotropic', 'alias': list(alias), 'order': order, 'num': num, 'E': E, 'nu': nu, 'reuse': reuse})
    for src in FIXED_NAMES:
        for u in COMBO_UNITS:
            for cs in (None,) + NORM_SYSTEMS + ('monoclinic',):
                out.append({'combo': 'model', 'src': src, 'unit': u, 'cs': cs})
        for tgt in NORM_SYSTEMS + ('monoclinic',):
            for how in ('Cij', 'named'):
                out.append({'combo': 'normalize', 'src': src, 'tgt': tgt, 'how': how})
    return out


def _combo_model(c, labels):
    import atomman as am
    T = FIXED[c['src']]
    C6 = g.cij(T)
    mine = mine_of(C6)
    info = _info(C6, mine)
    u, cs = c['unit'], c['cs']
    what = 'model(unit=%r, crystal_system=%r) of a %s tensor' % (u, cs, c['src'])
    ec = _define(None, 'Cij', np.array(C6), 'object holding a %s tensor' % c['src'])
    kw = {}
    if u is not None:
        kw['unit'] = u
    if cs is not None:
        kw['crystal_system'] = cs
    try:
        m = ec.model(**kw)
    except ValueError as e:
        if cs == 'monoclinic' and 'Invalid crystal_system' in str(e):
            check_reps(ec, mine, info['cond'], info['floor'], np.array(COMBO_STRAIN), 'the object after the refused ' + what)
            return labels | {'refusal'}
        raise
    if _CTX is not None:
        _CTX.model_out(m, what)
    term = m['elastic-constants']['Cij']
    require(term.get('unit') == u, lambda: '%s stores unit %r' % (what, term.get('unit')))
    M6 = np.array(term['value'], dtype=float).reshape(6, 6) * (_own(u) if u is not None else 1.0)
    system = cs or 'triclinic'
    N = _get(ec.normalized_as(system), 'Cij', (6, 6))
    _close(M6, N, info['tolC'], '%s: numbers (times my own size of the unit) against normalized_as(%s)' % (what, system))
    if system != 'triclinic':
        _close(M6, g.place(system, _consts_from(system, M6)), info['tolC'], '%s: numbers against the %s placement of its own constants' % (what, system))
        if float(np.abs(M6 - C6).max()) > 1e-3 * info['cmax']:
            labels.add('nt')                                   # the option changes the tensor written
    # writing a model, with whatever options, leaves the object alone
    check_reps(ec, mine, info['cond'], info['floor'], np.array(COMBO_STRAIN), 'the object after ' + what)
    # both ways of reading the model back
    ec2 = _define(None, 'model', m, 'new object from the ' + what)
    _close(_get(ec2, 'Cij', (6, 6)), M6, info['tolC'], 'new object from the %s: Cij' % what)
    ec = _define(ec, 'model', m, 'the same object re-defined from its own ' + what)
    _close(_get(ec, 'Cij', (6, 6)), M6, info['tolC'], 'the same object re-defined from its own %s: Cij' % what)
    m2 = ec.model(**kw)
    again = np.array(m2['elastic-constants']['Cij']['value'], dtype=float).reshape(6, 6) * (_own(u) if u is not None else 1.0)
    _close(again, M6, info['tolC'], '%s written, read and written again' % what)
    return labels


def oracle_combos(c):
    kind = c['combo']
    labels = {'combo_' + kind}
    if kind == 'redefine':
        step = {'inform': 'array', 'form': 0, 'num': 'float', 'scribble': None}
        case = {'empty': False, 'look0': [], 'rot': [[1, 2, 3], 41.0], 'strain': COMBO_STRAIN, 'caller': 0, 'steps': [
            dict(step, T=FIXED[c['x']], route=c['r1'], look=[c['touch']] if c['touch'] else [], full=False, order=0),
            dict(step, T=FIXED[c['y']], route=c['r2'], look=[], full=True, order=24 * c['first'])]}
        return labels | set(oracle_history(case))
    if kind == 'isotropic':
        case = {'T': g.scaled_case(_named_T('isotropic', E=1.0, nu=c['nu']), c['E']), 'alias': c['alias'], 'npfloat': c['num'] == 'npfloat',
                'rot': [[2, -1, 3], 77.0], 'order': c['order'], 'num': c['num'], 'reuse': c['reuse'], 'pre': None, 'look': 0x5555}
        return labels | set(oracle_isotropic(case))
    if kind == 'normalize':
        case = {'T': FIXED[c['src']], 'system': c['tgt'], 'how': c['how'], 'pre': None, 'route': 'Cij', 'inform': 'array', 'form': 0,
                'num': 'float', 'tols': [1e-6, 1e-6]}
        return labels | set(oracle_normalize(case))
    if kind == 'model':
        return _combo_model(c, labels)
    raise HarnessError('unknown combo %r' % (kind,))


CLAUSES = [
    Clause('reps', _ledgered(oracle_reps), reps_cases, quick=3800, thorough=100000,
           min_share={'nt': 0.2, 'reps_differ': 0.32, 'list': 0.18, 'via_Sijkl': 0.08, 'then_Cij9': 0.08, 'pre_looked': 0.1, 'pre_empty': 0.04,
                      'scribble': 0.2, 'near_iso': 0.099, 'scale_small': 0.1, 'scale_large': 0.037, 'in_readonly': 0.02, 'in_strided': 0.04,
                      'in_forder': 0.03,
                      'ledger': 0.5, 'caller_overwrote': 0.22, 'caller_reused': 0.2, 'in_dt_float': 0.08, 'in_dt_int': 0.042, 'in_dt_f32': 0.04,
                      'in_dt_f16': 0.012, 'almost': 0.05, 'kind_perm': 0.037},
           desc='build from one of Cij/Sij/Cij9/Cijkl/Sijkl, read all five against independent Voigt maps and compliance '
                'weights; minor/major symmetries; Cijkl:Sklmn = symmetric identity; one stress-strain law through all five; '
                'rebuild from atomman\'s own output of a second representation'),
    Clause('named', _ledgered(oracle_named), named_cases, quick=3000, thorough=90000,
           min_share={'nt': 0.27, 'how_method': 0.13, 'nonunit_axes': 0.15, 'how_reuse': 0.14, 'pre_looked': 0.03, 'near_iso': 0.099,
                      'scale_small': 0.077, 'num_int': 0.02, 'num_npint': 0.017, 'axes_readonly': 0.015, 'whole': 0.08,
                      'ledger': 0.4, 'caller_redefined_out': 0.2, 'caller_overwrote': 0.17, 'axes_dt_int': 0.025, 'axes_dt_float': 0.03,
                      'almost': 0.03, 'num_narrow': 0.1, 'axes_almost_orth': 0.045, 'exact_relabelling': 0.065, 'axes_decades': 0.02},
           desc='crystal-system constructors in every documented keyword form against my placement table; invariance '
                'under the system\'s symmetry generators by my rotation and by transform()'),
    Clause('isotropic', _ledgered(oracle_isotropic), isotropic_cases, quick=2400, thorough=70000,
           min_share={'nt': 0.27, 'nu0': 0.04, 'npfloat': 0.24, 'reuse': 0.19, 'pre_looked': 0.05, 'scale_small': 0.11, 'scale_large': 0.037,
                      'ledger': 0.5, 'caller_redefined_out': 0.2},
           desc='all 15 isotropic modulus pairs (with the C11/C12/C44 aliases) give the tensor of (E, nu); rotation invariance'),
    Clause('rotate', _ledgered(oracle_rotate), rotate_cases, quick=3000, thorough=90000,
           min_share={'nt': 0.27, 'nonunit_axes': 0.15, 'symmetry_element': 0.02, 'near_iso_rotates': 0.078, 'tiny_numbers_rotate': 0.012,
                      'pre_looked': 0.13, 'tol_given': 0.25, 'tol_zeroes_something': 0.02, 'route_model': 0.04, 'route_named': 0.05,
                      'scale_small': 0.1,
                      'ledger': 0.5, 'caller_overwrote': 0.22, 'caller_reused': 0.12, 'in_dt_float': 0.05, 'in_dt_int': 0.03, 'axes_dt_int': 0.04,
                      'axes_dt_float': 0.04, 'almost': 0.05, 'kind_perm': 0.037, 'rot_exact_perm': 0.085, 'rot_near_symmetry': 0.15,
                      'axes_almost_orth': 0.1, 'axes_decades': 0.04},
           desc='transform against my own tensor rotation; identity, composition, inverse; strain energy of co-rotated '
                'strain; Voigt/Reuss/Hill bulk and shear against invariants and unchanged by rotation'),
    Clause('history', _ledgered(oracle_history), history_cases, quick=1600, thorough=40000,
           min_share={'nt': 0.22, 'back_to_earlier': 0.08, 'redefined_twice_after_reads': 0.13, 'scribble': 0.25, 'start_empty': 0.2,
                      'route_model': 0.07, 'route_named': 0.1,
                      'ledger': 0.4, 'caller_reused': 0.17, 'in_dt_float': 0.1, 'in_dt_int': 0.042},
           desc='one object defined and re-defined 2-5 times through every setter (all array-like input forms), '
                'crystal-system method and model(), also back to an earlier tensor, with judged reads of every derived '
                'quantity in between, writes to returned arrays, full representation check and a final rotation'),
    Clause('normalize', _ledgered(oracle_normalize), normalize_cases, quick=3800, thorough=100000,
           min_share={'nt': 0.24, 'fixed_point': 0.08, 'is_normal_false': 0.2, 'is_normal_true': 0.1, 'is_normal_tols_true': 0.08,
                      'is_normal_tols_false': 0.13, 'pre_looked': 0.1, 'near_iso': 0.08,
                      'ledger': 0.45, 'caller_redefined_out': 0.2, 'caller_reused': 0.11, 'in_dt_float': 0.05, 'in_dt_int': 0.012, 'almost': 0.045,
                      'kind_perm': 0.037},
           max_share={'refusal': 0.2},
           desc='normalized_as idempotent, result has the form of the system, is_normal true on it and on tensors built '
                'from that system\'s constants; is_normal both directions; monoclinic refused'),
    Clause('units', _ledgered(oracle_units), units_cases, quick=1000, thorough=30000,
           min_share={'nt': 0.27, 'ledger': 0.45, 'units_cross_differs': 0.22, 'units_pre_default': 0.22, 'units_pre_other': 0.1, 'units_seed': 0.1,
                      'units_SI': 0.05, 'wmodel_old': 0.065, 'wmodel_unit': 0.08, 'caller_overwrote': 0.27, 'noisy_Cijkl': 0.015},
           desc='the physical tensor in working units set by reset_units (named units, integer seed, SI): the same build / '
                'representations / rotation / moduli / is_normal / model(unit=) sequence under an earlier configuration, then '
                'in the same process under another; models written under one configuration read under a third; objects, arrays '
                'and models of the earlier stages must not move'),
    Clause('combos', _ledgered(oracle_combos), enumerate=combo_list, quick=1, thorough=1,
           min_share={'nt': 0.25, 'combo_redefine': 0.4, 'combo_model': 0.014, 'combo_isotropic': 0.011, 'combo_normalize': 0.005},
           desc='enumerated: every ordered pair of definition routes of one object x every read in between x every '
                'representation read first; the 15 isotropic pairs x alias spellings x keyword order x number type x fresh / '
                're-used object; model(unit, crystal_system) option pairs per crystal system followed by a full look and both '
                'read-backs; normalized_as / is_normal for every (source, target) system pair'),
]
